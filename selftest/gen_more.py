# Loaded by gen.py (M, T and the file-name constants are injected).  One block per property.

# =============================================================================================== C01 / C17 (hardening)
def _twin_edits(twin, only=None):
    """Edits (file, old, new) of a confirmed twin patch: one per hunk, old = context + removed lines, new = context + added."""
    import os as _os
    here = _os.path.dirname(_os.path.abspath(__file__))
    out, cur, f = [], None, None
    for line in open(_os.path.join(here, '..', 'twins', twin, 'patch.diff'), encoding='utf-8').read().split('\n'):
        if line.startswith('+++ b/'):
            f = line[6:]
        elif line.startswith('@@'):
            cur = [f, [], []]
            out.append(cur)
        elif cur is not None and line[:1] in (' ', '-', '+') and not line.startswith(('--- ', '+++ ')):
            if line[0] in ' -':
                cur[1].append(line[1:])
            if line[0] in ' +':
                cur[2].append(line[1:])
        elif line.startswith('diff '):
            cur = None
    eds = [(f, '\n'.join(o) + '\n', '\n'.join(n) + '\n') for f, o, n in out if only is None or f in only]
    return eds


def TW(prop, id, twin, only=None):
    eds = _twin_edits(twin, only)
    T(prop, id, eds[0][0], eds[0][1], eds[0][2], more=eds[1:])


_VERIFY_LOOP_TAIL = """                issues = signature_issues | subkey_issues
                if issues and issues.causes_signature_verify_to_fail:
                    sigv.add_sigsubj(sig, self, subj, issues)
                else:
                    verified = self._key.verify(sig.hashdata(subj), sig.__sig__, getattr(hashes, sig.hash_algorithm.name)())
                    if verified is NotImplemented:
                        raise NotImplementedError(sig.key_algorithm)

                    sigv.add_sigsubj(sig, self, subj, SecurityIssues.WrongSig if not verified else SecurityIssues.OK)
"""
_PRED = "        return bool(self & (\n            SecurityIssues.WrongSig\n            | SecurityIssues.Expired\n            | SecurityIssues.Disabled\n            | SecurityIssues.Invalid\n            | SecurityIssues.NoSelfSignature\n        ))"
_GOOD = "        yield from (\n            sigsub\n            for sigsub in self._subjects\n            if not sigsub.issues\n            or (sigsub.issues and not sigsub.issues.causes_signature_verify_to_fail)\n        )"
_BAD = "        yield from (\n            sigsub\n            for sigsub in self._subjects\n            if sigsub.issues and sigsub.issues.causes_signature_verify_to_fail\n        )"
_BOOL = "        return all(\n            sigsub.issues is SecurityIssues.OK\n            or (sigsub.issues and not sigsub.issues.causes_signature_verify_to_fail)\n            for sigsub in self._subjects\n        )"
_REC = "        self._subjects.append(self._sigsubj(issues, by, signature, subject))"
_WRONGSIG_REC = "                    sigv.add_sigsubj(sig, self, subj, SecurityIssues.WrongSig if not verified else SecurityIssues.OK)"

# ---- the confirmed twins of both properties, hunk by hunk (families: extend(generator) / append, if-else restructuring,
#      temporaries, loops instead of comprehensions / all(), helper extraction, keyword construction, guard inversion)
TW('C01', 'twin-C01-ref1', 'C01-ref1')
TW('C01', 'twin-C01-ref2', 'C01-ref2')
TW('C01', 'twin-C01-ref3', 'C01-ref3')
TW('C01', 'twin-C01-ref4', 'C01-ref4')
TW('C01', 'twin-C17-ref2', 'C17-ref2')
TW('C17', 'twin-C01-ref2', 'C01-ref2')
TW('C17', 'twin-C01-ref4', 'C01-ref4')
TW('C17', 'twin-C17-ref1', 'C17-ref1')
TW('C17', 'twin-C17-ref2', 'C17-ref2')
TW('C17', 'twin-C17-ref3', 'C17-ref3')
TW('C17', 'twin-C17-ref4', 'C17-ref4')

# ---- C01.1: key list built with insert() and hashed in one loop (interp: list.insert)
_REVOC = "            if self.type == SignatureType.SubkeyRevocation:\n                # hash the primary key first if this is a Subkey Revocation signature\n                _s = subject.parent.hashdata\n                _data += b'\\x99' + self.int_to_bytes(len(_s), 2) + _s\n\n            _s = subject.hashdata\n            _data += b'\\x99' + self.int_to_bytes(len(_s), 2) + _s\n"
T('C01', 'twin-revocation-key-list', PGP, _REVOC,
  "            hashed_keys = [subject]\n            if self.type == SignatureType.SubkeyRevocation:\n                hashed_keys.insert(0, subject.parent)\n\n            for key in hashed_keys:\n                _s = key.hashdata\n                _data += b'\\x99' + self.int_to_bytes(len(_s), 2) + _s\n")
M('C01', 'revocation-key-list-order', PGP, _REVOC,
  "            hashed_keys = [subject]\n            if self.type == SignatureType.SubkeyRevocation:\n                hashed_keys.insert(1, subject.parent)\n\n            for key in hashed_keys:\n                _s = key.hashdata\n                _data += b'\\x99' + self.int_to_bytes(len(_s), 2) + _s\n", 'C01.1')
# ---- C01.2 (loop pair by binding, records by position/keyword, NotImplemented decided on path facts)
T('C01', 'twin-extend-genexp', PGP, "                sspairs += [ (sig, subject) for sig in _filter_sigs(subject.__sig__) ]",
  "                sspairs.extend((sig, subject) for sig in _filter_sigs(subject.__sig__))")
T('C01', 'twin-outcome-ifelse', PGP, _WRONGSIG_REC,
  "                    if verified:\n                        outcome = SecurityIssues.OK\n                    else:\n                        outcome = SecurityIssues.WrongSig\n                    sigv.add_sigsubj(sig, self, subj, outcome)")
T('C01', 'twin-record-call-keywords', PGP, _WRONGSIG_REC,
  "                    sigv.add_sigsubj(signature=sig, by=self, subject=subj, issues=SecurityIssues.WrongSig if not verified else SecurityIssues.OK)")
T('C01', 'twin-ni-reversed', PGP, "                    if verified is NotImplemented:\n                        raise NotImplementedError(sig.key_algorithm)\n\n" + _WRONGSIG_REC,
  "                    if NotImplemented is not verified:\n                        sigv.add_sigsubj(sig, self, subj, SecurityIssues.WrongSig if not verified else SecurityIssues.OK)\n                    else:\n                        raise NotImplementedError(sig.key_algorithm)")
T('C01', 'twin-loop-names', PGP, "        for sig, subj in sspairs:\n            if self.fingerprint.keyid != sig.signer and sig.signer in self.subkeys:\n                sigv &= self.subkeys[sig.signer].verify(subj, sig)\n",
  "        for pair in sspairs:\n            sig, subj = pair\n            if self.fingerprint.keyid != sig.signer and sig.signer in self.subkeys:\n                sigv &= self.subkeys[sig.signer].verify(subj, signature=sig)\n")
M('C01', 'record-outer-subject', PGP, _WRONGSIG_REC,
  "                    sigv.add_sigsubj(sig, self, subject, SecurityIssues.WrongSig if not verified else SecurityIssues.OK)", 'C01.2')
M('C01', 'ni-compared-with-none', PGP, "                    if verified is NotImplemented:", "                    if verified is None:", 'C01.2')
M('C01', 'ni-polarity', PGP, "                    if verified is NotImplemented:", "                    if verified is not NotImplemented:", 'C01.2')
M('C01', 'delegate-outer-signature', PGP, "sigv &= self.subkeys[sig.signer].verify(subj, sig)", "sigv &= self.subkeys[sig.signer].verify(subj, signature)", 'C01.2')
M('C01', 'delegate-keyword-swapped', PGP, "sigv &= self.subkeys[sig.signer].verify(subj, sig)", "sigv &= self.subkeys[sig.signer].verify(subject=sig, signature=subj)", 'C01.2')
M('C01', 'outcome-ifelse-swapped', PGP, _WRONGSIG_REC,
  "                    if verified:\n                        outcome = SecurityIssues.WrongSig\n                    else:\n                        outcome = SecurityIssues.OK\n                    sigv.add_sigsubj(sig, self, subj, outcome)", 'C01.2')
# ---- C01.3 (interpreter paths; caller values by parameter position)
_DSA_VERIFY = "        try:\n            self.__pubkey__().verify(sigbytes, subj, hash_alg)\n        except InvalidSignature:\n            return False\n        return True"
T('C01', 'twin-verify-ok-flag', FL, _DSA_VERIFY,
  "        ok = True\n        try:\n            self.__pubkey__().verify(sigbytes, subj, hash_alg)\n        except InvalidSignature:\n            ok = False\n        return ok")
T('C01', 'twin-verify-param-names', FL, "    def verify(self, subj, sigbytes, hash_alg):\n        try:\n            self.__pubkey__().verify(sigbytes, subj, ec.ECDSA(hash_alg))",
  "    def verify(self, data, sig, halg):\n        try:\n            self.__pubkey__().verify(sig, data, ec.ECDSA(halg))")
M('C01', 'ok-flag-never-cleared', FL, _DSA_VERIFY,
  "        ok = True\n        try:\n            self.__pubkey__().verify(sigbytes, subj, hash_alg)\n        except InvalidSignature:\n            pass\n        return ok", 'C01.3')
M('C01', 'ok-flag-set-before-call', FL, _DSA_VERIFY,
  "        ok = False\n        try:\n            ok = True\n            self.__pubkey__().verify(sigbytes, subj, hash_alg)\n        except InvalidSignature:\n            pass\n        return ok", 'C01.3')
M('C01', 'ecdsa-args-swapped', FL, "            self.__pubkey__().verify(sigbytes, subj, ec.ECDSA(hash_alg))", "            self.__pubkey__().verify(subj, sigbytes, ec.ECDSA(hash_alg))", 'C01.3')
M('C01', 'eddsa-fixed-prehash', FL, "        digest = hashes.Hash(hash_alg, backend=default_backend())\n        digest.update(subj)\n        subj = digest.finalize()\n        try:",
  "        digest = hashes.Hash(hashes.SHA256(), backend=default_backend())\n        digest.update(subj)\n        subj = digest.finalize()\n        try:", 'C01.3')
# ---- C01.4 / C17.4 (record model)
T('C01', 'twin-record-keywords', TY, _REC, "        self._subjects.append(self._sigsubj(issues=issues, by=by, signature=signature, subject=subject))")
T('C01', 'twin-record-temp', TY, _REC, "        entry = self._sigsubj(subject=subject, signature=signature, by=by, issues=issues)\n        self._subjects.append(entry)")
M('C01', 'record-fields-swapped', TY, _REC, "        self._subjects.append(self._sigsubj(issues, by, subject, signature))", 'C01.4')
M('C01', 'record-keywords-swapped', TY, _REC, "        self._subjects.append(self._sigsubj(issues=issues, by=by, signature=subject, subject=signature))", 'C01.4')
M('C01', 'default-advisory-only', TY, "            issues = SecurityIssues(0xFF)", "            issues = SecurityIssues.InsecureCurve", 'C01.4')
M('C17', 'default-revoked-only', TY, "            issues = SecurityIssues(0xFF)", "            issues = SecurityIssues.Revoked", 'C17.4')
M('C17', 'record-verdict-dropped', TY, _REC, "        self._subjects.append(self._sigsubj(SecurityIssues.OK if issues is None else issues, by, signature, subject))", 'C17.4',
  more=[(TY, "        if issues is None:\n            from .constants import SecurityIssues\n            issues = SecurityIssues(0xFF)\n", "        from .constants import SecurityIssues\n")])
# ---- C17.1 (truth table of the predicate)
T('C17', 'twin-pred-loop', CO, _PRED,
  "        for flag in (SecurityIssues.WrongSig, SecurityIssues.Expired, SecurityIssues.Disabled, SecurityIssues.Invalid, SecurityIssues.NoSelfSignature):\n            if flag in self:\n                return True\n        return False")
T('C17', 'twin-pred-or-chain', CO, _PRED,
  "        return (SecurityIssues.WrongSig in self or SecurityIssues.Expired in self or SecurityIssues.Disabled in self\n                or SecurityIssues.Invalid in self or SecurityIssues.NoSelfSignature in self)")
T('C17', 'twin-pred-int-mask', CO, _PRED, "        return (self.value & 0x417) > 0")
T('C17', 'twin-pred-not-disjoint', CO, _PRED,
  "        failing = SecurityIssues.WrongSig | SecurityIssues.Expired | SecurityIssues.Disabled | SecurityIssues.Invalid | SecurityIssues.NoSelfSignature\n        return not (self & failing) == SecurityIssues(0)")
M('C17', 'pred-any-lacks-invalid', CO, _PRED,
  "        return any(f in self for f in (SecurityIssues.WrongSig, SecurityIssues.Expired, SecurityIssues.Disabled, SecurityIssues.NoSelfSignature))", 'C17.1')
M('C17', 'pred-all-of', CO, _PRED,
  "        return all(f in self for f in (SecurityIssues.WrongSig, SecurityIssues.Expired, SecurityIssues.Disabled, SecurityIssues.Invalid, SecurityIssues.NoSelfSignature))", 'C17.1')
M('C17', 'pred-combined-mask-in', CO, _PRED,
  "        return (SecurityIssues.WrongSig | SecurityIssues.Expired | SecurityIssues.Disabled | SecurityIssues.Invalid | SecurityIssues.NoSelfSignature) in self", 'C17.1')
M('C17', 'pred-int-mask-lacks-noselfsig', CO, _PRED, "        return (self.value & 0x17) > 0", 'C17.1')
M('C17', 'pred-loop-else-true', CO, _PRED,
  "        for flag in (SecurityIssues.WrongSig, SecurityIssues.Expired, SecurityIssues.Disabled, SecurityIssues.Invalid, SecurityIssues.NoSelfSignature):\n            if flag not in self:\n                return False\n        return True", 'C17.1')
M('C17', 'pred-advisory-pair', CO, _PRED,
  "        if SecurityIssues.InsecureCurve in self and SecurityIssues.BrokenAsymmetricFunc in self:\n            return True\n" + _PRED, 'C17.1')
# ---- C17.2 (selectors decided per truth-table row, loop or comprehension)
T('C17', 'twin-good-loop-continue', TY, _GOOD,
  "        for sigsub in self._subjects:\n            verdict = sigsub.issues\n            if verdict and verdict.causes_signature_verify_to_fail:\n                continue\n            yield sigsub")
T('C17', 'twin-bad-index', TY, _BAD,
  "        yield from (sigsub for sigsub in self._subjects if sigsub[0] and sigsub[0].causes_signature_verify_to_fail)")
T('C17', 'twin-bool-not-any', TY, _BOOL,
  "        return not any(\n            sigsub.issues is not SecurityIssues.OK\n            and not (sigsub.issues and not sigsub.issues.causes_signature_verify_to_fail)\n            for sigsub in self._subjects\n        )")
T('C17', 'twin-and-extend', TY, "        self._subjects += other._subjects\n        return self", "        self._subjects.extend(other._subjects)\n        return self")
M('C17', 'good-loop-polarity', TY, _GOOD,
  "        for sigsub in self._subjects:\n            verdict = sigsub.issues\n            if not verdict or verdict.causes_signature_verify_to_fail:\n                yield sigsub", 'C17.2')
M('C17', 'bad-loop-continue-wrong', TY, _BAD,
  "        for sigsub in self._subjects:\n            verdict = sigsub.issues\n            if not verdict:\n                continue\n            yield sigsub", 'C17.2')
M('C17', 'bool-loop-advisory-fails', TY, _BOOL,
  "        for sigsub in self._subjects:\n            if sigsub.issues is SecurityIssues.OK:\n                continue\n            return False\n        return True", 'C17.2')
M('C17', 'bool-loop-first-decides', TY, _BOOL,
  "        for sigsub in self._subjects:\n            if sigsub.issues is SecurityIssues.OK or not sigsub.issues.causes_signature_verify_to_fail:\n                return True\n        return False", 'C17.2')
M('C17', 'bool-ignores-predicate', TY, _BOOL,
  "        for sigsub in self._subjects:\n            if sigsub.issues is None:\n                return False\n        return True", 'C17.2')
M('C17', 'bad-skips-first-record', TY, _BAD,
  "        for sigsub in self._subjects[1:]:\n            if sigsub.issues and sigsub.issues.causes_signature_verify_to_fail:\n                yield sigsub", 'C17.2')
M('C17', 'and-replaces', TY, "        self._subjects += other._subjects\n        return self", "        self._subjects = other._subjects\n        return self", 'C17.2')
M('C17', 'and-returns-other', TY, "        self._subjects += other._subjects\n        return self", "        self._subjects += other._subjects\n        return other", 'C17.2')
M('C17', 'and-extends-self', TY, "        self._subjects += other._subjects\n        return self", "        self._subjects.extend(self._subjects)\n        return self", 'C17.2')
# ---- C17.3 / C17.4 / C17.5 (PGPKey.verify rows; issue set as a flag expression over its sources)
_VERIFY_LOOP_TAIL_CONTINUE = """                issues = signature_issues | subkey_issues
                if issues and issues.causes_signature_verify_to_fail:
                    sigv.add_sigsubj(sig, self, subj, issues)
                    continue

                verified = self._key.verify(sig.hashdata(subj), sig.__sig__, getattr(hashes, sig.hash_algorithm.name)())
                if verified is NotImplemented:
                    raise NotImplementedError(sig.key_algorithm)

                sigv.add_sigsubj(sig, self, subj, SecurityIssues.WrongSig if not verified else SecurityIssues.OK)
"""
T('C17', 'twin-guard-continue', PGP, _VERIFY_LOOP_TAIL, _VERIFY_LOOP_TAIL_CONTINUE)
T('C17', 'twin-issues-order', PGP, "                issues = signature_issues | subkey_issues", "                issues = subkey_issues | signature_issues")
T('C17', 'twin-issues-names', PGP, "                issues = signature_issues | subkey_issues\n                if issues and issues.causes_signature_verify_to_fail:\n                    sigv.add_sigsubj(sig, self, subj, issues)",
  "                found = signature_issues | subkey_issues\n                if found.causes_signature_verify_to_fail:\n                    sigv.add_sigsubj(sig, self, subj, found)")
T('C17', 'twin-mask-literal', PGP, "                    signature_issues &= ~SecurityIssues.HashFunctionNotCollisionResistant",
  "                    signature_issues = signature_issues & ~SecurityIssues(1 << 6)")
T('C17', 'twin-record-once-after', PGP, _VERIFY_LOOP_TAIL,
  "                issues = signature_issues | subkey_issues\n                if issues and issues.causes_signature_verify_to_fail:\n                    outcome = issues\n                else:\n                    verified = self._key.verify(sig.hashdata(subj), sig.__sig__, getattr(hashes, sig.hash_algorithm.name)())\n                    if verified is NotImplemented:\n                        raise NotImplementedError(sig.key_algorithm)\n\n                    outcome = SecurityIssues.WrongSig if not verified else SecurityIssues.OK\n                sigv.add_sigsubj(sig, self, subj, outcome)\n")
M('C17', 'continue-skips-record', PGP, "                    sigv.add_sigsubj(sig, self, subj, issues)\n", "                    continue\n", 'C17.3')
M('C17', 'branch-on-primitives-only', PGP, "                if issues and issues.causes_signature_verify_to_fail:",
  "                if signature_issues and signature_issues.causes_signature_verify_to_fail:", 'C17')
M('C17', 'disqualified-records-primitives', PGP, "                    sigv.add_sigsubj(sig, self, subj, issues)\n", "                    sigv.add_sigsubj(sig, self, subj, signature_issues)\n", 'C17.4')
M('C17', 'disqualified-records-outer-subject', PGP, "                    sigv.add_sigsubj(sig, self, subj, issues)\n", "                    sigv.add_sigsubj(sig, self, subject, issues)\n", 'C17.4')
M('C17', 'branch-or', PGP, "                if issues and issues.causes_signature_verify_to_fail:", "                if issues or issues.causes_signature_verify_to_fail:", 'C17.4')
M('C17', 'guard-continue-dropped', PGP, _VERIFY_LOOP_TAIL, _VERIFY_LOOP_TAIL_CONTINUE.replace("                    continue\n", ""), 'C17')
M('C17', 'mask-expired-when-self-verifying', PGP, "                    signature_issues &= ~SecurityIssues.HashFunctionNotCollisionResistant",
  "                    subkey_issues &= ~SecurityIssues.Expired", 'C17.5')
M('C17', 'mask-all-hash-bits', PGP, "                    signature_issues &= ~SecurityIssues.HashFunctionNotCollisionResistant",
  "                    signature_issues &= ~(SecurityIssues.HashFunctionNotCollisionResistant | SecurityIssues.NoSelfSignature)", 'C17.5')
M('C17', 'issues-only-soundness', PGP, "                issues = signature_issues | subkey_issues", "                issues = subkey_issues | subkey_issues", 'C17.5')
M('C17', 'issues-xor', PGP, "                issues = signature_issues | subkey_issues", "                issues = signature_issues ^ subkey_issues", 'C17')
_EXPIRED = "        expires = self.expires_at\n        if expires is not None:\n            return expires <= datetime.now(timezone.utc)\n\n        return False"
# ---- second round: kinds the rewritten rules could have stopped seeing (cached state, `or` for `|`, short-circuits that skip
#      a source, subset tests, default arguments, selectors defined through one another) - each must be exit 1, never exit 2
M('C17', 'bool-any-good', TY, _BOOL, "        return next(self.good_signatures, None) is not None", 'C17.2')
M('C17', 'bool-not-generator', TY, _BOOL, "        return not self.bad_signatures", 'C17.2')
M('C17', 'bool-first-bad-only', TY, _BOOL, "        first = next(iter(self._subjects), None)\n        return first is None or not (first.issues and first.issues.causes_signature_verify_to_fail)", 'C17.2')
M('C17', 'bool-nonempty-and-all', TY, "        return all(\n            sigsub.issues is SecurityIssues.OK", "        return bool(self._subjects) and all(\n            sigsub.issues is SecurityIssues.OK", 'C17.2')
M('C17', 'good-subset-of-advisory', TY, _GOOD,
  "        from .constants import SecurityIssues\n        tolerated = SecurityIssues.HashFunctionNotCollisionResistant | SecurityIssues.AsymmetricKeyLengthIsTooShort\n        yield from (sigsub for sigsub in self._subjects if sigsub.issues in tolerated)", 'C17.2')
M('C17', 'bad-only-wrongsig', TY, _BAD,
  "        from .constants import SecurityIssues\n        yield from (sigsub for sigsub in self._subjects if SecurityIssues.WrongSig in sigsub.issues)", 'C17.2')
T('C17', 'twin-bool-no-bad', TY, _BOOL, "        return next(self.bad_signatures, None) is None")
T('C17', 'twin-bool-not-list-bad', TY, _BOOL, "        return not list(self.bad_signatures)")
T('C17', 'twin-bool-count-good', TY, _BOOL, "        return len(list(self.good_signatures)) == len(self._subjects)")
T('C17', 'twin-bool-empty-shortcut', TY, "        return all(\n            sigsub.issues is SecurityIssues.OK", "        return not self._subjects or all(\n            sigsub.issues is SecurityIssues.OK")
T('C17', 'twin-good-via-mask', TY, _GOOD,
  "        from .constants import SecurityIssues\n        failing = SecurityIssues.WrongSig | SecurityIssues.Expired | SecurityIssues.Disabled | SecurityIssues.Invalid | SecurityIssues.NoSelfSignature\n        yield from (sigsub for sigsub in self._subjects if not (sigsub.issues & failing))")
M('C17', 'and-or-instead-of-plus', TY, "        self._subjects += other._subjects\n        return self", "        self._subjects = self._subjects or other._subjects\n        return self", 'C17.2')
M('C17', 'default-arg-zero', TY, "    def add_sigsubj(self, signature, by, subject=None, issues=None):", "    def add_sigsubj(self, signature, by, subject=None, issues=0):", 'C17.4')
M('C01', 'default-arg-zero', TY, "    def add_sigsubj(self, signature, by, subject=None, issues=None):", "    def add_sigsubj(self, signature, by, subject=None, issues=0):", 'C01.4')
M('C17', 'default-or-ok', TY, "        if issues is None:\n            from .constants import SecurityIssues\n            issues = SecurityIssues(0xFF)\n",
  "        from .constants import SecurityIssues\n        issues = issues or SecurityIssues.OK\n", 'C17.4')
M('C17', 'pred-mask-joined-with-or', CO, _PRED,
  "        return bool(self & (SecurityIssues.WrongSig or SecurityIssues.Expired or SecurityIssues.Disabled or SecurityIssues.Invalid or SecurityIssues.NoSelfSignature))", 'C17.1')
M('C17', 'pred-superset-test', CO, _PRED,
  "        failing = SecurityIssues.WrongSig | SecurityIssues.Expired | SecurityIssues.Disabled | SecurityIssues.Invalid | SecurityIssues.NoSelfSignature\n        return (self & failing) == failing", 'C17.1')
M('C17', 'pred-value-le-mask', CO, _PRED,
  "        failing = SecurityIssues.WrongSig | SecurityIssues.Expired | SecurityIssues.Disabled | SecurityIssues.Invalid | SecurityIssues.NoSelfSignature\n        return 0 < self.value <= failing.value", 'C17.1')
M('C17', 'pred-shortcut-ok-members', CO, _PRED,
  "        if SecurityIssues.Revoked in self:\n            return False\n" + _PRED, 'C17.1')
M('C17', 'issues-joined-with-or', PGP, "                issues = signature_issues | subkey_issues", "                issues = signature_issues or subkey_issues", 'C17')
M('C17', 'soundness-skipped-when-self-verifying', PGP, "                subkey_issues = self.check_soundness(self_verifying)\n",
  "                subkey_issues = SecurityIssues.OK if self_verifying else self.check_soundness(self_verifying)\n", 'C17.5')
M('C17', 'soundness-cached-on-key', PGP, "                subkey_issues = self.check_soundness(self_verifying)\n",
  "                if getattr(self, '_soundness', None) is None:\n                    self._soundness = self.check_soundness(self_verifying)\n                subkey_issues = self._soundness\n", 'C17.5')
M('C17', 'branch-short-circuit-on-primitives', PGP, "                if issues and issues.causes_signature_verify_to_fail:",
  "                if signature_issues and issues.causes_signature_verify_to_fail:", 'C17.5')
M('C17', 'expired-cached', PGP, _EXPIRED,
  "        if getattr(self, '_expired', None) is None:\n            expires = self.expires_at\n            self._expired = expires is not None and expires <= datetime.now(timezone.utc)\n        return self._expired", 'C17.5')
M('C17', 'expired-skipped-when-self-verifying-default', PGP, "    def check_management(self, self_verifying=False):\n        res = self.self_verified\n        if self.is_expired:",
  "    def check_management(self, self_verifying=True):\n        res = self.self_verified\n        if self.is_expired and not self_verifying:", 'C17.5')
M('C01', 'verified-short-circuit-on-keyid', PGP, "                    verified = self._key.verify(sig.hashdata(subj), sig.__sig__, getattr(hashes, sig.hash_algorithm.name)())",
  "                    verified = sig.signer == self.fingerprint.keyid or self._key.verify(sig.hashdata(subj), sig.__sig__, getattr(hashes, sig.hash_algorithm.name)())", 'C01.2')
M('C01', 'hashdata-cached-on-signature', PGP, "                    verified = self._key.verify(sig.hashdata(subj), sig.__sig__, getattr(hashes, sig.hash_algorithm.name)())",
  "                    if getattr(sig, '_hashed', None) is None:\n                        sig._hashed = sig.hashdata(subj)\n                    verified = self._key.verify(sig._hashed, sig.__sig__, getattr(hashes, sig.hash_algorithm.name)())", 'C01.2')
M('C01', 'verdict-or-ok', PGP, _WRONGSIG_REC,
  "                    sigv.add_sigsubj(sig, self, subj, (not verified and SecurityIssues.WrongSig) or SecurityIssues.OK)".replace("(not verified and SecurityIssues.WrongSig) or SecurityIssues.OK", "(verified and SecurityIssues.WrongSig) or SecurityIssues.OK"), 'C01.2')
M('C01', 'material-handler-tuple', FL, _DSA_VERIFY.replace("        return True", "        return True"),
  _DSA_VERIFY.replace("except InvalidSignature:\n            return False", "except (InvalidSignature, TypeError, ValueError):\n            return False"), 'C01.3')
M('C01', 'material-result-cached', FL, _DSA_VERIFY,
  "        if getattr(self, '_verified_ok', False):\n            return True\n        try:\n            self.__pubkey__().verify(sigbytes, subj, hash_alg)\n        except InvalidSignature:\n            return False\n        self._verified_ok = True\n        return True", 'C01.3')
M('C01', 'material-empty-subject-shortcut', FL, _DSA_VERIFY,
  "        try:\n            subj and self.__pubkey__().verify(sigbytes, subj, hash_alg)\n        except InvalidSignature:\n            return False\n        return True", 'C01.3')
# ---- C01.5 (header octets reach the trailer through injective stores)
_PUBALG_SET = "        self._pubalg = PubKeyAlgorithm(val)\n\n        sigs = {"
T('C01', 'twin-pubalg-setter-temp', PK, _PUBALG_SET, "        alg = PubKeyAlgorithm(val)\n        self._pubalg = alg\n\n        sigs = {")
M('C01', 'pubalg-rsa-aliases-folded', PK, _PUBALG_SET,
  "        val = PubKeyAlgorithm(val)\n        if val in {PubKeyAlgorithm.RSAEncrypt, PubKeyAlgorithm.RSASign}:\n            val = PubKeyAlgorithm.RSAEncryptOrSign\n        self._pubalg = val\n\n        sigs = {", 'C01.5')
M('C01', 'pubalg-mapping-with-default', PK, _PUBALG_SET,
  "        self._pubalg = {int(a): a for a in PubKeyAlgorithm}.get(val, PubKeyAlgorithm.RSAEncryptOrSign)\n\n        sigs = {", 'C01.5')
M('C01', 'halg-unknown-folded', PK, "            self._halg = HashAlgorithm(val)\n\n        except ValueError:  # pragma: no cover\n            self._halg = val\n\n    @property\n    def signature(self):",
  "            self._halg = HashAlgorithm(val)\n\n        except ValueError:  # pragma: no cover\n            self._halg = HashAlgorithm.Invalid\n\n    @property\n    def signature(self):", 'C01.5')
M('C01', 'sigtype-high-bit-masked', PK, "        self._sigtype = SignatureType(val)\n\n    @sdproperty\n    def pubalg(self):\n        return self._pubalg\n\n    @pubalg.register(int)\n    @pubalg.register(PubKeyAlgorithm)\n    def pubalg_int(self, val):\n        self._pubalg = PubKeyAlgorithm(val)\n\n        sigs",
  "        self._sigtype = SignatureType(val & 0x7F)\n\n    @sdproperty\n    def pubalg(self):\n        return self._pubalg\n\n    @pubalg.register(int)\n    @pubalg.register(PubKeyAlgorithm)\n    def pubalg_int(self, val):\n        self._pubalg = PubKeyAlgorithm(val)\n\n        sigs", 'C01.5')
M('C01', 'key-algorithm-getter-normalises', PGP, "        return self._signature.pubalg\n", "        alg = self._signature.pubalg\n        return PubKeyAlgorithm.RSAEncryptOrSign if alg in {PubKeyAlgorithm.RSAEncrypt, PubKeyAlgorithm.RSASign} else alg\n", 'C01.5')
M('C01', 'parse-halg-before-pubalg', PK, "        self.sigtype = packet[0]\n        del packet[0]\n\n        self.pubalg = packet[0]\n        del packet[0]\n\n        self.halg = packet[0]\n        del packet[0]\n\n        self.subpackets.parse(packet)",
  "        self.sigtype = packet[0]\n        del packet[0]\n\n        self.halg = packet[0]\n        del packet[0]\n\n        self.pubalg = packet[0]\n        del packet[0]\n\n        self.subpackets.parse(packet)", 'C01.5')

# ---- third round: lossy codec on the signed-data path, caches keyed without the subject, a compatibility property driving the
#      selectors, early return in aggregation, copies of the hashed area - each must be exit 1
_NT = "    _sigsubj = collections.namedtuple('sigsubj', ['issues', 'by', 'signature', 'subject'])\n"
_NT_VERIFIED = "    class _sigsubj(collections.namedtuple('sigsubj', ['issues', 'by', 'signature', 'subject'])):\n        __slots__ = ()\n\n        @property\n        def verified(self):\n            from .constants import SecurityIssues\n            return not self.issues & SecurityIssues.WrongSig\n"
_NT_OK = "    class _sigsubj(collections.namedtuple('sigsubj', ['issues', 'by', 'signature', 'subject'])):\n        __slots__ = ()\n\n        @property\n        def failed(self):\n            return bool(self.issues and self.issues.causes_signature_verify_to_fail)\n\n        @property\n        def clean(self):\n            return not self.issues\n"
for _p in ('C01', 'C17'):
    _r = 'C01.4' if _p == 'C01' else 'C17.2'
    M(_p, 'selectors-on-verified-property', TY, _NT, _NT_VERIFIED, _r,
      more=[(TY, _GOOD, "        yield from (sigsub for sigsub in self._subjects if sigsub.verified)"), (TY, _BAD, "        yield from (sigsub for sigsub in self._subjects if not sigsub.verified)")])
    M(_p, 'bad-on-clean-property', TY, _NT, _NT_OK, _r, more=[(TY, _BAD, "        yield from (sigsub for sigsub in self._subjects if not sigsub.clean)")])
    M(_p, 'bool-last-record-decides', TY, _BOOL,
      "        verified = False\n        for sigsub in self._subjects:\n            verified = (\n                sigsub.issues is SecurityIssues.OK\n                or (sigsub.issues and not sigsub.issues.causes_signature_verify_to_fail)\n            )\n        return bool(verified)", _r)
    M(_p, 'bool-early-return-on-ok', TY, _BOOL,
      "        for sigsub in self._subjects:\n            if sigsub.issues is SecurityIssues.OK:\n                return True\n            if sigsub.issues.causes_signature_verify_to_fail:\n                return False\n        return True", _r)
    M(_p, 'bool-counts-majority', TY, _BOOL,
      "        good = sum(1 for sigsub in self._subjects if not (sigsub.issues and sigsub.issues.causes_signature_verify_to_fail))\n        return good * 2 >= len(self._subjects)", _r)
    T(_p, 'twin-selectors-on-failed-property', TY, _NT, _NT_OK,
      more=[(TY, _GOOD, "        yield from (sigsub for sigsub in self._subjects if not sigsub.failed)"), (TY, _BAD, "        yield from (sigsub for sigsub in self._subjects if sigsub.failed)")])
M('C17', 'verify-returns-inside-loop', PGP, _WRONGSIG_REC + "\n\n        return sigv\n", _WRONGSIG_REC + "\n                    return sigv\n\n        return sigv\n", 'C17.3')
M('C17', 'delegation-skipped-silently', PGP, "                sigv &= self.subkeys[sig.signer].verify(subj, sig)\n", "                if sig.signer not in self.subkeys:\n                    continue\n                sigv &= self.subkeys[sig.signer].verify(subj, sig)\n".replace("not in", "in"), 'C17.3')
_CACHE_OLD = "                    verified = self._key.verify(sig.hashdata(subj), sig.__sig__, getattr(hashes, sig.hash_algorithm.name)())\n                    if verified is NotImplemented:\n                        raise NotImplementedError(sig.key_algorithm)\n"
_CACHE_NEW = "                    cache = self.__dict__.setdefault('_verify_cache', {})\n                    verified = cache.get(bytes(sig.__sig__[0].to_mpibytes()))\n                    if verified is None:\n                        verified = self._key.verify(sig.hashdata(subj), sig.__sig__, getattr(hashes, sig.hash_algorithm.name)())\n                        if verified is NotImplemented:\n                            raise NotImplementedError(sig.key_algorithm)\n                        cache[bytes(sig.__sig__[0].to_mpibytes())] = verified\n"
M('C01', 'verdict-cache-keyed-without-subject', PGP, _CACHE_OLD, _CACHE_NEW, 'C01.2')
M('C17', 'verdict-cache-keyed-without-subject', PGP, _CACHE_OLD, _CACHE_NEW, 'C17.4')
M('C01', 'hashdata-cache-keyed-by-signature-only', PGP, "                    verified = self._key.verify(sig.hashdata(subj), sig.__sig__,",
  "                    hashed = getattr(sig, '_hashdata_cache', None) or sig.hashdata(subj)\n                    sig._hashdata_cache = hashed\n                    verified = self._key.verify(hashed, sig.__sig__,", 'C01.2')
# C01.6: the C05 analysis under the C01 rule id
M('C01', 'subpackets-copy-refiled-after-capture', FL, "        sp._hashed_sp = self._hashed_sp.copy()\n        sp._unhashed_sp = self._unhashed_sp.copy()\n        sp._hashed_raw = copy.copy(self._hashed_raw)\n",
  "        sp._hashed_raw = copy.copy(self._hashed_raw)\n\n        for (name, _), hsp in self._hashed_sp.items():\n            sp['h_' + name] = hsp\n\n        for (name, _), uhsp in self._unhashed_sp.items():\n            sp[name] = uhsp\n", 'C01.6')
M('C01', 'subpackets-copy-drops-capture', FL, "        sp._hashed_raw = copy.copy(self._hashed_raw)\n", "", 'C01.6')
M('C01', 'hashed-area-replay-only-when-small', FL, "        if self._hashed_raw is not None:\n            # signatures", "        if self._hashed_raw is not None and len(self._hashed_raw) < 4096:\n            # signatures", 'C01.6')
M('C01', 'hashed-area-capture-off-by-one', FL, "        hashed_raw = packet[:2 + hl]", "        hashed_raw = packet[:1 + hl]", 'C01.6')
M('C01', 'hashed-area-not-invalidated', FL, "            d, key = self._hashed_sp, key[2:]\n            self._hashed_raw = None\n", "            d, key = self._hashed_sp, key[2:]\n", 'C01.6')
M('C01', 'trailer-bypasses-received-octets', PGP, "        hcontext += self._signature.subpackets.__hashbytearray__()", "        hcontext += self._signature.subpackets.__bytearray__()[:2 + sum(len(sp) for sp in self._signature.subpackets._hashed_sp.values())]", 'C01')
# C01.7: the signed data of a message is a one-to-one image of the received octets
_LIT_T = "            return self._contents.decode('latin-1')\n"
_LIT_U = "            return self._contents.decode('utf-8')\n\n        return self._contents\n"
M('C01', 'literal-text-decoded-with-replace', PK, "        if self.format == 't':\n" + _LIT_T + "\n        if self.format == 'u':\n            return self._contents.decode('utf-8')\n",
  "        if self.format in ('t', 'u'):\n            return self._contents.decode('utf-8', 'replace')\n", 'C01.7')
M('C01', 'literal-utf8-errors-ignore', PK, _LIT_U, "            return self._contents.decode('utf-8', errors='ignore')\n\n        return self._contents\n", 'C01.7')
M('C01', 'literal-text-ascii-ignore', PK, _LIT_T, "            return self._contents.decode('ascii', 'ignore')\n", 'C01.7')
M('C01', 'literal-text-stripped', PK, _LIT_T, "            return self._contents.decode('latin-1').rstrip()\n", 'C01.7')
M('C01', 'literal-text-utf16', PK, _LIT_U, "            return self._contents.decode('utf-16')\n\n        return self._contents\n", 'C01.7')
M('C01', 'literal-binary-truncated', PK, _LIT_U, "            return self._contents.decode('utf-8')\n\n        return self._contents[:65536]\n", 'C01.7')
M('C01', 'message-text-normalised', PGP, "        if self.type == 'literal':\n            return self._message.contents\n", "        if self.type == 'literal':\n            return self._message.contents.strip()\n", 'C01.7')
M('C01', 'signed-data-trailing-blanks-for-literal', PGP, "            return re.subn(r'[ \\t]+(?=\\r?$)', '', self.message, flags=re.MULTILINE)[0]\n\n        return self.message\n",
  "            return re.subn(r'[ \\t]+(?=\\r?$)', '', self.message, flags=re.MULTILINE)[0]\n\n        return self.message.rstrip()\n", 'C01.7')
M('C01', 'verify-pairs-casefolded-message', PGP, "                    sspairs.append((sig, subject._signed_data))", "                    sspairs.append((sig, subject._signed_data.lower()))", 'C01.7')
M('C01', 'hashdata-text-encoded-with-replace', PGP, "                subject = subject.encode('utf-8')\n            except UnicodeEncodeError:\n                subject = subject.encode('charmap')",
  "                subject = subject.encode('utf-8', 'replace')\n            except UnicodeEncodeError:\n                subject = subject.encode('charmap')", 'C01.7')
M('C01', 'hashdata-text-fallback-ascii-ignore', PGP, "                subject = subject.encode('charmap')", "                subject = subject.encode('ascii', 'ignore')", 'C01.7')
M('C01', 'cleartext-decoded-with-replace', TY, "        return text.decode('utf-8')\n\n    @abc.abstractmethod", "        return text.decode('utf-8', 'replace')\n\n    @abc.abstractmethod", 'C01.7')
T('C01', 'twin-literal-codec-keywords', PK, _LIT_T, "            return self._contents.decode(encoding='latin-1', errors='strict')\n")
T('C01', 'twin-literal-codec-alias', PK, _LIT_T, "            return self._contents.decode('iso-8859-1')\n")
T('C01', 'twin-literal-format-local', PK, "        if self.format == 't':\n" + _LIT_T + "\n        if self.format == 'u':\n            return self._contents.decode('utf-8')\n",
  "        fmt = self.format\n        if fmt == 'u':\n            return self._contents.decode('utf-8')\n        elif fmt == 't':\n            return self._contents.decode('latin-1')\n")

# ---- fourth round: selectors through filter / itertools.filterfalse / map with a predicate method of the class
TW('C17', 'twin-C17-ref10', 'C17-ref10')
TW('C01', 'twin-C17-ref10', 'C17-ref10')
_IMP = "import collections\nimport operator\n"
_IMP_IT = "import collections\nimport itertools\nimport operator\n"
_ISBAD = "\n    @staticmethod\n    def _is_bad(sigsub):\n        return sigsub.issues and sigsub.issues.causes_signature_verify_to_fail\n\n    def __init__(self):\n        \"\"\"\n        Returned by :py:meth:`.PGPKey.verify`\n"
_INIT = "\n    def __init__(self):\n        \"\"\"\n        Returned by :py:meth:`.PGPKey.verify`\n"
_F_GOOD = "        for sigsub in itertools.filterfalse(self._is_bad, self._subjects):\n            yield sigsub"
_F_BAD = "        for sigsub in filter(self._is_bad, self._subjects):\n            yield sigsub"
for _p in ('C01', 'C17'):
    _r = 'C01.4' if _p == 'C01' else 'C17.2'
    T(_p, 'twin-selectors-filter-lambda', TY, _GOOD, "        return filter(lambda entry: not (entry.issues and entry.issues.causes_signature_verify_to_fail), self._subjects)",
      more=[(TY, _BAD, "        yield from filter(SignatureVerification._is_bad, self._subjects)"), (TY, _INIT, _ISBAD)])
    M(_p, 'filter-where-filterfalse-meant', TY, _GOOD, _F_BAD, _r, more=[(TY, _BAD, _F_BAD), (TY, _INIT, _ISBAD)])
    M(_p, 'predicate-negated-in-good-only', TY, _GOOD, "        for sigsub in itertools.filterfalse(lambda s: not self._is_bad(s), self._subjects):\n            yield sigsub", _r,
      more=[(TY, _BAD, _F_BAD), (TY, _INIT, _ISBAD), (TY, _IMP, _IMP_IT)])
    M(_p, 'predicate-ignores-verdict-predicate', TY, _GOOD, _F_GOOD, _r,
      more=[(TY, _BAD, _F_BAD), (TY, _INIT, _ISBAD.replace("sigsub.issues and sigsub.issues.causes_signature_verify_to_fail", "bool(sigsub.issues)")), (TY, _IMP, _IMP_IT)])
    M(_p, 'bool-demorgan-one-negation-lost', TY, _BOOL,
      "        return not any(\n            sigsub.issues is not SecurityIssues.OK\n            and (not sigsub.issues or not sigsub.issues.causes_signature_verify_to_fail)\n            for sigsub in self._subjects\n        )", _r)
    M(_p, 'bool-map-any-bad-inverted', TY, _BOOL, "        return any(map(self._is_bad, self._subjects))", _r, more=[(TY, _INIT, _ISBAD)])
    T(_p, 'twin-bool-map-no-bad', TY, _BOOL, "        return not any(map(self._is_bad, self._subjects))", more=[(TY, _INIT, _ISBAD)])

# ---- trailer length written as len(<four fixed octets>) + len(<hashed area>) (interp: len() of fixed-width items folds)
TW('C01', 'twin-C05-ref9', 'C05-ref9')
M('C01', 'trailer-length-of-hashed-area-only', PGP, "        hlen = len(hcontext)\n", "        hlen = len(hcontext) - 4\n", 'C01.1')
M('C01', 'trailer-length-fixed-octets-miscounted', PGP, "        hcontext.append(self.hash_algorithm)\n        hcontext += self._signature.subpackets.__hashbytearray__()\n        hlen = len(hcontext)\n",
  "        hcontext.append(self.hash_algorithm)\n        fixed = len(hcontext[:3])\n        hashed = self._signature.subpackets.__hashbytearray__()\n        hcontext += hashed\n        hlen = fixed + len(hashed)\n", 'C01.1')

# ---- fifth round: __and__ evaluated concretely on record lists of size 0..2 on both sides (fast paths, aliases)
_AND = "        self._subjects += other._subjects\n        return self"
for _p in ('C01', 'C17'):
    _r = 'C01.4' if _p == 'C01' else 'C17.2'
    TW(_p, 'twin-C01-ref13', 'C01-ref13', only=('pgpy/types.py',))
    TW(_p, 'twin-C17-ref13', 'C17-ref13', only=('pgpy/types.py',))
    T(_p, 'twin-and-fast-path-other-empty', TY, _AND, "        if other._subjects == []:\n            return self\n\n" + _AND)
    T(_p, 'twin-and-alias-in-place', TY, _AND, "        subjects = self._subjects\n        if not other._subjects:\n            return self\n\n        subjects += other._subjects\n        self._subjects = subjects\n        return self")
    T(_p, 'twin-and-append-loop', TY, _AND, "        for entry in other._subjects:\n            self._subjects.append(entry)\n        return self")
    M(_p, 'and-fast-path-self-empty', TY, _AND, "        if self._subjects == []:\n            return self\n\n" + _AND, _r)
    M(_p, 'and-fast-path-returns-other', TY, _AND, "        if not self._subjects:\n            return other\n\n" + _AND, _r)
    M(_p, 'and-concatenation-not-stored', TY, _AND, "        subjects = self._subjects + other._subjects\n        return self", _r)
    M(_p, 'and-other-first', TY, _AND, "        self._subjects = other._subjects + self._subjects\n        return self", _r)
    M(_p, 'and-drops-last-of-other', TY, _AND, "        self._subjects += other._subjects[:-1]\n        return self", _r)
    M(_p, 'and-only-first-of-other', TY, _AND, "        if other._subjects:\n            self._subjects.append(other._subjects[0])\n        return self", _r)

# ---- CR LF canonicalisation with a fast path for text without a line feed (sigdata: the CANON predicate reads the path's decisions)
_CANON = "            _data += re.subn(br'\\r?\\n', b'\\r\\n', subject)[0]\n"
T('C01', 'twin-canon-fast-path-no-lf', PGP, _CANON,
  "            if isinstance(subject, (bytes, bytearray)) and b'\\n' not in subject:\n                _data += subject\n\n            else:\n                _data += re.subn(br'\\r?\\n', b'\\r\\n', subject)[0]\n")
T('C01', 'twin-canon-fast-path-inverted-test', PGP, _CANON,
  "            if b'\\n' in subject:\n                _data += re.subn(br'\\r?\\n', b'\\r\\n', subject)[0]\n            else:\n                _data += subject\n")
M('C01', 'canon-fast-path-tests-cr', PGP, _CANON,
  "            if b'\\r' not in subject:\n                _data += subject\n\n            else:\n                _data += re.subn(br'\\r?\\n', b'\\r\\n', subject)[0]\n", 'C01.1')
M('C01', 'canon-fast-path-polarity', PGP, _CANON,
  "            if b'\\n' in subject:\n                _data += subject\n\n            else:\n                _data += re.subn(br'\\r?\\n', b'\\r\\n', subject)[0]\n", 'C01.1')
M('C01', 'canon-fast-path-short-text', PGP, _CANON,
  "            if len(subject) < 64 or b'\\n' not in subject:\n                _data += subject\n\n            else:\n                _data += re.subn(br'\\r?\\n', b'\\r\\n', subject)[0]\n", 'C01.1')

# ---- sixth round (wave 5): helper for the packet body, area helper in __setitem__, codec parameter of the text helpers,
#      skipped pairs, dropped attribute subpackets, running verdict flag, NotImplemented keyed on the claimed algorithm
TW('C01', 'twin-C01-ref14', 'C01-ref14')
TW('C01', 'twin-C05-ref14', 'C05-ref14')
TW('C01', 'twin-C11-ref15', 'C11-ref15')
_BODY_OLD = "        return pub.__bytearray__()[len(pub.header):]\n"
_BODY_NEW = "        return pub.__bodybytearray__()\n"
_HLEN = "    def update_hlen(self):\n        self.header.length = len(self.__bytearray__()) - len(self.header)\n"
T('C01', 'twin-body-helper', PGP, _BODY_OLD, _BODY_NEW, more=[(PT, _HLEN, "    def __bodybytearray__(self):\n        return self.__bytearray__()[len(self.header):]\n\n" + _HLEN)])
M('C01', 'body-helper-keeps-last-header-octet', PGP, _BODY_OLD, _BODY_NEW, 'C01.1b',
  more=[(PT, _HLEN, "    def __bodybytearray__(self):\n        return self.__bytearray__()[len(self.header) - 1:]\n\n" + _HLEN)])
M('C01', 'body-helper-whole-packet', PGP, _BODY_OLD, _BODY_NEW, 'C01.1b',
  more=[(PT, _HLEN, "    def __bodybytearray__(self):\n        return self.__bytearray__()\n\n" + _HLEN)])
_SETITEM = "        d = self._unhashed_sp\n        if key.startswith('h_'):\n            d, key = self._hashed_sp, key[2:]\n            self._hashed_raw = None\n"
T('C01', 'twin-setitem-area-identity', FL, _SETITEM, "        d = self._unhashed_sp\n        if key.startswith('h_'):\n            d, key = self._hashed_sp, key[2:]\n        if d is self._hashed_sp:\n            self._hashed_raw = None\n")
M('C01', 'setitem-invalidates-on-unhashed-area', FL, _SETITEM, "        d = self._unhashed_sp\n        if key.startswith('h_'):\n            d, key = self._hashed_sp, key[2:]\n        if d is self._unhashed_sp:\n            self._hashed_raw = None\n", 'C01.6')
M('C01', 'setitem-invalidation-identity-inverted', FL, _SETITEM, "        d = self._unhashed_sp\n        if key.startswith('h_'):\n            d, key = self._hashed_sp, key[2:]\n        if d is not self._hashed_sp:\n            self._hashed_raw = None\n", 'C01.6')
_B2T = "    def bytes_to_text(text):\n        if text is None or isinstance(text, str):\n            return text\n\n        return text.decode('utf-8')\n"
_B2T_P = "    def bytes_to_text(text, encoding='utf-8'):\n        if text is None or isinstance(text, str):\n            return text\n\n        return text.decode(encoding)\n"
_MSG = "            return self.bytes_to_text(self._message)\n"
T('C01', 'twin-text-helper-codec-parameter', TY, _B2T, _B2T_P, more=[(PGP, _MSG, "            return self.bytes_to_text(self._message, encoding='utf-8')\n")])
M('C01', 'text-helper-called-with-utf16', TY, _B2T, _B2T_P, 'C01.7', more=[(PGP, _MSG, "            return self.bytes_to_text(self._message, encoding='utf-16')\n")])
M('C01', 'text-helper-default-codec-lossy', TY, _B2T, _B2T_P.replace("encoding='utf-8'", "encoding='utf-7'"), 'C01.7')
M('C01', 'text-helper-errors-parameter-replace', TY, _B2T, "    def bytes_to_text(text, errors='replace'):\n        if text is None or isinstance(text, str):\n            return text\n\n        return text.decode('utf-8', errors)\n", 'C01.7')
_VERIFY_CALL = "                    verified = self._key.verify(sig.hashdata(subj), sig.__sig__, getattr(hashes, sig.hash_algorithm.name)())\n"
for _p, _r in (('C01', 'C01.2'), ('C17', 'C17.3')):
    M(_p, 'unknown-hash-algorithm-skipped', PGP, _VERIFY_CALL,
      "                    try:\n                        hasher = getattr(hashes, sig.hash_algorithm.name)()\n                    except AttributeError:\n                        continue\n                    verified = self._key.verify(sig.hashdata(subj), sig.__sig__, hasher)\n", _r)
    M(_p, 'foreign-signer-skipped-in-loop', PGP, "        for sig, subj in sspairs:\n", "        for sig, subj in sspairs:\n            if sig.signer is None:\n                continue\n", _r)
_UA_PARSE = "        sp = UserAttribute(packet)\n        self[sp.__class__.__name__] = sp\n"
_UA_BA = "    _spmodule = userattribute\n\n    def __bytearray__(self):\n        _bytes = bytearray()\n        for uhsp in self._unhashed_sp.values():\n            _bytes += uhsp.__bytearray__()\n"
T('C01', 'twin-ua-parse-name-local', FL, _UA_PARSE, "        attribute = UserAttribute(packet)\n        name = type(attribute).__name__\n        self[name] = attribute\n")
M('C01', 'ua-unknown-subpacket-dropped', FL, _UA_PARSE, "        sp = UserAttribute(packet)\n        if sp.__class__.__name__ == 'Opaque':\n            return\n        self[sp.__class__.__name__] = sp\n", 'C01.8')
M('C01', 'ua-subpacket-kept-only-if-image', FL, _UA_PARSE, "        sp = UserAttribute(packet)\n        if isinstance(sp, userattribute.Image):\n            self[sp.__class__.__name__] = sp\n", 'C01.8')
M('C01', 'ua-serialiser-skips-opaque', FL, _UA_BA, _UA_BA.replace("            _bytes += uhsp.__bytearray__()\n", "            if uhsp.__class__.__name__ != 'Opaque':\n                _bytes += uhsp.__bytearray__()\n"), 'C01.8')
M('C01', 'ua-serialiser-first-only', FL, _UA_BA, _UA_BA.replace("        for uhsp in self._unhashed_sp.values():\n", "        for uhsp in list(self._unhashed_sp.values())[:1]:\n"), 'C01.8')
_SLOTS = "    __slots__ = (\"_subjects\",)\n"
_INIT_S = "        self._subjects = []\n"
_ADD_APP = "        self._subjects.append(self._sigsubj(issues, by, signature, subject))\n"
def _flag(update, merge=True):
    return [(TY, _INIT_S, _INIT_S + "        self._ok = True\n"), (TY, _BOOL, "        return self._ok"),
            (TY, _ADD_APP, _ADD_APP + update)] + \
           ([(TY, _AND, "        self._ok = self._ok and other._ok\n" + _AND)] if merge else [])
_ASSIGN = "        self._ok = not (issues and issues.causes_signature_verify_to_fail)\n"
_ACCUM = "        self._ok = self._ok and not (issues and issues.causes_signature_verify_to_fail)\n"
for _p in ('C01', 'C17'):
    _r = 'C01.4' if _p == 'C01' else 'C17.2'
    T(_p, 'twin-running-flag-accumulated', TY, _SLOTS, "    __slots__ = (\"_subjects\", \"_ok\")\n", more=_flag(_ACCUM))
    M(_p, 'running-flag-assigned', TY, _SLOTS, "    __slots__ = (\"_subjects\", \"_ok\")\n", _r, more=_flag(_ASSIGN))
    M(_p, 'running-flag-not-merged', TY, _SLOTS, "    __slots__ = (\"_subjects\", \"_ok\")\n", _r, more=_flag(_ACCUM, merge=False))
    M(_p, 'running-flag-or-accumulated', TY, _SLOTS, "    __slots__ = (\"_subjects\", \"_ok\")\n", _r, more=_flag(_ACCUM.replace("self._ok and not", "self._ok or not")))
M('C17', 'ni-check-on-claimed-algorithm', PGP, "                    if verified is NotImplemented:\n                        raise NotImplementedError(sig.key_algorithm)\n",
  "                    if not sig.key_algorithm.can_sign:\n                        raise NotImplementedError(sig.key_algorithm)\n", 'C17.4')
M('C17', 'ni-compared-with-none', PGP, "                    if verified is NotImplemented:", "                    if verified is None:", 'C17.4')
M('C17', 'ni-check-dropped', PGP, "                    if verified is NotImplemented:\n                        raise NotImplementedError(sig.key_algorithm)\n", "", 'C17.4')

# ---- seventh round (wave 6): MPI reader discards bits, Timestamp for an empty subject, disqualified arm records a partial set
#      (under C01), cached verdict surviving a mutation, overlapping owner collections
_MPI_RD = "            mpi = MPIs.bytes_to_int(num[:fl])\n"
_MPI_FL = "            fl = ((MPIs.bytes_to_int(num[:2]) + 7) // 8)\n            del num[:2]\n\n"
M('C01', 'mpi-masked-to-declared-bits', PT, _MPI_FL + _MPI_RD,
  "            bits = MPIs.bytes_to_int(num[:2])\n            fl = ((bits + 7) // 8)\n            del num[:2]\n\n            mpi = MPIs.bytes_to_int(num[:fl]) & ((1 << bits) - 1)\n", 'C01.9')
M('C01', 'mpi-leading-octet-skipped', PT, _MPI_RD, "            mpi = MPIs.bytes_to_int(num[1:fl])\n", 'C01.9')
M('C01', 'mpi-length-rounded-down', PT, "            fl = ((MPIs.bytes_to_int(num[:2]) + 7) // 8)\n", "            fl = (MPIs.bytes_to_int(num[:2]) // 8)\n", 'C01.9')
T('C01', 'twin-mpi-bits-local', PT, _MPI_FL + _MPI_RD,
  "            bits = MPIs.bytes_to_int(num[:2])\n            fl = ((bits + 7) // 8)\n            del num[:2]\n\n            mpi = MPIs.bytes_to_int(num[:fl])\n")
_SIGN_NONE = "        if subject is None:\n            sig_type = SignatureType.Timestamp\n"
M('C01', 'timestamp-for-empty-subject', PGP, _SIGN_NONE, "        if not subject:\n            sig_type = SignatureType.Timestamp\n", 'C01.10')
M('C01', 'timestamp-for-short-subject', PGP, _SIGN_NONE, "        if subject is None or len(subject) == 0:\n            sig_type = SignatureType.Timestamp\n", 'C01.10')
M('C01', 'standalone-for-bytes-subject', PGP, _SIGN_NONE, "        if subject is None or isinstance(subject, bytearray):\n            sig_type = SignatureType.Timestamp\n", 'C01.10')
T('C01', 'twin-sign-type-ifelse', PGP, "        sig_type = SignatureType.BinaryDocument\n        hash_algo = prefs.pop('hash', None)\n\n" + _SIGN_NONE,
  "        hash_algo = prefs.pop('hash', None)\n\n        if subject is not None:\n            sig_type = SignatureType.BinaryDocument\n        else:\n            sig_type = SignatureType.Timestamp\n")
M('C01', 'disqualified-records-primitives', PGP, "                    sigv.add_sigsubj(sig, self, subj, issues)\n", "                    sigv.add_sigsubj(sig, self, subj, signature_issues)\n", 'C01.4')
M('C01', 'branch-inverted', PGP, "                if issues and issues.causes_signature_verify_to_fail:", "                if issues and not issues.causes_signature_verify_to_fail:", 'C01')
M('C01', 'disqualified-records-ok', PGP, "                    sigv.add_sigsubj(sig, self, subj, issues)\n", "                    sigv.add_sigsubj(sig, self, subj, SecurityIssues.OK)\n", 'C01.4')
_CACHE_SLOTS = "    __slots__ = (\"_subjects\", \"_verdict\")\n"
_CACHE_BOOL = "        if self._verdict is None:\n            self._verdict = all(\n                sigsub.issues is SecurityIssues.OK\n                or (sigsub.issues and not sigsub.issues.causes_signature_verify_to_fail)\n                for sigsub in self._subjects\n            )\n        return self._verdict"
def _cache(inval_add=True, inval_and=True):
    return [(TY, _INIT_S, _INIT_S + "        self._verdict = None\n"), (TY, _BOOL, _CACHE_BOOL),
            (TY, _ADD_APP, _ADD_APP + ("        self._verdict = None\n" if inval_add else "")),
            (TY, _AND, ("        self._verdict = None\n" if inval_and else "") + _AND)]
for _p in ('C01', 'C17'):
    _r = 'C01.4' if _p == 'C01' else 'C17.2'
    T(_p, 'twin-verdict-cache-invalidated', TY, _SLOTS, _CACHE_SLOTS, more=_cache())
    M(_p, 'verdict-cache-survives-and', TY, _SLOTS, _CACHE_SLOTS, _r, more=_cache(inval_and=False))
    M(_p, 'verdict-cache-survives-add', TY, _SLOTS, _CACHE_SLOTS, _r, more=_cache(inval_add=False))
_UIDLOOP = "                for uid in subject.userids:\n"
M('C17', 'userid-loop-walks-all-uids', PGP, _UIDLOOP, "                for uid in subject._uids:\n", 'C17.3')
M('C17', 'userattribute-loop-walks-userids', PGP, "                for ua in subject.userattributes:\n", "                for ua in subject.userids:\n", 'C17.3')
T('C17', 'twin-userid-loop-filtered-uids', PGP, _UIDLOOP, "                for uid in (u for u in subject._uids if u.is_uid):\n")

# ---- further spellings of the same functions (generalisation guards)
T('C17', 'twin-pred-len-list', CO, _PRED,
  "        hits = [f for f in (SecurityIssues.WrongSig, SecurityIssues.Expired, SecurityIssues.Disabled, SecurityIssues.Invalid, SecurityIssues.NoSelfSignature) if f & self]\n        return len(hits) > 0")
T('C17', 'twin-pred-mask-loop', CO, _PRED,
  "        mask = 0\n        for f in (SecurityIssues.WrongSig, SecurityIssues.Expired, SecurityIssues.Disabled, SecurityIssues.Invalid, SecurityIssues.NoSelfSignature):\n            mask |= f\n        return bool(self & mask)")
T('C17', 'twin-pred-value-ne', CO, _PRED,
  "        failing = SecurityIssues.WrongSig | SecurityIssues.Expired | SecurityIssues.Disabled | SecurityIssues.Invalid | SecurityIssues.NoSelfSignature\n        return (self & failing).value != 0")
T('C17', 'twin-good-returns-iter', TY, _GOOD,
  "        return iter([entry for entry in self._subjects if not (entry.issues and entry.issues.causes_signature_verify_to_fail)])")
T('C17', 'twin-default-ifexp', TY, "        if issues is None:\n            from .constants import SecurityIssues\n            issues = SecurityIssues(0xFF)\n" + _REC,
  "        from .constants import SecurityIssues\n        verdict = SecurityIssues(0xFF) if issues is None else issues\n        self._subjects.append(self._sigsubj(verdict, by, signature, subject))")
T('C17', 'twin-fail-flag-hoisted', PGP, "                if issues and issues.causes_signature_verify_to_fail:\n                    sigv.add_sigsubj(sig, self, subj, issues)",
  "                disqualified = bool(issues) and issues.causes_signature_verify_to_fail\n                if disqualified:\n                    sigv.add_sigsubj(sig, self, subj, issues)")
T('C01', 'twin-key-alias', PGP, "                    verified = self._key.verify(sig.hashdata(subj), sig.__sig__, getattr(hashes, sig.hash_algorithm.name)())",
  "                    keypkt = self._key\n                    verified = keypkt.verify(sig.hashdata(subj), sig.__sig__, getattr(hashes, sig.hash_algorithm.name)())")
T('C01', 'twin-subkey-alias', PGP, "                sigv &= self.subkeys[sig.signer].verify(subj, sig)",
  "                signing_subkey = self.subkeys[sig.signer]\n                sigv &= signing_subkey.verify(subj, sig)")
T('C17', 'twin-expired-now-first', PGP, "            return expires <= datetime.now(timezone.utc)", "            now = datetime.now(timezone.utc)\n            return now >= expires")
T('C17', 'twin-expired-guard-first', PGP, _EXPIRED,
  "        deadline = self.expires_at\n        if deadline is None:\n            return False\n\n        return not deadline > datetime.now(timezone.utc)")
M('C17', 'expired-inverted', PGP, "            return expires <= datetime.now(timezone.utc)", "            return expires >= datetime.now(timezone.utc)", 'C17.5')
M('C17', 'expired-vs-created', PGP, "            return expires <= datetime.now(timezone.utc)", "            return expires <= self.created", 'C17.5')
M('C17', 'expired-without-expiry', PGP, _EXPIRED,
  "        expires = self.expires_at\n        if expires is None:\n            return self.created <= datetime.now(timezone.utc)\n\n        return expires <= datetime.now(timezone.utc)", 'C17.5')

# =============================================================================================== C12
M('C12', 'preload-i-plus-1', FL, "            _h.update(b'\\x00' * i)", "            _h.update(b'\\x00' * (i + 1))", 'C12.1')
M('C12', 'pass-before-salt', FL, "        hashdata = ((hsalt + hpass) * hcount) + (hsalt + hpass)[:hleft]", "        hashdata = ((hpass + hsalt) * hcount) + (hpass + hsalt)[:hleft]", 'C12.1')
M('C12', 'truncate-quarter', FL, "        return b''.join(hc.digest() for hc in h)[:(keylen // 8)]", "        return b''.join(hc.digest() for hc in h)[:(keylen // 4)]", 'C12.1')
M('C12', 'ctx-floor', FL, "        ctx = int(math.ceil((keylen / hashlen)))", "        ctx = int(math.floor((keylen / hashlen))) or 1", 'C12.2')
M('C12', 'count-ignored', FL, "        if self.specifier == String2KeyType.Iterated and self.count > len(hsalt + hpass):\n            count = self.count\n", "", 'C12.1')
M('C12', 'salt-for-simple', FL, "        if self.specifier >= String2KeyType.Salted:\n            hsalt = bytes(self.salt)", "        if self.specifier >= String2KeyType.Simple:\n            hsalt = bytes(self.salt)", 'C12.1')
M('C12', 'count-bias-5', FL, "        return (16 + (self._count & 15)) << ((self._count >> 4) + 6)", "        return (16 + (self._count & 15)) << ((self._count >> 4) + 5)", 'C12.3')
M('C12', 'count-mask-7', FL, "        return (16 + (self._count & 15)) << ((self._count >> 4) + 6)", "        return (16 + (self._count & 7)) << ((self._count >> 4) + 6)", 'C12.3')
M('C12', 'hleft-off', FL, "        hleft = count - (hcount * len(hsalt + hpass))", "        hleft = count - (hcount * len(hpass))", 'C12.1')
M('C12', 'reversed-digests', FL, "        return b''.join(hc.digest() for hc in h)[:(keylen // 8)]", "        return b''.join(hc.digest() for hc in reversed(h))[:(keylen // 8)]", 'C12.1')
M('C12', 'writer-skips-salt', FL, "            if self.specifier >= String2KeyType.Salted:\n                _bytes += self.salt\n", "            if self.specifier > String2KeyType.Salted:\n                _bytes += self.salt\n", 'C12.4')
M('C12', 'reader-salt-7', FL, "                self.salt = packet[:8]\n                del packet[:8]", "                self.salt = packet[:7]\n                del packet[:7]", 'C12.4')
M('C12', 'count-setter-256', FL, "        if val < 0 or val > 255:  # pragma: no cover", "        if val < 0 or val > 256:  # pragma: no cover", 'C12.3')
M('C12', 'hash-update-order', FL, "            _h.update(b'\\x00' * i)\n            _h.update(hashdata)", "            _h.update(hashdata)\n            _h.update(b'\\x00' * i)", 'C12.1')
T('C12', 'twin-mod', FL, "        hleft = count - (hcount * len(hsalt + hpass))", "        hleft = count % len(hsalt + hpass)")
T('C12', 'twin-one-update', FL, "            _h.update(b'\\x00' * i)\n            _h.update(hashdata)", "            _h.update((b'\\x00' * i) + hashdata)")
T('C12', 'twin-count-mask-hex', FL, "        return (16 + (self._count & 15)) << ((self._count >> 4) + 6)", "        return (0x10 | (self._count & 0x0F)) << (6 + (self._count >> 4))")
# --- hardening G5: C12 by value (stream length / context count / truncation), count codec as a small function, S2K codec
_DK_COUNT = "        count = len(hsalt + hpass)\n        if self.specifier == String2KeyType.Iterated and self.count > len(hsalt + hpass):\n            count = self.count\n"
_DK_LOOP = "        h = []\n        for i in range(0, ctx):\n            _h = self.halg.hasher\n            _h.update(b'\\x00' * i)\n            _h.update(hashdata)\n            h.append(_h)\n"
_DK_Q = "        hcount = (count // len(hsalt + hpass))\n        hleft = count - (hcount * len(hsalt + hpass))\n"
_CNT_GET = "        return (16 + (self._count & 15)) << ((self._count >> 4) + 6)"
_CNT_SET = "        if val < 0 or val > 255:  # pragma: no cover\n            raise ValueError(\"count must be between 0 and 256\")\n        self._count = val\n"
T('C12', 'twin-count-temporaries', FL, _CNT_GET, "        coded = self._count\n        mantissa = 16 + (coded & 0x0F)\n        exponent = (coded >> 4) + self._EXPBIAS\n        return mantissa << exponent",
  more=[(FL, "    @sdproperty\n    def count(self):\n", "    _EXPBIAS = 6\n\n    @sdproperty\n    def count(self):\n")])
T('C12', 'twin-count-divmod', FL, _CNT_GET, "        exponent, mantissa = divmod(self._count, 16)\n        return (16 + mantissa) * 2 ** (exponent + 6)")
T('C12', 'twin-count-branchy', FL, _CNT_GET, "        c = self._count\n        if c < 16:\n            return (16 + c) << 6\n        else:\n            n = 16 | (c & 15)\n            n <<= (c >> 4) + 6\n            return n")
T('C12', 'twin-count-setter-chained', FL, _CNT_SET, "        if not 0 <= val <= 255:  # pragma: no cover\n            raise ValueError(\"count must be between 0 and 256\")\n        self._count = val\n")
T('C12', 'twin-count-setter-else', FL, _CNT_SET, "        if val in range(256):\n            self._count = val\n        else:  # pragma: no cover\n            raise ValueError(\"count must be between 0 and 256\")\n"
  .replace('val in range(256)', '0 <= val and val < 256'))
T('C12', 'twin-count-setter-range', FL, _CNT_SET, "        if val not in range(256):  # pragma: no cover\n            raise ValueError(\"count must be between 0 and 256\")\n        self._count = int(val)\n")
M('C12', 'count-setter-range-255', FL, _CNT_SET, "        if val not in range(255):  # pragma: no cover\n            raise ValueError(\"count must be between 0 and 256\")\n        self._count = val\n", 'C12.3')
M('C12', 'count-mantissa-plus', FL, _CNT_GET, "        coded = self._count\n        mantissa = 16 + (coded & 0x0F)\n        exponent = (coded >> 4) + 6\n        return mantissa << exponent + 1", 'C12.3')
M('C12', 'count-shift-3', FL, _CNT_GET, "        coded = self._count\n        mantissa = 16 + (coded & 15)\n        exponent = (coded >> 3) + 6\n        return mantissa << exponent", 'C12.3')
M('C12', 'count-setter-lower-1', FL, _CNT_SET, "        if not 1 <= val <= 255:  # pragma: no cover\n            raise ValueError(\"count must be between 0 and 256\")\n        self._count = val\n", 'C12.3')
M('C12', 'count-setter-masks', FL, _CNT_SET, "        self._count = val & 0xFF\n", 'C12.3')
T('C12', 'twin-dk-unit-temp', FL, _DK_COUNT + "\n" + _DK_Q + "\n        hashdata = ((hsalt + hpass) * hcount) + (hsalt + hpass)[:hleft]\n",
  "        material = hsalt + hpass\n        mlen = len(material)\n        count = mlen\n        if self.specifier == String2KeyType.Iterated and self.count > mlen:\n            count = self.count\n\n        hcount, hleft = divmod(count, mlen)\n\n        hashdata = (material * hcount) + material[:hleft]\n")
T('C12', 'twin-dk-len-sum', FL, _DK_Q, "        ulen = len(hsalt) + len(hpass)\n        hcount = count // ulen\n        hleft = count % ulen\n")
T('C12', 'twin-dk-max', FL, _DK_COUNT, "        if self.specifier == String2KeyType.Iterated:\n            count = max(self.count, len(hsalt + hpass))\n        else:\n            count = len(hsalt + hpass)\n")
T('C12', 'twin-dk-le-swapped', FL, _DK_COUNT, "        if self.specifier != String2KeyType.Iterated or self.count <= len(hsalt + hpass):\n            count = len(hsalt + hpass)\n        else:\n            count = self.count\n")
T('C12', 'twin-dk-simple-one-copy', FL, "        hashdata = ((hsalt + hpass) * hcount) + (hsalt + hpass)[:hleft]\n",
  "        if self.specifier == String2KeyType.Iterated:\n            hashdata = ((hsalt + hpass) * hcount) + (hsalt + hpass)[:hleft]\n        else:\n            hashdata = hsalt + hpass\n")
T('C12', 'twin-dk-comprehension-helper', FL, _DK_LOOP, "        h = [self._preloaded_context(i, hashdata) for i in range(ctx)]\n",
  more=[(FL, "    def derive_key(self, passphrase):\n", "    def _preloaded_context(self, nzeros, data):\n        hctx = self.halg.hasher\n        hctx.update(b'\\x00' * nzeros)\n        hctx.update(data)\n        return hctx\n\n    def derive_key(self, passphrase):\n")])
T('C12', 'twin-dk-digest-in-loop', FL, _DK_LOOP, "        h = b''\n        for i in range(ctx):\n            _h = self.halg.hasher\n            _h.update(b'\\x00' * i + hashdata)\n            h += _h.digest()\n",
  more=[(FL, "        return b''.join(hc.digest() for hc in h)[:(keylen // 8)]", "        return h[:keylen >> 3]")])
T('C12', 'twin-dk-ceil-intdiv', FL, "        ctx = int(math.ceil((keylen / hashlen)))", "        ctx = (keylen + hashlen - 1) // hashlen")
T('C12', 'twin-dk-ceil-neg', FL, "        ctx = int(math.ceil((keylen / hashlen)))", "        ctx = -(-keylen // hashlen)")
T('C12', 'twin-dk-encode-default', FL, "            hpass = passphrase.encode('utf-8')", "            hpass = passphrase.encode()")
T('C12', 'twin-dk-isinstance-str', FL, "        if isinstance(passphrase, bytes):\n            hpass = passphrase\n        else:\n            hpass = passphrase.encode('utf-8')",
  "        hpass = passphrase\n        if not isinstance(passphrase, bytes):\n            hpass = passphrase.encode('utf-8')")
T('C12', 'twin-dk-preload-bytes-n', FL, "            _h.update(b'\\x00' * i)\n", "            _h.update(bytes(i))\n")
T('C12', 'twin-dk-salt-membership', FL, "        hsalt = b''\n", "", more=[(FL, "        if self.specifier >= String2KeyType.Salted:\n            hsalt = bytes(self.salt)\n",
  "        hsalt = bytes(self.salt) if self.specifier in (String2KeyType.Salted, String2KeyType.Iterated) else b''\n")])
T('C12', 'twin-dk-salt-not-simple', FL, "        if self.specifier >= String2KeyType.Salted:\n            hsalt = bytes(self.salt)\n", "        if self.specifier != String2KeyType.Simple:\n            hsalt = bytearray(self.salt)\n")
T('C12', 'twin-dk-pass-tuple-isinstance', FL, "        if isinstance(passphrase, bytes):\n            hpass = passphrase\n        else:\n            hpass = passphrase.encode('utf-8')",
  "        hpass = passphrase.encode('utf-8') if not isinstance(passphrase, (bytes, bytearray)) else passphrase")
T('C12', 'twin-dk-listcomp-join', FL, "        return b''.join(hc.digest() for hc in h)[:(keylen // 8)]", "        digests = [hc.digest() for hc in h]\n        key = b''.join(digests)\n        return key[:keylen // 8]")
T('C12', 'twin-dk-slice-of-longer-repeat', FL, "        hashdata = ((hsalt + hpass) * hcount) + (hsalt + hpass)[:hleft]\n", "        hashdata = ((hsalt + hpass) * (hcount + 1))[:count]\n")
M('C12', 'dk-slice-of-short-repeat', FL, "        hashdata = ((hsalt + hpass) * hcount) + (hsalt + hpass)[:hleft]\n", "        hashdata = ((hsalt + hpass) * hcount)[:count]\n", 'C12.1')
M('C12', 'dk-slice-count-plus-len', FL, "        hashdata = ((hsalt + hpass) * hcount) + (hsalt + hpass)[:hleft]\n", "        hashdata = ((hsalt + hpass) * (hcount + 1))[:hcount * len(hsalt + hpass) + len(hsalt + hpass)]\n", 'C12.1')
M('C12', 'dk-max-for-all', FL, _DK_COUNT, "        count = max(self.count, len(hsalt + hpass))\n", 'C12.1')
M('C12', 'dk-count-lt', FL, _DK_COUNT, "        count = len(hsalt + hpass)\n        if self.specifier == String2KeyType.Iterated and self.count < len(hsalt + hpass):\n            count = self.count\n", 'C12.1')
M('C12', 'dk-len-chars', FL, _DK_Q, "        ulen = len(hsalt) + len(passphrase)\n        hcount = count // ulen\n        hleft = count % ulen\n", 'C12.1')
M('C12', 'dk-hleft-plus1', FL, _DK_Q, "        hcount, hleft = divmod(count, len(hsalt + hpass))\n        hleft += 1\n", 'C12.1')
M('C12', 'dk-round-up-copies', FL, _DK_Q, "        hcount = -(-count // len(hsalt + hpass))\n        hleft = 0\n", 'C12.1')
M('C12', 'dk-ctx-plus1', FL, "        ctx = int(math.ceil((keylen / hashlen)))", "        ctx = keylen // hashlen + 1", 'C12.2')
M('C12', 'dk-ctx-bytes-vs-bits', FL, "        hashlen = self.halg.digest_size * 8\n", "        hashlen = self.halg.digest_size\n", 'C12.2')
M('C12', 'dk-trunc-bits', FL, "        return b''.join(hc.digest() for hc in h)[:(keylen // 8)]", "        return b''.join(hc.digest() for hc in h)[:keylen]", 'C12.1')
M('C12', 'dk-helper-appends-zeros', FL, _DK_LOOP, "        h = [self._preloaded_context(i, hashdata) for i in range(ctx)]\n", 'C12.1',
  more=[(FL, "    def derive_key(self, passphrase):\n", "    def _preloaded_context(self, nzeros, data):\n        hctx = self.halg.hasher\n        hctx.update(data)\n        hctx.update(b'\\x00' * nzeros)\n        return hctx\n\n    def derive_key(self, passphrase):\n")])
M('C12', 'dk-encode-latin1', FL, "            hpass = passphrase.encode('utf-8')", "            hpass = passphrase.encode('latin-1')", 'C12.1')
_S2K_PARSE_HEAD = "        if bool(self):\n            self.encalg = packet[0]\n            del packet[0]\n\n            self.specifier = packet[0]\n            del packet[0]\n"
T('C12', 'twin-writer-guard-clause', FL, "        _bytes.append(self.usage)\n        if bool(self):\n            _bytes.append(self.encalg)\n            _bytes.append(self.specifier)\n",
  "        _bytes.append(self.usage)\n        if self.usage in (254, 255):\n            _bytes.append(self.encalg)\n            _bytes.append(self.specifier)\n")
T('C12', 'twin-writer-halg-backing', FL, "            if self.specifier >= String2KeyType.Simple:\n                _bytes.append(self.halg)\n", "            _bytes.append(self._halg)\n")
T('C12', 'twin-reader-iv-shift', FL, "                self.iv = packet[:(self.encalg.block_size // 8)]\n                del packet[:(self.encalg.block_size // 8)]",
  "                ivlen = self.encalg.block_size >> 3\n                self.iv = packet[:ivlen]\n                del packet[:ivlen]")
T('C12', 'twin-copy-renamed-local', FL, "        s2k = String2Key()\n        s2k.usage = self.usage\n        s2k.encalg = self.encalg\n        s2k.specifier = self.specifier\n        s2k.gnuext = self.gnuext\n        s2k.iv = self.iv\n        s2k.halg = self.halg\n        s2k.salt = copy.copy(self.salt)\n        s2k.count = self._count\n        s2k.scserial = self.scserial\n        return s2k",
  "        dup = String2Key()\n        dup.usage = self.usage\n        dup.encalg = self.encalg\n        dup.specifier = self.specifier\n        dup.gnuext = self.gnuext\n        dup.iv = self.iv\n        dup.halg = self.halg\n        dup.salt = copy.copy(self.salt)\n        coded = self._count\n        dup.count = coded\n        dup.scserial = self.scserial\n        return dup")
_S2K_WR = "        _bytes = bytearray()\n        _bytes.append(self.usage)\n        if bool(self):\n            _bytes.append(self.encalg)\n            _bytes.append(self.specifier)\n            if self.specifier == String2KeyType.GNUExtension:\n                return self._experimental_bytearray(_bytes)\n            if self.specifier >= String2KeyType.Simple:\n                _bytes.append(self.halg)\n            if self.specifier >= String2KeyType.Salted:\n                _bytes += self.salt\n            if self.specifier == String2KeyType.Iterated:\n                _bytes.append(self._count)\n            if self.iv is not None:\n                _bytes += self.iv\n        return _bytes\n"
T('C12', 'twin-writer-restructured', FL, _S2K_WR, "        out = bytearray([self.usage])\n        if not self:\n            return out\n        out += bytearray([self.encalg, self.specifier])\n        if self.specifier == String2KeyType.GNUExtension:\n            return self._experimental_bytearray(out)\n        out.append(self.halg)\n        if self.specifier in (String2KeyType.Salted, String2KeyType.Iterated):\n            out.extend(self.salt)\n        if self.specifier == String2KeyType.Iterated:\n            out += self.int_to_bytes(self._count, 1)\n        if self.iv is None:\n            return out\n        return out + self.iv\n")
M('C12', 'writer-salt-before-halg', FL, "            if self.specifier >= String2KeyType.Simple:\n                _bytes.append(self.halg)\n            if self.specifier >= String2KeyType.Salted:\n                _bytes += self.salt\n",
  "            if self.specifier >= String2KeyType.Salted:\n                _bytes += self.salt\n            if self.specifier >= String2KeyType.Simple:\n                _bytes.append(self.halg)\n", 'C12.4')
_S2K_RD = "        if bool(self):\n            self.encalg = packet[0]\n            del packet[0]\n\n            self.specifier = packet[0]\n            del packet[0]\n\n            if self.specifier == String2KeyType.GNUExtension:\n                return self._experimental_parse(packet, iv)\n\n            if self.specifier >= String2KeyType.Simple:\n                # this will always be true\n                self.halg = packet[0]\n                del packet[0]\n\n            if self.specifier >= String2KeyType.Salted:\n                self.salt = packet[:8]\n                del packet[:8]\n\n            if self.specifier == String2KeyType.Iterated:\n                self.count = packet[0]\n                del packet[0]\n\n            if iv:\n                self.iv = packet[:(self.encalg.block_size // 8)]\n                del packet[:(self.encalg.block_size // 8)]\n"
T('C12', 'twin-reader-guard-clause', FL, _S2K_RD, "        if not bool(self):\n            return\n\n" + "".join((l[4:] if l.startswith('    ') else l) + "\n" for l in _S2K_RD.split("\n")[1:-1]))
T('C12', 'twin-dk-ifelse-and-condexpr', FL, _DK_COUNT, "        if self.specifier == String2KeyType.Iterated and self.count > len(hsalt + hpass):\n            count = self.count\n        else:\n            count = len(hsalt + hpass)\n",
  more=[(FL, "        if isinstance(passphrase, bytes):\n            hpass = passphrase\n        else:\n            hpass = passphrase.encode('utf-8')", "        hpass = passphrase if isinstance(passphrase, bytes) else passphrase.encode('utf-8')")])
M('C12', 'writer-decoded-count', FL, "                _bytes.append(self._count)", "                _bytes.append(self.count)", 'C12.4')
M('C12', 'writer-halg-two-octets', FL, "                _bytes.append(self.halg)\n", "                _bytes += self.int_to_bytes(self.halg, 2)\n", 'C12.4')
M('C12', 'reader-iv-bits', FL, "                self.iv = packet[:(self.encalg.block_size // 8)]\n                del packet[:(self.encalg.block_size // 8)]",
  "                self.iv = packet[:(self.encalg.block_size // 4)]\n                del packet[:(self.encalg.block_size // 4)]", 'C12.4')
M('C12', 'copy-decoded-count', FL, "        s2k.count = self._count\n", "        s2k.count = self.count\n", 'C12.4')
M('C12', 'copy-drops-count', FL, "        s2k.count = self._count\n", "", 'C12.4')
M('C12', 'reader-count-after-iv', FL, "            if self.specifier == String2KeyType.Iterated:\n                self.count = packet[0]\n                del packet[0]\n\n            if iv:\n                self.iv = packet[:(self.encalg.block_size // 8)]\n                del packet[:(self.encalg.block_size // 8)]",
  "            if iv:\n                self.iv = packet[:(self.encalg.block_size // 8)]\n                del packet[:(self.encalg.block_size // 8)]\n\n            if self.specifier == String2KeyType.Iterated:\n                self.count = packet[0]\n                del packet[0]", 'C12.4')
# --- follow-up (held-out wave 3): derived keys / streams cached across a change of salt, lossy passphrase encodings
_DK_RET = "        return b''.join(hc.digest() for hc in h)[:(keylen // 8)]"
M('C12', 'dk-memo-ignores-salt', FL, "        ctx = int(math.ceil((keylen / hashlen)))\n", "        ctx = int(math.ceil((keylen / hashlen)))\n        memo = (passphrase, self.halg, self.encalg, self.specifier, self._count)\n        if memo in _S2K_KEYS:\n            return _S2K_KEYS[memo]\n", 'C12.1',
  more=[(FL, _DK_RET, "        _S2K_KEYS[memo] = b''.join(hc.digest() for hc in h)[:(keylen // 8)]\n        return _S2K_KEYS[memo]"), (FL, "class String2Key(Field):\n", "_S2K_KEYS = {}\n\n\nclass String2Key(Field):\n")])
M('C12', 'dk-lru-cache', FL, "    def derive_key(self, passphrase):\n        ##TODO", "    @functools.lru_cache(maxsize=16)\n    def derive_key(self, passphrase):\n        ##TODO", 'C12.1',
  more=[(FL, "import hashlib\n", "import functools\nimport hashlib\n")])
M('C12', 'dk-stream-cached-on-object', FL, "            _h.update(hashdata)\n", "            _h.update(self._stream)\n", 'C12.1',
  more=[(FL, "        h = []\n        for i in range(0, ctx):\n", "        if getattr(self, '_stream', None) is None:\n            self._stream = hashdata\n\n        h = []\n        for i in range(0, ctx):\n")])
M('C12', 'dk-salt-snapshot', FL, "            hsalt = bytes(self.salt)\n", "            if getattr(self, '_hsalt', None) is None:\n                self._hsalt = bytes(self.salt)\n            hsalt = self._hsalt\n", 'C12.1')
M('C12', 'dk-encode-errors-ignore', FL, "            hpass = passphrase.encode('utf-8')", "            hpass = passphrase.encode('utf-8', 'ignore')", 'C12.1')
M('C12', 'dk-pass-stripped', FL, "            hpass = passphrase.encode('utf-8')", "            hpass = passphrase.strip().encode('utf-8')", 'C12.1')
M('C12', 'dk-contexts-forked-after-data', FL, "        h = []\n        for i in range(0, ctx):\n            _h = self.halg.hasher\n            _h.update(b'\\x00' * i)\n            _h.update(hashdata)\n            h.append(_h)\n",
  "        base = self.halg.hasher\n        base.update(hashdata)\n        h = []\n        for i in range(0, ctx):\n            _h = base.copy()\n            _h.update(b'\\x00' * i)\n            h.append(_h)\n", 'C12.1')
M('C12', 'count-setter-stores-decoded', FL, "            raise ValueError(\"count must be between 0 and 256\")\n        self._count = val\n", "            raise ValueError(\"count must be between 0 and 256\")\n        self._count = (16 + (val & 15)) << ((val >> 4) + 6)\n", 'C12.3')
# --- wave 5: class-level lookup table for the count, new derive_key parameter bound per call site
_CNT_DEF = "    @sdproperty\n    def count(self):\n        return (16 + (self._count & 15)) << ((self._count >> 4) + 6)"
T('C12', 'twin-count-table', FL, _CNT_DEF, "    _octet_counts = tuple((16 + (c & 15)) << ((c >> 4) + 6) for c in range(256))\n\n    @sdproperty\n    def count(self):\n        return self._octet_counts[self._count]")
T('C12', 'twin-count-table-list', FL, _CNT_DEF, "    _EXPBIAS = 6\n    _COUNTS = [(16 + m) << (e + _EXPBIAS) for e in range(16) for m in range(16)][:256] if False else [(16 + (c % 16)) << ((c // 16) + 6) for c in range(256)]\n\n    @sdproperty\n    def count(self):\n        return String2Key._COUNTS[self._count]"
  .replace("[(16 + m) << (e + _EXPBIAS) for e in range(16) for m in range(16)][:256] if False else ", ""))
M('C12', 'count-table-255-entries', FL, _CNT_DEF, "    _octet_counts = tuple((16 + (c & 15)) << ((c >> 4) + 6) for c in range(1, 256))\n\n    @sdproperty\n    def count(self):\n        return self._octet_counts[self._count - 1]", 'C12.3')
M('C12', 'count-table-bias-5', FL, _CNT_DEF, "    _octet_counts = tuple((16 + (c & 15)) << ((c >> 4) + 5) for c in range(256))\n\n    @sdproperty\n    def count(self):\n        return self._octet_counts[self._count]", 'C12.3')
M('C12', 'count-table-clamped', FL, _CNT_DEF, "    _octet_counts = tuple(min((16 + (c & 15)) << ((c >> 4) + 6), 1 << 25) for c in range(256))\n\n    @sdproperty\n    def count(self):\n        return self._octet_counts[self._count]", 'C12.3')
_DK_SIG = "    def derive_key(self, passphrase):\n        ##TODO: raise an exception if self.usage is not 254 or 255\n        keylen = self.encalg.key_size\n"
_DK_SIG_KW = "    def derive_key(self, passphrase, *, keylen=None):\n        ##TODO: raise an exception if self.usage is not 254 or 255\n        if keylen is None:\n            keylen = self.encalg.key_size\n"
_DK_CALL = "        sessionkey = self.s2k.derive_key(passphrase)\n        del passphrase\n\n        pt = bytearray()"
T('C12', 'twin-dk-keylen-param', FL, _DK_SIG, _DK_SIG_KW, more=[(FL, _DK_CALL, _DK_CALL.replace("derive_key(passphrase)", "derive_key(passphrase, keylen=self.s2k.encalg.key_size)"))])
T('C12', 'twin-dk-keylen-param-positional', FL, _DK_SIG, _DK_SIG_KW.replace("passphrase, *, keylen=None", "passphrase, keylen=None"), more=[(FL, _DK_CALL, _DK_CALL.replace("derive_key(passphrase)", "derive_key(passphrase, self.s2k.encalg.key_size)"))])
M('C12', 'dk-keylen-param-caller-128', FL, _DK_SIG, _DK_SIG_KW, 'C12.1', more=[(FL, _DK_CALL, _DK_CALL.replace("derive_key(passphrase)", "derive_key(passphrase, keylen=128)"))])
M('C12', 'dk-keylen-param-caller-block-size', FL, _DK_SIG, _DK_SIG_KW, 'C12.1', more=[(FL, _DK_CALL, _DK_CALL.replace("derive_key(passphrase)", "derive_key(passphrase, keylen=self.s2k.encalg.block_size)"))])
M('C12', 'dk-keylen-param-default-256', FL, _DK_SIG, "    def derive_key(self, passphrase, *, keylen=256):\n        ##TODO: raise an exception if self.usage is not 254 or 255\n", 'C12.1')
M('C12', 'dk-keylen-param-bytes', FL, _DK_SIG, _DK_SIG_KW, 'C12.1', more=[(FL, _DK_CALL, _DK_CALL.replace("derive_key(passphrase)", "derive_key(passphrase, keylen=self.s2k.encalg.key_size // 8)"))])
# --- wave 6: single-context fast path (guarded early return), digest_size tables
_DK_H = "        h = []\n        for i in range(0, ctx):\n"
_FAST = "        if %s:\n            only = self.halg.hasher\n            only.update(hashdata)\n            return only.digest()[:keylen // 8]\n\n"
T('C12', 'twin-dk-fast-path-ctx1', FL, _DK_H, _FAST % "ctx == 1" + _DK_H)
T('C12', 'twin-dk-fast-path-sizes', FL, _DK_H, _FAST % "keylen <= hashlen" + _DK_H)
M('C12', 'dk-fast-path-ctx-le-2', FL, _DK_H, _FAST % "ctx <= 2" + _DK_H, 'C12.1')
M('C12', 'dk-fast-path-unguarded-keylen', FL, _DK_H, _FAST % "keylen <= 256" + _DK_H, 'C12.1')
M('C12', 'dk-fast-path-preloaded', FL, _DK_H, "        if ctx == 1:\n            only = self.halg.hasher\n            only.update(b'\\x00')\n            only.update(hashdata)\n            return only.digest()[:keylen // 8]\n\n" + _DK_H, 'C12.1')
_DS = "    def digest_size(self):\n        return self.hasher.digest_size\n"
_DS_TBL = "    def digest_size(self):\n        ds = {HashAlgorithm.MD5: 16, HashAlgorithm.SHA1: 20, HashAlgorithm.RIPEMD160: 20, HashAlgorithm.SHA224: %s,\n              HashAlgorithm.SHA256: 32, HashAlgorithm.SHA384: %s, HashAlgorithm.SHA512: 64}\n        if self in ds:\n            return ds[self]\n        return self.hasher.digest_size\n"
T('C12', 'twin-digest-size-table', CO, _DS, _DS_TBL % (28, 48))
M('C12', 'digest-size-sha224-32', CO, _DS, _DS_TBL % (32, 48), 'C12.2')
M('C12', 'digest-size-sha384-bits', CO, _DS, _DS_TBL % (28, 384), 'C12.2')
M('C12', 'digest-size-get-default', CO, _DS, "    def digest_size(self):\n        return {HashAlgorithm.MD5: 16, HashAlgorithm.SHA1: 20, HashAlgorithm.SHA256: 32, HashAlgorithm.SHA512: 64}.get(self, 32)\n", 'C12.2')
M('C12', 'count-getter-or-default', FL, "        return (16 + (self._count & 15)) << ((self._count >> 4) + 6)", "        c = self._count or self.halg.tuned_count\n        return (16 + (c & 15)) << ((c >> 4) + 6)", 'C12.3')
M('C12', 'count-getter-255-special', FL, "        return (16 + (self._count & 15)) << ((self._count >> 4) + 6)", "        if self._count == 255:\n            return self.encalg.block_size * 1024\n        return (16 + (self._count & 15)) << ((self._count >> 4) + 6)", 'C12.3')
M('C12', 'count-getter-255-capped', FL, "        return (16 + (self._count & 15)) << ((self._count >> 4) + 6)", "        if self._count == 255:\n            return 0x2000000\n        return (16 + (self._count & 15)) << ((self._count >> 4) + 6)", 'C12.3')
M('C12', 'count-setter-zero-default', FL, "            raise ValueError(\"count must be between 0 and 256\")\n        self._count = val\n", "            raise ValueError(\"count must be between 0 and 256\")\n        self._count = val or self.halg.tuned_count\n", 'C12.3')
T('C12', 'twin-count-getter-or-zero', FL, "        return (16 + (self._count & 15)) << ((self._count >> 4) + 6)", "        c = self._count or 0\n        return (16 + (c & 15)) << ((c >> 4) + 6)")
M('C12', 'count-getter-clamped', FL, "        return (16 + (self._count & 15)) << ((self._count >> 4) + 6)", "        return min((16 + (self._count & 15)) << ((self._count >> 4) + 6), 0x2000000)", 'C12.3')
M('C12', 'writer-iv-only-for-iterated', FL, "            if self.iv is not None:\n                _bytes += self.iv\n", "            if self.iv is not None and self.specifier == String2KeyType.Iterated:\n                _bytes += self.iv\n", 'C12.4')
M('C12', 'reader-salt-for-simple', FL, "            if self.specifier >= String2KeyType.Salted:\n                self.salt = packet[:8]\n                del packet[:8]", "            if self.specifier >= String2KeyType.Simple:\n                self.salt = packet[:8]\n                del packet[:8]", 'C12.4')

# =============================================================================================== C18
M('C18', 'fp-without-pkalg', PK, "        fp.update(self.int_to_bytes(self.pkalg))\n", "", 'C18.1')
M('C18', 'fp-0x98', PK, "        fp.update(b'\\x99' + bcde_len[:1] + bcde_len[-1:])", "        fp.update(b'\\x98' + bcde_len[:1] + bcde_len[-1:])", 'C18.1')
M('C18', 'fp-len-5', PK, "        bcde_len = self.int_to_bytes(6 + plen, 2)", "        bcde_len = self.int_to_bytes(5 + plen, 2)", 'C18.1')
M('C18', 'publen-len-self', FL, "    def publen(self):\n        return super(PrivKey, self).__len__()", "    def publen(self):\n        return len(self)", 'C18.3')
M('C18', 'ecdh-publen-dropped', FL, "    def publen(self):\n        return ECDHPub.__len__(self)\n\n", "", 'C18.3')
M('C18', 'keyid-8', TY, "        return self[-16:]", "        return self[-8:]", 'C18.4')
M('C18', 'time-timestamp-one-site', PK, "        fp.update(self.int_to_bytes(calendar.timegm(self.created.utctimetuple()), 4))", "        fp.update(self.int_to_bytes(calendar.timegm(self.created.timetuple()), 4))", 'C18')
M('C18', 'fp-md5', PK, "        fp = hashlib.new('sha1')", "        fp = hashlib.new('md5')", 'C18.1')
M('C18', 'fp-material-unsliced-private', PK, "        fp.update(self.keymaterial.__bytearray__()[:plen])", "        fp.update(self.keymaterial.__bytearray__())", 'C18.1')
M('C18', 'export-alg-before-time', PK, "        _bytes += self.int_to_bytes(calendar.timegm(self.created.utctimetuple()), 4)\n        _bytes += self.int_to_bytes(self.pkalg)\n        _bytes += self.keymaterial.__bytearray__()",
  "        _bytes += self.int_to_bytes(self.pkalg)\n        _bytes += self.int_to_bytes(calendar.timegm(self.created.utctimetuple()), 4)\n        _bytes += self.keymaterial.__bytearray__()", 'C18.2')
M('C18', 'fp-lower', PK, "        return Fingerprint(fp.hexdigest().upper())", "        return Fingerprint(fp.hexdigest()[:-1].upper() + '0')", 'C18.1')
M('C18', 'time-3-octets', PK, "        fp.update(self.int_to_bytes(calendar.timegm(self.created.utctimetuple()), 4))", "        fp.update(self.int_to_bytes(calendar.timegm(self.created.utctimetuple()), 3))", 'C18.1')
T('C18', 'twin-single-update', PK, "        fp.update(b'\\x04')\n", "        fp.update(bytes([4]))\n" if False else "        fp.update(b'\\x04' + b'')\n")
T('C18', 'twin-bcde-direct', PK, "        fp.update(b'\\x99' + bcde_len[:1] + bcde_len[-1:])", "        fp.update(b'\\x99')\n        fp.update(bcde_len[:1] + bcde_len[-1:])")
T('C18', 'twin-plen-inline', PK, "        fp.update(self.keymaterial.__bytearray__()[:plen])", "        material = self.keymaterial.__bytearray__()\n        fp.update(material[:plen])")

# =============================================================================================== C13
M('C13', 'constant-salt', PK, "        self.s2k.salt = bytearray(os.urandom(8))\n        esk = self.s2k.derive_key(passphrase)", "        self.s2k.salt = bytearray(b'\\x00' * 8)\n        esk = self.s2k.derive_key(passphrase)", 'C13.2')
M('C13', 'salt-from-passphrase', PK, "        self.s2k.salt = bytearray(os.urandom(8))\n        esk = self.s2k.derive_key(passphrase)", "        self.s2k.salt = bytearray(hashlib.new('sha1', passphrase.encode()).digest()[:8])\n        esk = self.s2k.derive_key(passphrase)", 'C13.2')
M('C13', 'salt-kept-if-present', PK, "        self.s2k.salt = bytearray(os.urandom(8))\n        esk = self.s2k.derive_key(passphrase)", "        if not self.s2k.salt:\n            self.s2k.salt = bytearray(os.urandom(8))\n        esk = self.s2k.derive_key(passphrase)", 'C13.2')
M('C13', 'gen-key-zero', CO, "    def gen_key(self):\n        return os.urandom(self.key_size // 8)", "    def gen_key(self):\n        return bytes(self.key_size // 8)", 'C13.1')
M('C13', 'gen-key-blocksize', CO, "    def gen_key(self):\n        return os.urandom(self.key_size // 8)", "    def gen_key(self):\n        return os.urandom(self.block_size // 8)", 'C13.1')
M('C13', 'gen-iv-default-arg', CO, "    def gen_iv(self):\n        return os.urandom(self.block_size // 8)", "    def gen_iv(self, _iv=os.urandom(16)):\n        return _iv[:self.block_size // 8]", 'C13.1')
M('C13', 'module-cached-session-key', PGP, "        if sessionkey is None:\n            sessionkey = cipher_algo.gen_key()\n        skesk.encrypt_sk(passphrase, sessionkey)",
  "        if sessionkey is None:\n            sessionkey = _SESSION_CACHE.setdefault(cipher_algo, cipher_algo.gen_key())\n        skesk.encrypt_sk(passphrase, sessionkey)", 'C13.2',
  more=[(PGP, "__all__ = ['PGPSignature',", "_SESSION_CACHE = {}\n\n__all__ = ['PGPSignature',")])
M('C13', 'session-key-from-other-cipher', PGP, "        if sessionkey is None:\n            sessionkey = cipher_algo.gen_key()\n\n        # set up a new PKESessionKeyV3",
  "        if sessionkey is None:\n            sessionkey = pref_cipher.gen_key()\n\n        # set up a new PKESessionKeyV3", 'C13.2')
M('C13', 'ephemeral-on-class', FL, "            v = x25519.X25519PrivateKey.generate()\n            x = v.public_key().public_bytes(encoding=serialization.Encoding.Raw, format=serialization.PublicFormat.Raw)\n            ct.p = ECPoint.from_values(km.oid.key_size, ECPointFormat.Native, x)\n            s = v.exchange(km.__pubkey__())",
  "            if getattr(cls, '_eph', None) is None:\n                cls._eph = x25519.X25519PrivateKey.generate()\n            v = cls._eph\n            x = v.public_key().public_bytes(encoding=serialization.Encoding.Raw, format=serialization.PublicFormat.Raw)\n            ct.p = ECPoint.from_values(km.oid.key_size, ECPointFormat.Native, x)\n            s = v.exchange(km.__pubkey__())", 'C13.2')
M('C13', 'session-key-appended', PGP, "        _m |= pkesk\n\n        return _m", "        _m |= pkesk\n        _m._sessionkeys.append(sessionkey)\n\n        return _m", 'C13.3')
M('C13', 'session-key-stored', PGP, "        skesk.encrypt_sk(passphrase, sessionkey)\n        del passphrase", "        skesk.encrypt_sk(passphrase, sessionkey)\n        self._last_sessionkey = sessionkey\n        del passphrase", 'C13.3')
M('C13', 'keyblob-iv-reused', FL, "        self.s2k.iv = enc_alg.gen_iv()\n", "        self.s2k.iv = self.s2k.iv or enc_alg.gen_iv()\n", 'C13.2')
M('C13', 'keyblob-salt-reused', FL, "        self.s2k.salt = bytearray(os.urandom(8))\n        self.s2k.count = hash_alg.tuned_count", "        self.s2k.salt = self.s2k.salt or bytearray(os.urandom(8))\n        self.s2k.count = hash_alg.tuned_count", 'C13.2')
M('C13', 'prefix-from-key', PK, "        iv = alg.gen_iv()\n        data = iv + iv[-2:] + data", "        iv = bytes(key[:alg.block_size // 8])\n        data = iv + iv[-2:] + data", 'C13.2')
M('C13', 'skesk-wrong-key-to-data', PGP, "            skedata.encrypt(sessionkey, cipher_algo, self.__bytes__())\n            msg |= skedata", "            skedata.encrypt(cipher_algo.gen_key(), cipher_algo, self.__bytes__())\n            msg |= skedata", 'C13.2')
M('C13', 'import-random', CO, "import os\nimport zlib", "import os\nimport random\nimport zlib", 'C13.1')
M('C13', 'symkey-logged', PK, "        self.ct = self.ct.encrypt(encrypter, *encargs)\n        self.update_hlen()", "        self.ct = self.ct.encrypt(encrypter, *encargs)\n        warnings.warn('wrapped %r' % (symkey,))\n        self.update_hlen()", 'C13.3')
T('C13', 'twin-salt-temp', PK, "        self.s2k.salt = bytearray(os.urandom(8))\n        esk = self.s2k.derive_key(passphrase)", "        salt = os.urandom(8)\n        self.s2k.salt = bytearray(salt)\n        esk = self.s2k.derive_key(passphrase)")
T('C13', 'twin-genkey-temp', CO, "    def gen_key(self):\n        return os.urandom(self.key_size // 8)", "    def gen_key(self):\n        nbytes = self.key_size // 8\n        return os.urandom(nbytes)")
T('C13', 'twin-sessionkey-not-none', PGP, "        if sessionkey is None:\n            sessionkey = cipher_algo.gen_key()\n        skesk.encrypt_sk(passphrase, sessionkey)", "        if sessionkey is not None:\n            pass\n        else:\n            sessionkey = cipher_algo.gen_key()\n        skesk.encrypt_sk(passphrase, sessionkey)")

# ---- C13 hardening: refactorings that must stay silent, and new mutants for the rewritten rules
T('C13', 'twin-gen-iv-shift', CO, "    def gen_iv(self):\n        return os.urandom(self.block_size // 8)", "    def gen_iv(self):\n        noctets = self.block_size >> 3\n        return os.urandom(int(noctets))")
M('C13', 'gen-iv-half-block', CO, "    def gen_iv(self):\n        return os.urandom(self.block_size // 8)", "    def gen_iv(self):\n        return os.urandom(self.block_size >> 4)", 'C13.1')
KEY_ENC = ("        pkesk = PKESessionKeyV3()\n        pkesk.encrypter = bytearray(binascii.unhexlify(self.fingerprint.keyid.encode('latin-1')))\n        pkesk.pkalg = self.key_algorithm\n"
           "        pkesk.encrypt_sk(self._key, cipher_algo, sessionkey)\n\n        if message.is_encrypted:  # pragma: no cover\n            _m = message\n\n        else:\n            _m = PGPMessage()\n"
           "            skedata = IntegrityProtectedSKEDataV1()\n            skedata.encrypt(sessionkey, cipher_algo, message.__bytes__())\n            _m |= skedata\n\n        _m |= pkesk\n\n        return _m\n")
T('C13', 'twin-key-encrypt-renamed-locals', PGP, KEY_ENC,
  "        esk = PKESessionKeyV3()\n        esk.encrypter = bytearray(binascii.unhexlify(self.fingerprint.keyid.encode('latin-1')))\n        esk.pkalg = self.key_algorithm\n"
  "        esk.encrypt_sk(self._key, symalg=cipher_algo, symkey=sessionkey)\n\n        if message.is_encrypted:  # pragma: no cover\n            out = message\n\n        else:\n            out = PGPMessage()\n"
  "            container = IntegrityProtectedSKEDataV1()\n            serialised = message.__bytes__()\n            container.encrypt(sessionkey, cipher_algo, serialised)\n            out |= container\n\n        out |= esk\n\n        return out\n")
M('C13', 'container-key-redrawn-when-generated', PGP, "        if sessionkey is None:\n            sessionkey = cipher_algo.gen_key()\n\n        # set up a new PKESessionKeyV3",
  "        generated = sessionkey is None\n        if generated:\n            sessionkey = cipher_algo.gen_key()\n\n        # set up a new PKESessionKeyV3", 'C13.2',
  more=[(PGP, "            skedata.encrypt(sessionkey, cipher_algo, message.__bytes__())", "            skedata.encrypt(cipher_algo.gen_key() if generated else sessionkey, cipher_algo, message.__bytes__())")])
KB = ("        self.s2k.iv = enc_alg.gen_iv()\n        self.s2k.halg = hash_alg\n        self.s2k.salt = bytearray(os.urandom(8))\n        self.s2k.count = hash_alg.tuned_count\n")
T('C13', 'twin-keyblob-temporaries', FL, "    def encrypt_keyblob(self, passphrase, enc_alg, hash_alg):", "    def encrypt_keyblob(self, passphrase, cipher, digest):",
  more=[(FL, "        self.s2k.encalg = enc_alg\n", "        self.s2k.encalg = cipher\n"),
        (FL, KB, "        fresh_iv = cipher.gen_iv()\n        self.s2k.iv = fresh_iv\n        self.s2k.halg = digest\n        fresh_salt = os.urandom(8)\n        self.s2k.salt = bytearray(fresh_salt)\n        self.s2k.count = digest.tuned_count\n"),
        (FL, "        self.encbytes = bytearray(_encrypt(bytes(pt), bytes(sessionkey), enc_alg, bytes(self.s2k.iv)))", "        self.encbytes = bytearray(_encrypt(bytes(pt), bytes(sessionkey), cipher, iv=bytes(fresh_iv)))")])
M('C13', 'keyblob-encrypts-under-second-iv', FL, "        self.encbytes = bytearray(_encrypt(bytes(pt), bytes(sessionkey), enc_alg, bytes(self.s2k.iv)))",
  "        self.encbytes = bytearray(_encrypt(bytes(pt), bytes(sessionkey), enc_alg, bytes(enc_alg.gen_iv())))", 'C13.2')
M('C13', 'keyblob-salt-after-derive', FL, "        self.s2k.salt = bytearray(os.urandom(8))\n        self.s2k.count = hash_alg.tuned_count\n", "        self.s2k.count = hash_alg.tuned_count\n", 'C13.2',
  more=[(FL, "        sessionkey = self.s2k.derive_key(passphrase)\n        del passphrase\n\n        pt = bytearray()", "        sessionkey = self.s2k.derive_key(passphrase)\n        self.s2k.salt = bytearray(os.urandom(8))\n        del passphrase\n\n        pt = bytearray()")])
T('C13', 'twin-skesk-salt-helper', PK, "        self.s2k.salt = bytearray(os.urandom(8))\n        esk = self.s2k.derive_key(passphrase)", "        self.s2k.salt = self._fresh_salt()\n        esk = self.s2k.derive_key(passphrase)",
  more=[(PK, "    def encrypt_sk(self, passphrase, sk):\n        # generate the salt", "    @staticmethod\n    def _fresh_salt():\n        return bytearray(os.urandom(_SALT_OCTETS))\n\n    def encrypt_sk(self, passphrase, sk):\n        # generate the salt"),
        (PK, "class SKESessionKeyV4(SKESessionKey):\n", "_SALT_OCTETS = 8\n\n\nclass SKESessionKeyV4(SKESessionKey):\n")])
M('C13', 'skesk-salt-four-octets-doubled', PK, "        self.s2k.salt = bytearray(os.urandom(8))\n        esk = self.s2k.derive_key(passphrase)", "        self.s2k.salt = bytearray(os.urandom(4) * 2)\n        esk = self.s2k.derive_key(passphrase)", 'C13.2')
T('C13', 'twin-seipd-params-renamed', PK, "    def encrypt(self, key, alg, data):\n        iv = alg.gen_iv()\n        data = iv + iv[-2:] + data\n",
  "    def encrypt(self, sessionkey, cipher, data):\n        key, alg = sessionkey, cipher\n        rnd = alg.gen_iv()\n        data = b''.join([rnd, rnd[-2:], data])\n")
ECDH_W = ("            v = ec.generate_private_key(km.oid.curve(), default_backend())\n            x = MPI(v.public_key().public_numbers().x)\n            y = MPI(v.public_key().public_numbers().y)\n"
          "            ct.p = ECPoint.from_values(km.oid.key_size, ECPointFormat.Standard, x, y)\n            s = v.exchange(ec.ECDH(), km.__pubkey__())\n")
T('C13', 'twin-ecdh-renamed-hoisted', FL, ECDH_W,
  "            eph = ec.generate_private_key(km.oid.curve(), default_backend())\n            numbers = eph.public_key().public_numbers()\n            px, py = MPI(numbers.x), MPI(numbers.y)\n"
  "            ct.p = ECPoint.from_values(km.oid.key_size, ECPointFormat.Standard, px, py)\n            recipient = km.__pubkey__()\n            s = eph.exchange(ec.ECDH(), recipient)\n")
M('C13', 'ecdh-point-of-another-key', FL, ECDH_W,
  "            v = ec.generate_private_key(km.oid.curve(), default_backend())\n            w = ec.generate_private_key(km.oid.curve(), default_backend())\n            x = MPI(w.public_key().public_numbers().x)\n            y = MPI(w.public_key().public_numbers().y)\n"
  "            ct.p = ECPoint.from_values(km.oid.key_size, ECPointFormat.Standard, x, y)\n            s = v.exchange(ec.ECDH(), km.__pubkey__())\n", 'C13.2')
M('C13', 'ecdh-exchange-with-own-point', FL, "            s = v.exchange(ec.ECDH(), km.__pubkey__())\n", "            s = v.exchange(ec.ECDH(), v.public_key())\n", 'C13.2')
M('C13', 'ecdh-fixed-curve', FL, "            v = ec.generate_private_key(km.oid.curve(), default_backend())\n", "            v = ec.generate_private_key(ec.SECP256R1(), default_backend())\n", 'C13.2')
M('C13', 'session-key-copy-kept', PGP, "        skesk.encrypt_sk(passphrase, sessionkey)\n        del passphrase", "        skesk.encrypt_sk(passphrase, sessionkey)\n        skesk._plain = bytes(sessionkey)\n        del passphrase", 'C13.3')
M('C13', 'pkesk-keeps-m-value', PK, "        self.ct = self.ct.encrypt(encrypter, *encargs)\n        self.update_hlen()", "        self.ct = self.ct.encrypt(encrypter, *encargs)\n        self._m = bytes(m)\n        self.update_hlen()", 'C13.3')
M('C13', 'seipd-returns-key', PK, "        self.ct = _encrypt(data, key, alg)\n        self.update_hlen()\n", "        self.ct = _encrypt(data, key, alg)\n        self.update_hlen()\n        return bytearray(key)\n", 'C13.3')
T('C13', 'twin-pkesk-key-copied-for-sum', PK, "        m += self.int_to_bytes(sum(bytearray(symkey)) % 65536, 2)", "        octets = bytearray(symkey)\n        total = sum(octets)\n        m += self.int_to_bytes(total % 65536, 2)")

T('C13', 'twin-source-passed-by-reference', PK, "        self.s2k.salt = bytearray(os.urandom(8))\n        esk = self.s2k.derive_key(passphrase)", "        self.s2k.salt = bytearray(_draw(8))\n        esk = self.s2k.derive_key(passphrase)",
  more=[(PK, "class SKESessionKeyV4(SKESessionKey):\n", "def _draw(noctets, source=None):\n    return (source or os.urandom)(noctets) if source is not None else os.urandom(noctets)\n\n\nclass SKESessionKeyV4(SKESessionKey):\n")])
M('C13', 'salt-default-argument', PK, "    def encrypt_sk(self, passphrase, sk):\n        # generate the salt and derive the key to encrypt sk with from it\n        self.s2k.salt = bytearray(os.urandom(8))",
  "    def encrypt_sk(self, passphrase, sk, _salt=os.urandom(8)):\n        # generate the salt and derive the key to encrypt sk with from it\n        self.s2k.salt = bytearray(_salt)", 'C13.1')
M('C13', 'class-level-prefix', PK, "    __ver__ = 1\n\n    def __init__(self):\n        super(IntegrityProtectedSKEDataV1, self).__init__()", "    __ver__ = 1\n    _prefix = SymmetricKeyAlgorithm.AES256.gen_iv()\n\n    def __init__(self):\n        super(IntegrityProtectedSKEDataV1, self).__init__()", 'C13.1')

T('C13', 'twin-keyblob-chained-assign', FL, "        self.s2k.iv = enc_alg.gen_iv()\n        self.s2k.halg = hash_alg\n", "        self.s2k.iv = iv = enc_alg.gen_iv()\n        self.s2k.halg = hash_alg\n",
  more=[(FL, "enc_alg, bytes(self.s2k.iv)))", "enc_alg, bytes(iv)))")])
ECDH_X = ("            v = x25519.X25519PrivateKey.generate()\n            x = v.public_key().public_bytes(encoding=serialization.Encoding.Raw, format=serialization.PublicFormat.Raw)\n"
          "            ct.p = ECPoint.from_values(km.oid.key_size, ECPointFormat.Native, x)\n            s = v.exchange(km.__pubkey__())\n")
T('C13', 'twin-ecdh-arm-helper', FL, ECDH_X, "            ct.p, s = cls._x25519_agree(km)\n",
  more=[(FL, "    @classmethod\n    def encrypt(cls, pk, *args):\n        \"\"\"\n        For convenience, the synopsis of the encoding method is given below;",
         "    @staticmethod\n    def _x25519_agree(keymat):\n        eph = x25519.X25519PrivateKey.generate()\n        raw = eph.public_key().public_bytes(encoding=serialization.Encoding.Raw, format=serialization.PublicFormat.Raw)\n"
         "        point = ECPoint.from_values(keymat.oid.key_size, ECPointFormat.Native, raw)\n        return point, eph.exchange(keymat.__pubkey__())\n\n"
         "    @classmethod\n    def encrypt(cls, pk, *args):\n        \"\"\"\n        For convenience, the synopsis of the encoding method is given below;")])

KEYSIZE_TABLE = '        ks = {SymmetricKeyAlgorithm.IDEA: 128,\n              SymmetricKeyAlgorithm.TripleDES: 192,\n              SymmetricKeyAlgorithm.CAST5: 128,\n              SymmetricKeyAlgorithm.Blowfish: 128,\n              SymmetricKeyAlgorithm.AES128: 128,\n              SymmetricKeyAlgorithm.AES192: 192,\n              SymmetricKeyAlgorithm.AES256: 256,\n              SymmetricKeyAlgorithm.Twofish256: 256,\n              SymmetricKeyAlgorithm.Camellia128: 128,\n              SymmetricKeyAlgorithm.Camellia192: 192,\n              SymmetricKeyAlgorithm.Camellia256: 256}\n\n        if self in ks:\n            return ks[self]\n\n        raise NotImplementedError(repr(self))\n'
T('C13', 'twin-keysize-if-chain', CO, KEYSIZE_TABLE,
  "        if self in (SymmetricKeyAlgorithm.IDEA, SymmetricKeyAlgorithm.CAST5, SymmetricKeyAlgorithm.Blowfish, SymmetricKeyAlgorithm.AES128, SymmetricKeyAlgorithm.Camellia128):\n            return 128\n\n"
  "        if self in (SymmetricKeyAlgorithm.TripleDES, SymmetricKeyAlgorithm.AES192, SymmetricKeyAlgorithm.Camellia192):\n            return 192\n\n"
  "        if self in {SymmetricKeyAlgorithm.AES256, SymmetricKeyAlgorithm.Twofish256, SymmetricKeyAlgorithm.Camellia256}:\n            return 256\n\n        raise NotImplementedError(repr(self))\n")
M('C13', 'keysize-if-chain-aes192-in-128-arm', CO, KEYSIZE_TABLE,
  "        if self in (SymmetricKeyAlgorithm.IDEA, SymmetricKeyAlgorithm.CAST5, SymmetricKeyAlgorithm.Blowfish, SymmetricKeyAlgorithm.AES128, SymmetricKeyAlgorithm.AES192, SymmetricKeyAlgorithm.Camellia128):\n            return 128\n\n"
  "        if self in (SymmetricKeyAlgorithm.TripleDES, SymmetricKeyAlgorithm.Camellia192):\n            return 192\n\n"
  "        if self in {SymmetricKeyAlgorithm.AES256, SymmetricKeyAlgorithm.Twofish256, SymmetricKeyAlgorithm.Camellia256}:\n            return 256\n\n        raise NotImplementedError(repr(self))\n", 'C13.1')
T('C13', 'twin-keysize-get', CO, "        if self in ks:\n            return ks[self]\n\n        raise NotImplementedError(repr(self))\n\n    def gen_iv(self):",
  "        size = ks.get(self)\n        if size is None:\n            raise NotImplementedError(repr(self))\n        return size\n\n    def gen_iv(self):")
M('C13', 'keysize-tripledes-168', CO, "              SymmetricKeyAlgorithm.TripleDES: 192,\n              SymmetricKeyAlgorithm.CAST5: 128,", "              SymmetricKeyAlgorithm.TripleDES: 168,\n              SymmetricKeyAlgorithm.CAST5: 128,", 'C13.1')
M('C03', 'cipher-aes256-bound-to-camellia', CO, "              SymmetricKeyAlgorithm.AES256: algorithms.AES,", "              SymmetricKeyAlgorithm.AES256: algorithms.Camellia,", 'C03.4')

# =============================================================================================== C04
MDC_G = "        if not constant_time.bytes_eq(bytes(pt[-22:]), _expected_mdcbytes):\n            raise PGPDecryptionError(\"Decryption failed\")  # pragma: no cover\n"
M('C04', 'mdc-guard-deleted', PK, MDC_G, "", 'C04.1')
M('C04', 'mdc-guard-inverted', PK, "        if not constant_time.bytes_eq(bytes(pt[-22:]), _expected_mdcbytes):", "        if constant_time.bytes_eq(bytes(pt[-22:]), _expected_mdcbytes):", 'C04.1')
M('C04', 'mdc-guard-warn', PK, MDC_G, "        if not constant_time.bytes_eq(bytes(pt[-22:]), _expected_mdcbytes):\n            warnings.warn(\"Decryption failed\")\n", 'C04.1')
M('C04', 'mdc-hash-range', PK, "        _expected_mdcbytes = b'\\xd3\\x14' + hashlib.new('SHA1', pt[:-20]).digest()", "        _expected_mdcbytes = b'\\xd3\\x14' + hashlib.new('SHA1', pt[:-22]).digest()", 'C04.1')
M('C04', 'mdc-compare-20', PK, "        if not constant_time.bytes_eq(bytes(pt[-22:]), _expected_mdcbytes):", "        if not constant_time.bytes_eq(bytes(pt[-20:]), _expected_mdcbytes[2:]):", 'C04.1')
M('C04', 'mdc-after-return', PK, MDC_G + "\n        iv = bytes(pt[:alg.block_size // 8])", "        iv = bytes(pt[:alg.block_size // 8])", 'C04.1')
M('C04', 'ivcheck-deleted', PK, "        if not constant_time.bytes_eq(iv[-2:], ivl2):\n            raise PGPDecryptionError(\"Decryption failed\")  # pragma: no cover\n\n        return pt", "        return pt", 'C04.2')
M('C04', 'ivcheck-first-two', PK, "        if not constant_time.bytes_eq(iv[-2:], ivl2):\n            raise PGPDecryptionError(\"Decryption failed\")  # pragma: no cover\n\n        return pt", "        if not constant_time.bytes_eq(iv[:2], ivl2):\n            raise PGPDecryptionError(\"Decryption failed\")  # pragma: no cover\n\n        return pt", 'C04.2')
M('C04', 'pkesk-checksum-deleted', PK, "        if not sum(symkey) % 65536 == checksum:  # pragma: no cover\n            raise PGPDecryptionError(\"{:s} decryption failed\".format(self.pkalg.name))\n", "", 'C04.3')
M('C04', 'pkesk-checksum-mod-256', PK, "        if not sum(symkey) % 65536 == checksum:  # pragma: no cover", "        if not sum(symkey) % 256 == checksum % 256:  # pragma: no cover", 'C04.3')
M('C04', 'pkesk-checksum-inverted', PK, "        if not sum(symkey) % 65536 == checksum:  # pragma: no cover", "        if sum(symkey) % 65536 == checksum:  # pragma: no cover", 'C04.3')
M('C04', 'keyblob-sha1-deleted', FL, "        if self.s2k.usage == 254 and not pt[-20:] == hashlib.new('sha1', pt[:-20]).digest():", "        if False and not pt[-20:] == hashlib.new('sha1', pt[:-20]).digest():", 'C04.4')
M('C04', 'keyblob-sha1-usage-255', FL, "        if self.s2k.usage == 254 and not pt[-20:] == hashlib.new('sha1', pt[:-20]).digest():", "        if self.s2k.usage == 253 and not pt[-20:] == hashlib.new('sha1', pt[:-20]).digest():", 'C04.4')
M('C04', 'keyblob-sum-inverted', FL, "        if self.s2k.usage == 255 and not self.bytes_to_int(pt[-2:]) == (sum(bytearray(pt[:-2])) % 65536):", "        if self.s2k.usage == 255 and self.bytes_to_int(pt[-2:]) == (sum(bytearray(pt[:-2])) % 65536):", 'C04.4')
M('C04', 'msg-decrypt-except-break', PGP, "            except (TypeError, ValueError, NotImplementedError, PGPDecryptionError):\n                continue", "            except (TypeError, ValueError, NotImplementedError, PGPDecryptionError):\n                break", 'C04.5')
M('C04', 'msg-decrypt-no-else-raise', PGP, "        else:\n            raise PGPDecryptionError(\"Decryption failed\")\n\n        return decmsg", "        else:\n            decmsg = self\n\n        return decmsg", 'C04.5')
M('C04', 'msg-decrypt-key-swap', PGP, "                decmsg.parse(self.message.decrypt(key, symalg))", "                decmsg.parse(self.message.decrypt(symalg, key))", 'C04.5')
M('C04', 'key-decrypt-no-raise', PGP, "            raise PGPError(\"Cannot decrypt the provided message with this key\")\n", "            warnings.warn(\"Cannot decrypt the provided message with this key\")\n", 'C04.6')
M('C04', 'key-decrypt-any-pkesk', PGP, "                     and pk.pkalg == self.key_algorithm and pk.encrypter == self.fingerprint.keyid)", "                     and pk.pkalg == self.key_algorithm)", 'C04.6')
M('C04', 'ecdh-no-finalize', FL, "        return padder.update(_m) + padder.finalize()\n\n    def __init__(self):\n        super(ECDHCipherText, self).__init__()", "        return padder.update(_m)\n\n    def __init__(self):\n        super(ECDHCipherText, self).__init__()", 'C04.7')
M('C04', 'ecdh-no-unpad', FL, "        padder = PKCS7(64).unpadder()\n        return padder.update(_m) + padder.finalize()", "        return _m.rstrip(_m[-1:])", 'C04.7')
T('C04', 'twin-neq', FL, "        if self.s2k.usage == 254 and not pt[-20:] == hashlib.new('sha1', pt[:-20]).digest():", "        if self.s2k.usage == 254 and pt[-20:] != hashlib.new('sha1', pt[:-20]).digest():")
T('C04', 'twin-eq-form', PK, "        if not constant_time.bytes_eq(bytes(pt[-22:]), _expected_mdcbytes):", "        if bytes(pt[-22:]) != _expected_mdcbytes:")
T('C04', 'twin-if-else', PK, "        if not sum(symkey) % 65536 == checksum:  # pragma: no cover\n            raise PGPDecryptionError(\"{:s} decryption failed\".format(self.pkalg.name))\n",
  "        if sum(symkey) % 65536 == checksum:\n            pass\n        else:\n            raise PGPDecryptionError(\"{:s} decryption failed\".format(self.pkalg.name))\n")
T('C04', 'twin-mdc-temp', PK, "        _expected_mdcbytes = b'\\xd3\\x14' + hashlib.new('SHA1', pt[:-20]).digest()", "        digest = hashlib.new('SHA1', pt[:-20]).digest()\n        _expected_mdcbytes = b'\\xd3' + b'\\x14' + digest")

# ---- hardening round: behaviour-preserving refactorings the rules must not see, and mutants of every rewritten rule
C04_SEIPD = """        pt = _decrypt(bytes(self.ct), bytes(key), alg)

        # do the MDC checks
        _expected_mdcbytes = b'\\xd3\\x14' + hashlib.new('SHA1', pt[:-20]).digest()
        if not constant_time.bytes_eq(bytes(pt[-22:]), _expected_mdcbytes):
            raise PGPDecryptionError("Decryption failed")  # pragma: no cover

        iv = bytes(pt[:alg.block_size // 8])
        del pt[:alg.block_size // 8]

        ivl2 = bytes(pt[:2])
        del pt[:2]

        if not constant_time.bytes_eq(iv[-2:], ivl2):
            raise PGPDecryptionError("Decryption failed")  # pragma: no cover

        return pt
"""
T('C04', 'twin-seipd-rename-nodel', PK, C04_SEIPD, """        plaintext = _decrypt(bytes(self.ct), bytes(key), alg)
        bs = alg.block_size // 8

        digest = hashlib.new('SHA1', plaintext[:-20]).digest()
        if not constant_time.bytes_eq(bytes(plaintext[-22:]), b'\\xd3\\x14' + digest):
            raise PGPDecryptionError("Decryption failed")  # pragma: no cover

        prefix = bytes(plaintext[:bs])
        repeat = bytes(plaintext[bs:bs + 2])
        if not constant_time.bytes_eq(prefix[-2:], repeat):
            raise PGPDecryptionError("Decryption failed")  # pragma: no cover

        return plaintext[bs + 2:]
""")
T('C04', 'twin-seipd-sha1-ctor', PK, "hashlib.new('SHA1', pt[:-20]).digest()\n        if not constant_time.bytes_eq(bytes(pt[-22:])", "hashlib.sha1(pt[:-20]).digest()\n        if not constant_time.bytes_eq(bytes(pt[-22:])")
T('C04', 'twin-seipd-hash-update', PK, "        _expected_mdcbytes = b'\\xd3\\x14' + hashlib.new('SHA1', pt[:-20]).digest()",
  "        mdc = hashlib.new('SHA1')\n        mdc.update(pt[:-22])\n        mdc.update(b'\\xd3\\x14')\n        _expected_mdcbytes = b'\\xd3\\x14' + mdc.digest()")
T('C04', 'twin-seipd-split-mdc', PK, "        _expected_mdcbytes = b'\\xd3\\x14' + hashlib.new('SHA1', pt[:-20]).digest()\n        if not constant_time.bytes_eq(bytes(pt[-22:]), _expected_mdcbytes):\n            raise PGPDecryptionError(\"Decryption failed\")  # pragma: no cover\n",
  "        if bytes(pt[-22:-20]) != b'\\xd3\\x14':\n            raise PGPDecryptionError(\"Decryption failed\")\n        if not constant_time.bytes_eq(bytes(pt[-20:]), hashlib.new('SHA1', pt[:-20]).digest()):\n            raise PGPDecryptionError(\"Decryption failed\")\n")
T('C04', 'twin-seipd-combined-guard', PK, C04_SEIPD, """        pt = _decrypt(bytes(self.ct), bytes(key), alg)
        bs = alg.block_size // 8
        mdc_ok = constant_time.bytes_eq(bytes(pt[-22:]), b'\\xd3\\x14' + hashlib.new('SHA1', pt[:-20]).digest())
        prefix_ok = constant_time.bytes_eq(bytes(pt[bs - 2:bs]), bytes(pt[bs:bs + 2]))
        if not mdc_ok or not prefix_ok:
            raise PGPDecryptionError("Decryption failed")
        return pt[bs + 2:]
""")
T('C04', 'twin-seipd-demorgan-guard', PK, C04_SEIPD, """        pt = _decrypt(bytes(self.ct), bytes(key), alg)
        bs = alg.block_size // 8
        if not (constant_time.bytes_eq(bytes(pt[-22:]), b'\\xd3\\x14' + hashlib.new('SHA1', pt[:-20]).digest())
                and constant_time.bytes_eq(bytes(pt[bs - 2:bs]), bytes(pt[bs:bs + 2]))):
            raise PGPDecryptionError("Decryption failed")
        return pt[bs + 2:]
""")
T('C04', 'twin-seipd-kw-decrypt', PK, "        pt = _decrypt(bytes(self.ct), bytes(key), alg)\n\n        # do the MDC checks", "        pt = _decrypt(ct=bytes(self.ct), key=bytes(key), alg=alg, iv=None)\n\n        # do the MDC checks")
M('C04', 'seipd-combined-and', PK, C04_SEIPD, """        pt = _decrypt(bytes(self.ct), bytes(key), alg)
        bs = alg.block_size // 8
        mdc_ok = constant_time.bytes_eq(bytes(pt[-22:]), b'\\xd3\\x14' + hashlib.new('SHA1', pt[:-20]).digest())
        prefix_ok = constant_time.bytes_eq(bytes(pt[bs - 2:bs]), bytes(pt[bs:bs + 2]))
        if not mdc_ok and not prefix_ok:
            raise PGPDecryptionError("Decryption failed")
        return pt[bs + 2:]
""", 'C04.1')
M('C04', 'seipd-split-header-only', PK, "        _expected_mdcbytes = b'\\xd3\\x14' + hashlib.new('SHA1', pt[:-20]).digest()\n        if not constant_time.bytes_eq(bytes(pt[-22:]), _expected_mdcbytes):\n            raise PGPDecryptionError(\"Decryption failed\")  # pragma: no cover\n",
  "        if bytes(pt[-22:-20]) != b'\\xd3\\x14':\n            raise PGPDecryptionError(\"Decryption failed\")\n", 'C04.1')
M('C04', 'seipd-split-digest-only', PK, "        _expected_mdcbytes = b'\\xd3\\x14' + hashlib.new('SHA1', pt[:-20]).digest()\n        if not constant_time.bytes_eq(bytes(pt[-22:]), _expected_mdcbytes):\n            raise PGPDecryptionError(\"Decryption failed\")  # pragma: no cover\n",
  "        if not constant_time.bytes_eq(bytes(pt[-20:]), hashlib.new('SHA1', pt[:-20]).digest()):\n            raise PGPDecryptionError(\"Decryption failed\")\n", 'C04.1')
M('C04', 'ivcheck-compares-self', PK, "        if not constant_time.bytes_eq(iv[-2:], ivl2):\n            raise PGPDecryptionError(\"Decryption failed\")  # pragma: no cover\n\n        return pt\n", "        if not constant_time.bytes_eq(ivl2, ivl2):\n            raise PGPDecryptionError(\"Decryption failed\")  # pragma: no cover\n\n        return pt\n", 'C04.2')

# ---------------------------------------------------------------- C04.3
C04_PKSK = """        symalg = SymmetricKeyAlgorithm(m[0])
        del m[0]

        symkey = m[:symalg.key_size // 8]
        del m[:symalg.key_size // 8]

        checksum = self.bytes_to_int(m[:2])
        del m[:2]

        if not sum(symkey) % 65536 == checksum:  # pragma: no cover
            raise PGPDecryptionError("{:s} decryption failed".format(self.pkalg.name))

        return (symalg, symkey)
"""
T('C04', 'twin-pkesk-nodel', PK, C04_PKSK, """        cipher = SymmetricKeyAlgorithm(m[0])
        klen = cipher.key_size // 8
        sessionkey = m[1:1 + klen]
        expected = int.from_bytes(m[1 + klen:3 + klen], 'big')
        if (sum(sessionkey) & 0xFFFF) != expected:
            raise PGPDecryptionError("{:s} decryption failed".format(self.pkalg.name))
        return cipher, sessionkey
""")
T('C04', 'twin-pkesk-sum-bytearray', PK, "        if not sum(symkey) % 65536 == checksum:  # pragma: no cover", "        if checksum != sum(bytearray(symkey)) % 65536:  # pragma: no cover")
M('C04', 'pkesk-returns-unchecked-key', PK, "        return (symalg, symkey)\n\n    def encrypt_sk(self, pk, symalg, symkey):", "        return (symalg, symkey + m)\n\n    def encrypt_sk(self, pk, symalg, symkey):", 'C04.3')

# ---------------------------------------------------------------- C04.4
C04_KB = """        if self.s2k.usage == 254 and not pt[-20:] == hashlib.new('sha1', pt[:-20]).digest():
            # if the usage byte is 254, key material is followed by a 20-octet sha-1 hash of the rest
            # of the key material block
            raise PGPDecryptionError("Passphrase was incorrect!")

        if self.s2k.usage == 255 and not self.bytes_to_int(pt[-2:]) == (sum(bytearray(pt[:-2])) % 65536):  # pragma: no cover
            # if the usage byte is 255, key material is followed by a 2-octet checksum of the rest
            # of the key material block
            raise PGPDecryptionError("Passphrase was incorrect!")

        return bytearray(pt)
"""
T('C04', 'twin-keyblob-nested', FL, C04_KB, """        usage = self.s2k.usage
        if usage == 254:
            body, digest = pt[:-20], pt[-20:]
            if digest != hashlib.sha1(body).digest():
                raise PGPDecryptionError("Passphrase was incorrect!")

        elif usage == 255:
            if self.bytes_to_int(pt[-2:]) != sum(bytearray(pt[:-2])) % 65536:
                raise PGPDecryptionError("Passphrase was incorrect!")

        return bytearray(pt)
""")
T('C04', 'twin-keyblob-rename-kw', FL, "        sessionkey = self.s2k.derive_key(passphrase)\n        del passphrase\n\n        # attempt to decrypt this key\n        pt = _decrypt(bytes(self.encbytes), bytes(sessionkey), self.s2k.encalg, bytes(self.s2k.iv))",
  "        kek = self.s2k.derive_key(passphrase)\n        del passphrase\n\n        # attempt to decrypt this key\n        pt = _decrypt(bytes(self.encbytes), bytes(kek), alg=self.s2k.encalg, iv=bytes(self.s2k.iv))")
M('C04', 'keyblob-sum-short-range', FL, "(sum(bytearray(pt[:-2])) % 65536):  # pragma: no cover", "(sum(bytearray(pt[:-4])) % 65536):  # pragma: no cover", 'C04.4')
M('C04', 'keyblob-sha1-or', FL, "        if self.s2k.usage == 254 and not pt[-20:] == hashlib.new('sha1', pt[:-20]).digest():", "        if self.s2k.usage == 254 and not (pt[-20:] == hashlib.new('sha1', pt[:-20]).digest() or len(pt) > 20):", 'C04.4')

# ---------------------------------------------------------------- C04.7
C04_ECD = """        padder = PKCS7(64).unpadder()
        return padder.update(_m) + padder.finalize()
"""
T('C04', 'twin-ecdh-temps', FL, C04_ECD, """        unpadder = PKCS7(block_size=64).unpadder()
        head = unpadder.update(_m)
        tail = unpadder.finalize()
        return head + tail
""")
T('C04', 'twin-ecdh-join', FL, C04_ECD, """        unpadder = PKCS7(64).unpadder()
        return b''.join([unpadder.update(_m), unpadder.finalize()])
""")
T('C04', 'twin-ecdh-unwrap-kw', FL, "        _m = aes_key_unwrap(z, self.c, default_backend())", "        _m = aes_key_unwrap(wrapped_key=self.c, wrapping_key=z, backend=default_backend())")
M('C04', 'ecdh-lenient-padding', FL, C04_ECD, """        padder = PKCS7(64).unpadder()
        try:
            return padder.update(_m) + padder.finalize()
        except ValueError:
            return _m
""", 'C04.7')
C04_MSG_LOOP = """        for skesk in iter(sk for sk in self._sessionkeys if isinstance(sk, SKESessionKey)):
            try:
                symalg, key = skesk.decrypt_sk(passphrase)
                decmsg = PGPMessage()
                decmsg.parse(self.message.decrypt(key, symalg))

            except (TypeError, ValueError, NotImplementedError, PGPDecryptionError):
                continue

            else:
                del passphrase
                break

        else:
            raise PGPDecryptionError("Decryption failed")

        return decmsg
"""
T('C04', 'twin-msg-sentinel', PGP, C04_MSG_LOOP, """        result = None
        for packet in self._sessionkeys:
            if not isinstance(packet, SKESessionKey):
                continue
            try:
                cipher, sessionkey = packet.decrypt_sk(passphrase)
                candidate = PGPMessage()
                candidate.parse(self.message.decrypt(sessionkey, cipher))
            except (TypeError, ValueError, NotImplementedError, PGPDecryptionError):
                continue
            result = candidate
            break

        if result is None:
            raise PGPDecryptionError("Decryption failed")

        del passphrase
        return result
""")
T('C04', 'twin-msg-return-in-loop', PGP, C04_MSG_LOOP, """        for skesk in [sk for sk in self._sessionkeys if isinstance(sk, SKESessionKey)]:
            try:
                res = skesk.decrypt_sk(passphrase)
                decmsg = PGPMessage()
                decmsg.parse(self.message.decrypt(key=res[1], alg=res[0]))

            except (TypeError, ValueError, NotImplementedError, PGPDecryptionError) as exc:
                continue

            return decmsg

        raise PGPDecryptionError("Decryption failed")
""")
T('C04', 'twin-msg-found-flag', PGP, C04_MSG_LOOP, """        found = False
        decmsg = PGPMessage()
        for skesk in filter(lambda sk: isinstance(sk, SKESessionKey), self._sessionkeys):
            try:
                symalg, key = skesk.decrypt_sk(passphrase)
                decmsg.parse(self.message.decrypt(key, symalg))
                found = True
                break

            except (TypeError, ValueError, NotImplementedError, PGPDecryptionError):
                pass

        if not found:
            raise PGPDecryptionError("Decryption failed")

        return decmsg
""")
T('C04', 'twin-msg-if-instance-body', PGP, C04_MSG_LOOP, """        for skesk in self._sessionkeys:
            if isinstance(skesk, SKESessionKey):
                try:
                    symalg, key = skesk.decrypt_sk(passphrase)
                    decmsg = PGPMessage()
                    decmsg.parse(self.message.decrypt(key, symalg))

                except (TypeError, ValueError, NotImplementedError, PGPDecryptionError):
                    continue

                else:
                    break

        else:
            raise PGPDecryptionError("Decryption failed")

        return decmsg
""")
T('C04', 'twin-msg-precondition-else', PGP, "        if not self.is_encrypted:\n            raise PGPError(\"This message is not encrypted!\")\n\n        for skesk in iter(", "        if self.is_encrypted:\n            pass\n        else:\n            raise PGPError(\"This message is not encrypted!\")\n\n        for skesk in iter(")
T('C04', 'twin-msg-no-continue-sentinel', PGP, C04_MSG_LOOP, """        decmsg = None
        for skesk in (sk for sk in self._sessionkeys if isinstance(sk, SKESessionKey)):
            if decmsg is not None:
                break
            try:
                symalg, key = skesk.decrypt_sk(passphrase)
                attempt = PGPMessage()
                attempt.parse(self.message.decrypt(key, symalg))
                decmsg = attempt

            except (TypeError, ValueError, NotImplementedError, PGPDecryptionError):
                pass

        if decmsg is None:
            raise PGPDecryptionError("Decryption failed")

        return decmsg
""")
M('C04', 'msg-sentinel-check-dropped', PGP, C04_MSG_LOOP, """        result = None
        for packet in self._sessionkeys:
            if not isinstance(packet, SKESessionKey):
                continue
            try:
                cipher, sessionkey = packet.decrypt_sk(passphrase)
                candidate = PGPMessage()
                candidate.parse(self.message.decrypt(sessionkey, cipher))
            except (TypeError, ValueError, NotImplementedError, PGPDecryptionError):
                continue
            result = candidate
            break

        del passphrase
        return result
""", 'C04.5')
M('C04', 'msg-sentinel-assigned-early', PGP, C04_MSG_LOOP, """        result = None
        for packet in self._sessionkeys:
            if not isinstance(packet, SKESessionKey):
                continue
            try:
                cipher, sessionkey = packet.decrypt_sk(passphrase)
                result = PGPMessage()
                result.parse(self.message.decrypt(sessionkey, cipher))
            except (TypeError, ValueError, NotImplementedError, PGPDecryptionError):
                continue
            break

        if result is None:
            raise PGPDecryptionError("Decryption failed")

        del passphrase
        return result
""", 'C04.5')
M('C04', 'msg-found-flag-early', PGP, C04_MSG_LOOP, """        found = False
        decmsg = PGPMessage()
        for skesk in filter(lambda sk: isinstance(sk, SKESessionKey), self._sessionkeys):
            try:
                symalg, key = skesk.decrypt_sk(passphrase)
                found = True
                decmsg.parse(self.message.decrypt(key, symalg))
                break

            except (TypeError, ValueError, NotImplementedError, PGPDecryptionError):
                pass

        if not found:
            raise PGPDecryptionError("Decryption failed")

        return decmsg
""", 'C04.5')
M('C04', 'msg-filter-dropped', PGP, "        for skesk in iter(sk for sk in self._sessionkeys if isinstance(sk, SKESessionKey)):", "        for skesk in iter(sk for sk in self._sessionkeys):", 'C04.5')
M('C04', 'msg-parse-error-swallowed', PGP, "                decmsg.parse(self.message.decrypt(key, symalg))\n\n            except (TypeError", "                try:\n                    decmsg.parse(self.message.decrypt(key, symalg))\n                except PGPDecryptionError:\n                    pass\n\n            except (TypeError", 'C04.5')
M('C04', 'msg-handler-returns-self', PGP, "            except (TypeError, ValueError, NotImplementedError, PGPDecryptionError):\n                continue\n\n            else:\n                del passphrase", "            except (TypeError, ValueError, NotImplementedError):\n                continue\n\n            except PGPDecryptionError:\n                return self\n\n            else:\n                del passphrase", 'C04.5')
M('C04', 'msg-precondition-dropped', PGP, "        if not self.is_encrypted:\n            raise PGPError(\"This message is not encrypted!\")\n\n        for skesk in iter(", "        for skesk in iter(", 'C04.5')
M('C04', 'msg-precondition-returns-self', PGP, "        if not self.is_encrypted:\n            raise PGPError(\"This message is not encrypted!\")\n\n        for skesk in iter(", "        if not self.is_encrypted:\n            return self\n\n        for skesk in iter(", 'C04.5')
M('C04', 'msg-finally-break', PGP, "            else:\n                del passphrase\n                break\n\n        else:\n            raise PGPDecryptionError(\"Decryption failed\")\n\n        return decmsg", "            finally:\n                break\n\n        else:\n            raise PGPDecryptionError(\"Decryption failed\")\n\n        return decmsg", 'C04.5',
  more=[(PGP, "            except (TypeError, ValueError, NotImplementedError, PGPDecryptionError):\n                continue\n\n            finally", "            except (TypeError, ValueError, NotImplementedError, PGPDecryptionError):\n                decmsg = self\n\n            finally")])

# ----------------------------------------------------------------------------- C04.6
C04_KEY_BODY = """        if self.fingerprint.keyid not in message.encrypters:
            sks = set(self.subkeys)
            mis = set(message.encrypters)
            if sks & mis:
                skid = list(sks & mis)[0]
                return self.subkeys[skid].decrypt(message)

            raise PGPError("Cannot decrypt the provided message with this key")

        pkesk = next(pk for pk in message._sessionkeys if isinstance(pk, PKESessionKey)
                     and pk.pkalg == self.key_algorithm and pk.encrypter == self.fingerprint.keyid)
        alg, key = pkesk.decrypt_sk(self._key)

        # now that we have the symmetric cipher used and the key, we can decrypt the actual message
        decmsg = PGPMessage()
        decmsg.parse(message.message.decrypt(key, alg))

        return decmsg
"""
T('C04', 'twin-key-mine-first', PGP, C04_KEY_BODY, """        mine = self.fingerprint.keyid
        if mine in message.encrypters:
            for candidate in message._sessionkeys:
                if isinstance(candidate, PKESessionKey) and candidate.encrypter == mine and self.key_algorithm == candidate.pkalg:
                    break
            else:
                raise PGPError("Cannot decrypt the provided message with this key")

            cipher, sessionkey = candidate.decrypt_sk(pk=self._key)
            plain = PGPMessage()
            plain.parse(message.message.decrypt(alg=cipher, key=sessionkey))
            return plain

        shared = set(self.subkeys).intersection(message.encrypters)
        if len(shared) > 0:
            return self.subkeys[next(iter(shared))].decrypt(message)

        raise PGPError("Cannot decrypt the provided message with this key")
""")
T('C04', 'twin-key-delegate-loop', PGP, "            if sks & mis:\n                skid = list(sks & mis)[0]\n                return self.subkeys[skid].decrypt(message)\n", "            for skid in sks & mis:\n                return self.subkeys[skid].decrypt(message)\n")
T('C04', 'twin-key-isdisjoint', PGP, "            if sks & mis:\n                skid = list(sks & mis)[0]\n                return self.subkeys[skid].decrypt(message)\n\n            raise PGPError(\"Cannot decrypt the provided message with this key\")\n",
  "            if sks.isdisjoint(mis):\n                raise PGPError(\"Cannot decrypt the provided message with this key\")\n\n            skid = sorted(sks & mis)[0]\n            return self.subkeys[skid].decrypt(message)\n")
T('C04', 'twin-key-listcomp-common', PGP, "            sks = set(self.subkeys)\n            mis = set(message.encrypters)\n            if sks & mis:\n                skid = list(sks & mis)[0]\n                return self.subkeys[skid].decrypt(message)\n",
  "            common = [kid for kid in self.subkeys if kid in message.encrypters]\n            if common:\n                return self.subkeys[common[0]].decrypt(message)\n")
T('C04', 'twin-key-listcomp-select', PGP, "        pkesk = next(pk for pk in message._sessionkeys if isinstance(pk, PKESessionKey)\n                     and pk.pkalg == self.key_algorithm and pk.encrypter == self.fingerprint.keyid)\n        alg, key = pkesk.decrypt_sk(self._key)",
  "        matching = [p for p in message._sessionkeys if isinstance(p, PKESessionKey) if self.fingerprint.keyid == p.encrypter and p.pkalg == self.key_algorithm]\n        alg, key = matching[0].decrypt_sk(self._key)")
T('C04', 'twin-key-nested-filters', PGP, "        pkesk = next(pk for pk in message._sessionkeys if isinstance(pk, PKESessionKey)\n                     and pk.pkalg == self.key_algorithm and pk.encrypter == self.fingerprint.keyid)\n",
  "        pkesks = (pk for pk in message._sessionkeys if isinstance(pk, PKESessionKey))\n        pkesk = next(pk for pk in pkesks if pk.pkalg == self.key_algorithm and pk.encrypter == self.fingerprint.keyid)\n")
M('C04', 'key-delegate-any-subkey', PGP, "                skid = list(sks & mis)[0]", "                skid = list(sks)[0]", 'C04.6')
M('C04', 'key-delegate-union', PGP, "            if sks & mis:\n                skid = list(sks & mis)[0]", "            if sks | mis:\n                skid = list(sks | mis)[0]", 'C04.6')
M('C04', 'key-subkey-test-dropped', PGP, "            if sks & mis:\n", "            if sks:\n", 'C04.6')
M('C04', 'key-selection-or', PGP, "                     and pk.pkalg == self.key_algorithm and pk.encrypter == self.fingerprint.keyid)", "                     and (pk.pkalg == self.key_algorithm or pk.encrypter == self.fingerprint.keyid))", 'C04.6')
M('C04', 'key-selection-no-isinstance', PGP, "        pkesk = next(pk for pk in message._sessionkeys if isinstance(pk, PKESessionKey)\n                     and pk.pkalg", "        pkesk = next(pk for pk in message._sessionkeys if pk.pkalg", 'C04.6')
M('C04', 'key-loop-select-no-else', PGP, C04_KEY_BODY, """        mine = self.fingerprint.keyid
        if mine in message.encrypters:
            for candidate in message._sessionkeys:
                if isinstance(candidate, PKESessionKey) and candidate.encrypter == mine and self.key_algorithm == candidate.pkalg:
                    break

            cipher, sessionkey = candidate.decrypt_sk(pk=self._key)
            plain = PGPMessage()
            plain.parse(message.message.decrypt(alg=cipher, key=sessionkey))
            return plain

        shared = set(self.subkeys).intersection(message.encrypters)
        if len(shared) > 0:
            return self.subkeys[next(iter(shared))].decrypt(message)

        raise PGPError("Cannot decrypt the provided message with this key")
""", 'C04.6')
M('C04', 'key-fallthrough-own', PGP, "                return self.subkeys[skid].decrypt(message)\n\n            raise PGPError(\"Cannot decrypt the provided message with this key\")\n", "                return self.subkeys[skid].decrypt(message)\n", 'C04.6')
T('C04', 'twin-seipd-helper-const', PK, """        _expected_mdcbytes = b'\\xd3\\x14' + hashlib.new('SHA1', pt[:-20]).digest()
        if not constant_time.bytes_eq(bytes(pt[-22:]), _expected_mdcbytes):
            raise PGPDecryptionError("Decryption failed")  # pragma: no cover

        iv = bytes(pt[:alg.block_size // 8])""", """        self._verify_mdc(pt)

        iv = bytes(pt[:alg.block_size // 8])""",
  more=[(PK, "class MDC(Packet):\n    \"\"\"\n    5.14.", "    _MDC_PREFIX = b'\\xd3\\x14'\n    _SHA1_LEN = 20\n\n    def _verify_mdc(self, plaintext):\n        trailer_len = len(self._MDC_PREFIX) + self._SHA1_LEN\n        expected = self._MDC_PREFIX + hashlib.new('SHA1', plaintext[:-self._SHA1_LEN]).digest()\n        if not constant_time.bytes_eq(bytes(plaintext[-trailer_len:]), expected):\n            raise PGPDecryptionError(\"Decryption failed\")\n\n\nclass MDC(Packet):\n    \"\"\"\n    5.14.")])
T('C04', 'twin-pkesk-helper-shift', PK, "        if not sum(symkey) % 65536 == checksum:  # pragma: no cover", "        if self._checksum16(symkey) != checksum:  # pragma: no cover",
  more=[(PK, "    def encrypt_sk(self, pk, symalg, symkey):\n        m = bytearray(self.int_to_bytes(symalg) + symkey)", "    @staticmethod\n    def _checksum16(octets):\n        return sum(octets) % (1 << 16)\n\n    def encrypt_sk(self, pk, symalg, symkey):\n        m = bytearray(self.int_to_bytes(symalg) + symkey)")])
T('C04', 'twin-msg-closure', PGP, """            try:
                symalg, key = skesk.decrypt_sk(passphrase)
                decmsg = PGPMessage()
                decmsg.parse(self.message.decrypt(key, symalg))

            except (TypeError, ValueError, NotImplementedError, PGPDecryptionError):
                continue
""", """            try:
                decmsg = attempt(skesk)

            except (TypeError, ValueError, NotImplementedError, PGPDecryptionError):
                continue
""", more=[(PGP, "        for skesk in iter(sk for sk in self._sessionkeys if isinstance(sk, SKESessionKey)):", "        def attempt(packet):\n            symalg, key = packet.decrypt_sk(passphrase)\n            out = PGPMessage()\n            out.parse(self.message.decrypt(key, symalg))\n            return out\n\n        for skesk in iter(sk for sk in self._sessionkeys if isinstance(sk, SKESessionKey)):")])
T('C04', 'twin-key-helper-select', PGP, """        pkesk = next(pk for pk in message._sessionkeys if isinstance(pk, PKESessionKey)
                     and pk.pkalg == self.key_algorithm and pk.encrypter == self.fingerprint.keyid)
""", """        pkesk = self._own_session_key_packet(message)
""", more=[(PGP, "    @KeyAction(is_unlocked=True, is_public=False)\n    def decrypt(self, message):", "    def _own_session_key_packet(self, msg):\n        for packet in msg._sessionkeys:\n            if not isinstance(packet, PKESessionKey):\n                continue\n            if packet.pkalg != self.key_algorithm or packet.encrypter != self.fingerprint.keyid:\n                continue\n            return packet\n        raise StopIteration()\n\n    @KeyAction(is_unlocked=True, is_public=False)\n    def decrypt(self, message):")])
T('C04', 'twin-key-helper-recipient', PGP, """        if self.fingerprint.keyid not in message.encrypters:
            sks = set(self.subkeys)
            mis = set(message.encrypters)
            if sks & mis:
                skid = list(sks & mis)[0]
                return self.subkeys[skid].decrypt(message)

            raise PGPError("Cannot decrypt the provided message with this key")
""", """        if not self._is_recipient(message):
            addressed = self._recipient_subkeys(message)
            if not addressed:
                raise PGPError("Cannot decrypt the provided message with this key")
            return self.subkeys[addressed.pop()].decrypt(message)
""", more=[(PGP, "    @KeyAction(is_unlocked=True, is_public=False)\n    def decrypt(self, message):", "    def _is_recipient(self, msg):\n        return self.fingerprint.keyid in msg.encrypters\n\n    def _recipient_subkeys(self, msg):\n        return set(self.subkeys) & set(msg.encrypters)\n\n    @KeyAction(is_unlocked=True, is_public=False)\n    def decrypt(self, message):")])
T('C04', 'twin-ecdh-const-helper', FL, """        padder = PKCS7(64).unpadder()
        return padder.update(_m) + padder.finalize()
""", """        return self._pkcs5_unpad(_m)

    _PKCS5_BLOCK_BITS = 8 * 8

    def _pkcs5_unpad(self, padded):
        unpadder = PKCS7(self._PKCS5_BLOCK_BITS).unpadder()
        data = unpadder.update(padded)
        data += unpadder.finalize()
        return data
""")
T('C04', 'twin-keyblob-helpers', FL, """        if self.s2k.usage == 254 and not pt[-20:] == hashlib.new('sha1', pt[:-20]).digest():
            # if the usage byte is 254, key material is followed by a 20-octet sha-1 hash of the rest
            # of the key material block
            raise PGPDecryptionError("Passphrase was incorrect!")

        if self.s2k.usage == 255 and not self.bytes_to_int(pt[-2:]) == (sum(bytearray(pt[:-2])) % 65536):  # pragma: no cover
            # if the usage byte is 255, key material is followed by a 2-octet checksum of the rest
            # of the key material block
            raise PGPDecryptionError("Passphrase was incorrect!")
""", """        if not self._keyblob_intact(pt):
            raise PGPDecryptionError("Passphrase was incorrect!")
""", more=[(FL, "    def decrypt_keyblob(self, passphrase):\n        if not self.s2k:  # pragma: no cover", "    def _keyblob_intact(self, material):\n        if self.s2k.usage == 254:\n            return material[-20:] == hashlib.new('sha1', material[:-20]).digest()\n        if self.s2k.usage == 255:\n            return self.bytes_to_int(material[-2:]) == sum(bytearray(material[:-2])) % 65536\n        return True\n\n    def decrypt_keyblob(self, passphrase):\n        if not self.s2k:  # pragma: no cover")])
M('C04', 'keyblob-helper-default-true', FL, """        if self.s2k.usage == 254 and not pt[-20:] == hashlib.new('sha1', pt[:-20]).digest():
            # if the usage byte is 254, key material is followed by a 20-octet sha-1 hash of the rest
            # of the key material block
            raise PGPDecryptionError("Passphrase was incorrect!")

        if self.s2k.usage == 255 and not self.bytes_to_int(pt[-2:]) == (sum(bytearray(pt[:-2])) % 65536):  # pragma: no cover
            # if the usage byte is 255, key material is followed by a 2-octet checksum of the rest
            # of the key material block
            raise PGPDecryptionError("Passphrase was incorrect!")
""", """        if not self._keyblob_intact(pt):
            raise PGPDecryptionError("Passphrase was incorrect!")
""", 'C04.4', more=[(FL, "    def decrypt_keyblob(self, passphrase):\n        if not self.s2k:  # pragma: no cover", "    def _keyblob_intact(self, material):\n        if self.s2k.usage == 254:\n            return material[-20:] == hashlib.new('sha1', material[:-20]).digest()\n        if self.s2k.usage == 253:\n            return self.bytes_to_int(material[-2:]) == sum(bytearray(material[:-2])) % 65536\n        return True\n\n    def decrypt_keyblob(self, passphrase):\n        if not self.s2k:  # pragma: no cover")])
M('C04', 'seipd-helper-returns-bool-ignored', PK, """        _expected_mdcbytes = b'\\xd3\\x14' + hashlib.new('SHA1', pt[:-20]).digest()
        if not constant_time.bytes_eq(bytes(pt[-22:]), _expected_mdcbytes):
            raise PGPDecryptionError("Decryption failed")  # pragma: no cover

        iv = bytes(pt[:alg.block_size // 8])""", """        self._verify_mdc(pt)

        iv = bytes(pt[:alg.block_size // 8])""", 'C04.1',
  more=[(PK, "class MDC(Packet):\n    \"\"\"\n    5.14.", "    def _verify_mdc(self, plaintext):\n        expected = b'\\xd3\\x14' + hashlib.new('SHA1', plaintext[:-20]).digest()\n        return constant_time.bytes_eq(bytes(plaintext[-22:]), expected)\n\n\nclass MDC(Packet):\n    \"\"\"\n    5.14.")])
# mirrors of the independent twins (C04-ref3, C03-ref3, C04-ref4)
T('C04', 'twin-msg-ref3-helper-sentinel', PGP, C04_MSG_LOOP, """        decmsg = None
        candidates = [sk for sk in self._sessionkeys if isinstance(sk, SKESessionKey)]
        for skesk in candidates:
            try:
                decmsg = self._decrypt_with_skesk(skesk, passphrase)

            except self._skesk_mismatch_errors:
                continue

            break

        if decmsg is None:
            raise PGPDecryptionError("Decryption failed")

        del passphrase
        return decmsg

    _skesk_mismatch_errors = (TypeError, ValueError, NotImplementedError, PGPDecryptionError)

    def _decrypt_with_skesk(self, skesk, passphrase):
        symalg, key = skesk.decrypt_sk(passphrase)
        decmsg = PGPMessage()
        decmsg.parse(self.message.decrypt(key, symalg))
        return decmsg
""")
T('C04', 'twin-msg-ref3-continue-filter', PGP, "        for skesk in iter(sk for sk in self._sessionkeys if isinstance(sk, SKESessionKey)):\n            try:", "        for skesk in self._sessionkeys:\n            if not isinstance(skesk, SKESessionKey):\n                continue\n\n            try:")
T('C04', 'twin-key-ref4-guard-clause', PGP, "            if sks & mis:\n                skid = list(sks & mis)[0]\n                return self.subkeys[skid].decrypt(message)\n\n            raise PGPError(\"Cannot decrypt the provided message with this key\")\n",
  "            shared = sks & mis\n            if not shared:\n                raise PGPError(\"Cannot decrypt the provided message with this key\")\n\n            skid = list(shared)[0]\n            return self.subkeys[skid].decrypt(message)\n",
  more=[(PGP, "        decmsg.parse(message.message.decrypt(key, alg))", "        decmsg.parse(message.message.decrypt(key=key, alg=alg))")])
T('C04', 'twin-key-ref3-common-once', PGP, "            sks = set(self.subkeys)\n            mis = set(message.encrypters)\n            if sks & mis:\n                skid = list(sks & mis)[0]", "            common = set(self.subkeys) & set(message.encrypters)\n            if common:\n                skid = list(common)[0]")
T('C04', 'twin-ecdh-ref4-branches-swapped', FL, """        if km.oid == EllipticCurveOID.Curve25519:
            v = x25519.X25519PublicKey.from_public_bytes(self.p.x)
            s = km.__privkey__().exchange(v)
        else:
            # assemble the public component of ephemeral key v
            v = ec.EllipticCurvePublicNumbers(self.p.x, self.p.y, km.oid.curve()).public_key(default_backend())
            # compute s using the inverse of how it was derived during encryption
            s = km.__privkey__().exchange(ec.ECDH(), v)

        # derive the wrapping key
        z = km.kdf.derive_key(s, km.oid, PubKeyAlgorithm.ECDH, pk.fingerprint)

        # unwrap and unpad m
        _m = aes_key_unwrap(z, self.c, default_backend())

        padder = PKCS7(64).unpadder()
        return padder.update(_m) + padder.finalize()
""", """        if km.oid != EllipticCurveOID.Curve25519:
            ephemeral_numbers = ec.EllipticCurvePublicNumbers(self.p.x, self.p.y, km.oid.curve())
            ephemeral_pub = ephemeral_numbers.public_key(default_backend())
            shared_secret = km.__privkey__().exchange(ec.ECDH(), ephemeral_pub)
        else:
            ephemeral_pub = x25519.X25519PublicKey.from_public_bytes(self.p.x)
            shared_secret = km.__privkey__().exchange(ephemeral_pub)

        kek = km.kdf.derive_key(shared_secret, km.oid, PubKeyAlgorithm.ECDH, pk.fingerprint)
        padded_m = aes_key_unwrap(wrapping_key=kek, wrapped_key=self.c, backend=default_backend())

        unpadder = PKCS7(64).unpadder()
        m = unpadder.update(padded_m)
        m += unpadder.finalize()
        return m
""")
M('C04', 'msg-ref3-helper-swallows', PGP, C04_MSG_LOOP, """        decmsg = None
        candidates = [sk for sk in self._sessionkeys if isinstance(sk, SKESessionKey)]
        for skesk in candidates:
            try:
                decmsg = self._decrypt_with_skesk(skesk, passphrase)

            except self._skesk_mismatch_errors:
                continue

            break

        if decmsg is None:
            raise PGPDecryptionError("Decryption failed")

        del passphrase
        return decmsg

    _skesk_mismatch_errors = (TypeError, ValueError, NotImplementedError, PGPDecryptionError)

    def _decrypt_with_skesk(self, skesk, passphrase):
        symalg, key = skesk.decrypt_sk(passphrase)
        decmsg = PGPMessage()
        try:
            decmsg.parse(self.message.decrypt(key, symalg))
        except PGPDecryptionError:
            pass
        return decmsg
""", 'C04.5')
M('C04', 'key-helper-select-loose', PGP, """        pkesk = next(pk for pk in message._sessionkeys if isinstance(pk, PKESessionKey)
                     and pk.pkalg == self.key_algorithm and pk.encrypter == self.fingerprint.keyid)
""", """        pkesk = self._own_session_key_packet(message)
""", 'C04.6', more=[(PGP, "    @KeyAction(is_unlocked=True, is_public=False)\n    def decrypt(self, message):", "    def _own_session_key_packet(self, msg):\n        for packet in msg._sessionkeys:\n            if not isinstance(packet, PKESessionKey):\n                continue\n            if packet.pkalg != self.key_algorithm and packet.encrypter != self.fingerprint.keyid:\n                continue\n            return packet\n        raise StopIteration()\n\n    @KeyAction(is_unlocked=True, is_public=False)\n    def decrypt(self, message):")])
T('C04', 'twin-msg-two-tries-errors', PGP, C04_MSG_LOOP, """        failures = []
        packets = self._sessionkeys
        if not packets:
            raise PGPDecryptionError("Decryption failed")

        for skesk in packets:
            if not isinstance(skesk, SKESessionKey):
                continue

            try:
                symalg, key = skesk.decrypt_sk(passphrase)
            except (TypeError, ValueError, NotImplementedError, PGPDecryptionError) as exc:
                failures.append(exc)
                continue

            decmsg = PGPMessage()
            try:
                decmsg.parse(self.message.decrypt(key, symalg))
            except (TypeError, ValueError, NotImplementedError, PGPDecryptionError) as exc:
                failures.append(exc)
                continue

            del passphrase
            return decmsg

        raise PGPDecryptionError("Decryption failed")
""")
M('C04', 'msg-two-tries-second-passes', PGP, C04_MSG_LOOP, """        failures = []
        for skesk in self._sessionkeys:
            if not isinstance(skesk, SKESessionKey):
                continue

            try:
                symalg, key = skesk.decrypt_sk(passphrase)
            except (TypeError, ValueError, NotImplementedError, PGPDecryptionError) as exc:
                failures.append(exc)
                continue

            decmsg = PGPMessage()
            try:
                decmsg.parse(self.message.decrypt(key, symalg))
            except (TypeError, ValueError, NotImplementedError, PGPDecryptionError) as exc:
                failures.append(exc)

            del passphrase
            return decmsg

        raise PGPDecryptionError("Decryption failed")
""", 'C04.5')
T('C04', 'twin-key-next-default', PGP, """        pkesk = next(pk for pk in message._sessionkeys if isinstance(pk, PKESessionKey)
                     and pk.pkalg == self.key_algorithm and pk.encrypter == self.fingerprint.keyid)
""", """        keyid = self.fingerprint.keyid
        pkesk = next((pk for pk in message._sessionkeys
                      if isinstance(pk, PKESessionKey) and pk.pkalg == self.key_algorithm and pk.encrypter == keyid), None)
        if pkesk is None:
            raise PGPError("Cannot decrypt the provided message with this key")
""")
T('C04', 'twin-key-try-stopiteration', PGP, """        pkesk = next(pk for pk in message._sessionkeys if isinstance(pk, PKESessionKey)
                     and pk.pkalg == self.key_algorithm and pk.encrypter == self.fingerprint.keyid)
""", """        try:
            pkesk = next(pk for pk in message._sessionkeys if isinstance(pk, PKESessionKey)
                         and pk.pkalg == self.key_algorithm and pk.encrypter == self.fingerprint.keyid)
        except StopIteration:
            raise PGPError("Cannot decrypt the provided message with this key")
""")
T('C04', 'twin-key-elif-aliases', PGP, """        if self.fingerprint.keyid not in message.encrypters:
            sks = set(self.subkeys)
            mis = set(message.encrypters)
            if sks & mis:
                skid = list(sks & mis)[0]
                return self.subkeys[skid].decrypt(message)

            raise PGPError("Cannot decrypt the provided message with this key")
""", """        recipients = message.encrypters
        mine = self.fingerprint.keyid in recipients
        theirs = set(self._children) & set(recipients)
        if not mine and theirs:
            subkey = self._children[min(theirs)]
            return subkey.decrypt(message)

        elif not mine:
            raise PGPError("Cannot decrypt the provided message with this key")
""")
M('C04', 'key-elif-or', PGP, """        if self.fingerprint.keyid not in message.encrypters:
            sks = set(self.subkeys)
            mis = set(message.encrypters)
            if sks & mis:
                skid = list(sks & mis)[0]
                return self.subkeys[skid].decrypt(message)

            raise PGPError("Cannot decrypt the provided message with this key")
""", """        recipients = message.encrypters
        mine = self.fingerprint.keyid in recipients
        theirs = set(self._children) & set(recipients)
        if not mine and theirs:
            subkey = self._children[min(theirs)]
            return subkey.decrypt(message)

        elif not mine and not self._children:
            raise PGPError("Cannot decrypt the provided message with this key")
""", 'C04.6')
T('C04', 'twin-keyblob-derive-kw', FL, "        sessionkey = self.s2k.derive_key(passphrase)\n        del passphrase\n\n        # attempt to decrypt this key", "        sessionkey = self.s2k.derive_key(passphrase=passphrase)\n        del passphrase\n\n        # attempt to decrypt this key")
T('C04', 'twin-pkesk-sum-loop', PK, "        if not sum(symkey) % 65536 == checksum:  # pragma: no cover", "        total = 0\n        for octet in symkey:\n            total += octet\n\n        if total % 65536 != checksum:  # pragma: no cover")
# wave-2 twin families (C04-ref6: static in-place helpers; C06-ref5: flag variable for the key blob trailer)
T('C04', 'twin-seipd-w2-static-helpers', PK, C04_SEIPD, """        pt = _decrypt(bytes(self.ct), bytes(key), alg)

        self._check_mdc(pt)
        self._strip_prefix(pt, alg)

        return pt

    @staticmethod
    def _check_mdc(pt):
        mdc_body = hashlib.sha1(pt[:-20]).digest()
        if not constant_time.bytes_eq(bytes(pt[-22:]), b'\\xd3\\x14' + mdc_body):
            raise PGPDecryptionError("Decryption failed")  # pragma: no cover

    @staticmethod
    def _strip_prefix(pt, alg):
        bs = alg.block_size // 8
        iv = bytes(pt[:bs])
        ivl2 = bytes(pt[bs:bs + 2])
        del pt[:bs + 2]

        if not constant_time.bytes_eq(iv[-2:], ivl2):
            raise PGPDecryptionError("Decryption failed")  # pragma: no cover
""")
M('C04', 'seipd-w2-helper-mdc-only-if-present', PK, C04_SEIPD, """        pt = _decrypt(bytes(self.ct), bytes(key), alg)

        self._check_mdc(pt)
        self._strip_prefix(pt, alg)

        return pt

    @staticmethod
    def _check_mdc(pt):
        mdc_body = hashlib.sha1(pt[:-20]).digest()
        if bytes(pt[-22:-20]) == b'\\xd3\\x14' and not constant_time.bytes_eq(bytes(pt[-20:]), mdc_body):
            raise PGPDecryptionError("Decryption failed")  # pragma: no cover

    @staticmethod
    def _strip_prefix(pt, alg):
        bs = alg.block_size // 8
        iv = bytes(pt[:bs])
        ivl2 = bytes(pt[bs:bs + 2])
        del pt[:bs + 2]

        if not constant_time.bytes_eq(iv[-2:], ivl2):
            raise PGPDecryptionError("Decryption failed")  # pragma: no cover
""", 'C04.1')
T('C04', 'twin-keyblob-w2-intact-flag', FL, C04_KB, """        usage = self.s2k.usage
        if usage == 254:
            intact = hashlib.new('sha1', pt[:-20]).digest() == pt[-20:]

        elif usage == 255:  # pragma: no cover
            intact = sum(bytearray(pt[:-2])) % 65536 == int.from_bytes(pt[-2:], 'big')

        else:  # pragma: no cover
            intact = True

        if not intact:
            raise PGPDecryptionError("Passphrase was incorrect!")

        return bytearray(pt)
""")
M('C04', 'keyblob-w2-intact-flag-inverted', FL, C04_KB, """        usage = self.s2k.usage
        if usage == 254:
            intact = hashlib.new('sha1', pt[:-20]).digest() == pt[-20:]

        elif usage == 255:  # pragma: no cover
            intact = sum(bytearray(pt[:-2])) % 65536 != int.from_bytes(pt[-2:], 'big')

        else:  # pragma: no cover
            intact = True

        if not intact:
            raise PGPDecryptionError("Passphrase was incorrect!")

        return bytearray(pt)
""", 'C04.4')
M('C04', 'pkesk-checksum-skipped-when-zero', PK, C04_PKSK, """        cipher = SymmetricKeyAlgorithm(m[0])
        klen = cipher.key_size // 8
        sessionkey = m[1:1 + klen]
        expected = int.from_bytes(m[1 + klen:3 + klen], 'big')
        if expected and (sum(sessionkey) & 0xFFFF) != expected:
            raise PGPDecryptionError("{:s} decryption failed".format(self.pkalg.name))
        return cipher, sessionkey
""", 'C04.3')
M('C04', 'pkesk-checksum-low-octet', PK, "        checksum = self.bytes_to_int(m[:2])\n        del m[:2]\n\n        if not sum(symkey) % 65536 == checksum:", "        checksum = self.bytes_to_int(m[1:2])\n        del m[:2]\n\n        if not sum(symkey) % 256 == checksum:", 'C04.3')
M('C04', 'pkesk-sum-loop-mod-256', PK, "        if not sum(symkey) % 65536 == checksum:  # pragma: no cover", "        total = 0\n        for octet in symkey:\n            total += octet\n\n        if total % 256 != checksum % 256:  # pragma: no cover", 'C04.3')
M('C04', 'keyblob-nested-255-no-raise', FL, C04_KB, """        usage = self.s2k.usage
        if usage == 254:
            body, digest = pt[:-20], pt[-20:]
            if digest != hashlib.sha1(body).digest():
                raise PGPDecryptionError("Passphrase was incorrect!")

        elif usage == 255:
            if self.bytes_to_int(pt[-2:]) != sum(bytearray(pt[:-2])) % 65536:
                warnings.warn("Passphrase was incorrect!")

        return bytearray(pt)
""", 'C04.4')
M('C04', 'ecdh-unpad-manual', FL, C04_ECD, """        return _m[:-_m[-1]]
""", 'C04.7')
M('C04', 'key-selection-alg-only-when-set', PGP, "                     and pk.pkalg == self.key_algorithm and pk.encrypter == self.fingerprint.keyid)", "                     and pk.pkalg == self.key_algorithm and (not pk.encrypter or pk.encrypter == self.fingerprint.keyid))", 'C04.6')
M('C04', 'msg-filter-hasattr', PGP, "        for skesk in iter(sk for sk in self._sessionkeys if isinstance(sk, SKESessionKey)):", "        for skesk in iter(sk for sk in self._sessionkeys if hasattr(sk, 'decrypt_sk')):", 'C04.5')
# ---- follow-up: C04.8 (message composition) and further mutant kinds (connectives, home-grown compare, store before check, widened handler, leniency flags)
C04_OR_DATA = """        if isinstance(other, (LiteralData, SKEData, IntegrityProtectedSKEData)):
            if self._message is None:
                self._message = other
                return self

"""
T('C04', 'twin-or-explicit-duplicate-raise', PGP, C04_OR_DATA, """        if isinstance(other, (LiteralData, SKEData, IntegrityProtectedSKEData)):
            if self._message is not None:
                raise NotImplementedError("second data packet: " + str(type(other)))
            self._message = other
            return self

""")
T('C04', 'twin-or-combined-condition', PGP, C04_OR_DATA, """        is_data = isinstance(other, LiteralData) or isinstance(other, SKEData) or isinstance(other, IntegrityProtectedSKEData)
        if is_data and self._message is None:
            self._message = other
            return self

""")
M('C04', 'or-second-data-packet-dropped', PGP, C04_OR_DATA, """        if isinstance(other, (LiteralData, SKEData, IntegrityProtectedSKEData)):
            if self._message is None:
                self._message = other
                return self

            warnings.warn("Discarded unexpected packet: {:s}".format(other.__class__.__name__), stacklevel=2)
            return self

""", 'C04.8')
M('C04', 'or-last-data-packet-wins', PGP, C04_OR_DATA, """        if isinstance(other, (LiteralData, SKEData, IntegrityProtectedSKEData)):
            self._message = other
            return self

""", 'C04.8')
M('C04', 'or-literal-after-encrypted-tolerated', PGP, C04_OR_DATA, """        if isinstance(other, (LiteralData, SKEData, IntegrityProtectedSKEData)):
            if self._message is None:
                self._message = other
                return self

            if isinstance(other, LiteralData):
                return self

""", 'C04.8')
M('C04', 'or-text-overwrites', PGP, "        if isinstance(other, (str, bytes, bytearray)):\n            if self._message is None:\n                self._message = self.text_to_bytes(other)\n                return self\n", "        if isinstance(other, (str, bytes, bytearray)):\n            self._message = self.text_to_bytes(other)\n            return self\n", 'C04.8')

# ---- further mutant kinds
M('C04', 'seipd-not-a-or-b', PK, C04_SEIPD, """        pt = _decrypt(bytes(self.ct), bytes(key), alg)
        bs = alg.block_size // 8
        mdc_ok = constant_time.bytes_eq(bytes(pt[-22:]), b'\\xd3\\x14' + hashlib.new('SHA1', pt[:-20]).digest())
        prefix_ok = constant_time.bytes_eq(bytes(pt[bs - 2:bs]), bytes(pt[bs:bs + 2]))
        if not (mdc_ok or prefix_ok):
            raise PGPDecryptionError("Decryption failed")
        return pt[bs + 2:]
""", 'C04.1')
M('C04', 'keyblob-usage-or-trailer', FL, "        if self.s2k.usage == 254 and not pt[-20:] == hashlib.new('sha1', pt[:-20]).digest():", "        if not (self.s2k.usage == 254 or pt[-20:] == hashlib.new('sha1', pt[:-20]).digest()):", 'C04.4')
M('C04', 'seipd-homegrown-compare-assign', PK, "        if not constant_time.bytes_eq(bytes(pt[-22:]), _expected_mdcbytes):\n            raise PGPDecryptionError(\"Decryption failed\")  # pragma: no cover\n",
  "        diff = 0\n        for x, y in zip(bytes(pt[-22:]), _expected_mdcbytes):\n            diff = x ^ y\n        if diff != 0:\n            raise PGPDecryptionError(\"Decryption failed\")  # pragma: no cover\n", 'C04.1')
M('C04', 'keyblob-stored-before-check', FL, "        # check the hash to see if we decrypted successfully or not\n        if self.s2k.usage == 254", "        self._cleartext = bytearray(pt)\n\n        # check the hash to see if we decrypted successfully or not\n        if self.s2k.usage == 254", 'C04.4')
M('C04', 'keyblob-usage-cleared-early', FL, "        # check the hash to see if we decrypted successfully or not\n        if self.s2k.usage == 254", "        usage, self.s2k.usage = self.s2k.usage, 0\n\n        # check the hash to see if we decrypted successfully or not\n        if self.s2k.usage == 254", 'C04.4')
M('C04', 'seipd-stored-before-check', PK, "        pt = _decrypt(bytes(self.ct), bytes(key), alg)\n\n        # do the MDC checks", "        pt = _decrypt(bytes(self.ct), bytes(key), alg)\n        self._plaintext = pt[:]\n\n        # do the MDC checks", 'C04.1')
M('C04', 'key-outer-handler-swallows', PGP, "        decmsg = PGPMessage()\n        decmsg.parse(message.message.decrypt(key, alg))\n\n        return decmsg\n\n    def parse(self, data):", "        decmsg = PGPMessage()\n        try:\n            decmsg.parse(message.message.decrypt(key, alg))\n        except PGPError as exc:\n            warnings.warn(str(exc))\n\n        return decmsg\n\n    def parse(self, data):", 'C04.6')
M('C04', 'msg-handler-widened-around-loop', PGP, C04_MSG_LOOP, """        decmsg = PGPMessage()
        try:
            for skesk in iter(sk for sk in self._sessionkeys if isinstance(sk, SKESessionKey)):
                symalg, key = skesk.decrypt_sk(passphrase)
                decmsg.parse(self.message.decrypt(key, symalg))
                break

            else:
                raise PGPDecryptionError("Decryption failed")

        except (TypeError, ValueError, NotImplementedError):
            raise PGPDecryptionError("Decryption failed")

        except PGPError:
            pass

        return decmsg
""", 'C04.5')
M('C04', 'seipd-lenient-default-true', PK, "    def decrypt(self, key, alg):\n        # iv, ivl2, pt = super(IntegrityProtectedSKEDataV1, self).decrypt(key, alg)", "    def decrypt(self, key, alg, lenient=True):\n        # iv, ivl2, pt = super(IntegrityProtectedSKEDataV1, self).decrypt(key, alg)", 'C04.1',
  more=[(PK, "        if not constant_time.bytes_eq(bytes(pt[-22:]), _expected_mdcbytes):\n            raise", "        if not constant_time.bytes_eq(bytes(pt[-22:]), _expected_mdcbytes) and not lenient:\n            raise")])
M('C04', 'seipd-strict-constant-false', PK, "        if not constant_time.bytes_eq(bytes(pt[-22:]), _expected_mdcbytes):\n            raise", "        if self._STRICT_MDC and not constant_time.bytes_eq(bytes(pt[-22:]), _expected_mdcbytes):\n            raise", 'C04.1',
  more=[(PK, "    def decrypt(self, key, alg):\n        # iv, ivl2, pt = super(IntegrityProtectedSKEDataV1, self).decrypt(key, alg)", "    _STRICT_MDC = False\n\n    def decrypt(self, key, alg):\n        # iv, ivl2, pt = super(IntegrityProtectedSKEDataV1, self).decrypt(key, alg)")])
M('C04', 'keyblob-verify-default-false', FL, "    def decrypt_keyblob(self, passphrase):\n        if not self.s2k:  # pragma: no cover", "    def decrypt_keyblob(self, passphrase, verify=False):\n        if not self.s2k:  # pragma: no cover", 'C04.4',
  more=[(FL, "        if self.s2k.usage == 254 and not pt[-20:] == hashlib.new('sha1', pt[:-20]).digest():", "        if verify and self.s2k.usage == 254 and not pt[-20:] == hashlib.new('sha1', pt[:-20]).digest():")])
M('C04', 'ecdh-strict-flag', FL, C04_ECD, """        padder = PKCS7(64).unpadder()
        data = padder.update(_m)
        if getattr(pk, 'strict_padding', False):
            data += padder.finalize()
        return data
""", 'C04.7')
# ---- follow-up 2: legacy SKEData prefix check (C04.2, second instance), passphrase -> key path (C04.9), warn-instead-of-raise, startswith compares
C04_SED = """        iv = bytes(pt_prefix[:block_size_bytes])
        del pt_prefix[:block_size_bytes]

        ivl2 = bytes(pt_prefix[:2])

        if not constant_time.bytes_eq(iv[-2:], ivl2):
            raise PGPDecryptionError("Decryption failed")

        pt = _decrypt(bytes(self.ct[block_size_bytes + 2:]), bytes(key), alg, iv=iv_resync)

        return pt
"""
C04_PASS = """        if isinstance(passphrase, bytes):
            hpass = passphrase
        else:
            hpass = passphrase.encode('utf-8')
"""
T('C04', 'twin-sed-offsets', PK, C04_SED, """        if pt_prefix[block_size_bytes - 2:block_size_bytes] != pt_prefix[block_size_bytes:block_size_bytes + 2]:
            raise PGPDecryptionError("Decryption failed")

        return _decrypt(bytes(self.ct[block_size_bytes + 2:]), bytes(key), alg, iv_resync)
""")
T('C04', 'twin-derive-key-str-first', FL, C04_PASS, """        if isinstance(passphrase, str):
            hpass = passphrase.encode('utf-8', 'strict')
        else:
            hpass = passphrase
""")
T('C04', 'twin-passphrase-layers-spelling', PK, "    def unprotect(self, passphrase):\n        self.keymaterial.decrypt_keyblob(passphrase)", "    def unprotect(self, passphrase):\n        km = self.keymaterial\n        km.decrypt_keyblob(passphrase=passphrase)",
  more=[(FL, "        kb = super(RSAPriv, self).decrypt_keyblob(passphrase)", "        kb = PrivKey.decrypt_keyblob(self, passphrase)")])
M('C04', 'sed-prefix-check-dropped', PK, C04_SED, """        del pt_prefix

        pt = _decrypt(bytes(self.ct[block_size_bytes + 2:]), bytes(key), alg, iv=iv_resync)

        return pt
""", 'C04.2')
M('C04', 'sed-prefix-check-warns', PK, "        if not constant_time.bytes_eq(iv[-2:], ivl2):\n            raise PGPDecryptionError(\"Decryption failed\")\n\n        pt = _decrypt(bytes(self.ct[block_size_bytes + 2:])", "        if not constant_time.bytes_eq(iv[-2:], ivl2):\n            warnings.warn(\"Decryption may have failed\")\n\n        pt = _decrypt(bytes(self.ct[block_size_bytes + 2:])", 'C04.2')
M('C04', 'sed-prefix-check-after-decrypt-kept', PK, C04_SED, """        iv = bytes(pt_prefix[:block_size_bytes])
        del pt_prefix[:block_size_bytes]

        ivl2 = bytes(pt_prefix[:2])

        self.pt = _decrypt(bytes(self.ct[block_size_bytes + 2:]), bytes(key), alg, iv=iv_resync)

        if not constant_time.bytes_eq(iv[-2:], ivl2):
            raise PGPDecryptionError("Decryption failed")

        return self.pt
""", 'C04.2')
M('C04', 'sed-prefix-one-octet', PK, "        ivl2 = bytes(pt_prefix[:2])\n\n        if not constant_time.bytes_eq(iv[-2:], ivl2):\n            raise PGPDecryptionError(\"Decryption failed\")\n\n        pt = _decrypt", "        ivl2 = bytes(pt_prefix[:1])\n\n        if not constant_time.bytes_eq(iv[-2:-1], ivl2):\n            raise PGPDecryptionError(\"Decryption failed\")\n\n        pt = _decrypt", 'C04.2')
M('C04', 'derive-key-encode-ignore', FL, "            hpass = passphrase.encode('utf-8')\n\n        # salted, iterated S2K", "            hpass = passphrase.encode('utf-8', 'ignore')\n\n        # salted, iterated S2K", 'C04.9')
M('C04', 'derive-key-latin1-replace', FL, "            hpass = passphrase.encode('utf-8')\n\n        # salted, iterated S2K", "            hpass = passphrase.encode('latin-1', errors='replace')\n\n        # salted, iterated S2K", 'C04.9')
M('C04', 'derive-key-strip', FL, "            hpass = passphrase.encode('utf-8')\n\n        # salted, iterated S2K", "            hpass = passphrase.strip().encode('utf-8')\n\n        # salted, iterated S2K", 'C04.9')
M('C04', 'derive-key-nfkc', FL, "            hpass = passphrase.encode('utf-8')\n\n        # salted, iterated S2K", "            import unicodedata\n            hpass = unicodedata.normalize('NFKC', passphrase).encode('utf-8')\n\n        # salted, iterated S2K", 'C04.9')
M('C04', 'skesk-passphrase-stripped', PK, "        sk = self.s2k.derive_key(passphrase)\n        del passphrase\n\n        # if there is no ciphertext", "        sk = self.s2k.derive_key(passphrase.strip())\n        del passphrase\n\n        # if there is no ciphertext", 'C04.9')
M('C04', 'unprotect-passphrase-coerced', PK, "    def unprotect(self, passphrase):\n        self.keymaterial.decrypt_keyblob(passphrase)", "    def unprotect(self, passphrase):\n        self.keymaterial.decrypt_keyblob(str(passphrase))", 'C04.9')
M('C04', 'rsa-keyblob-passphrase-truncated', FL, "        kb = super(RSAPriv, self).decrypt_keyblob(passphrase)", "        kb = super(RSAPriv, self).decrypt_keyblob(passphrase[:64])", 'C04.9')
M('C04', 'seipd-mdc-only-if-header', PK, "        if not constant_time.bytes_eq(bytes(pt[-22:]), _expected_mdcbytes):\n            raise PGPDecryptionError(\"Decryption failed\")  # pragma: no cover\n", "        if bytes(pt[-22:-20]) == b'\\xd3\\x14' and not constant_time.bytes_eq(bytes(pt[-22:]), _expected_mdcbytes):\n            raise PGPDecryptionError(\"Decryption failed\")  # pragma: no cover\n", 'C04.1')
M('C04', 'ivcheck-warns', PK, "        if not constant_time.bytes_eq(iv[-2:], ivl2):\n            raise PGPDecryptionError(\"Decryption failed\")  # pragma: no cover\n\n        return pt", "        if not constant_time.bytes_eq(iv[-2:], ivl2):\n            warnings.warn(\"Decryption may have failed\")  # pragma: no cover\n\n        return pt", 'C04.2')
M('C04', 'keyblob-sha1-warns', FL, "            # of the key material block\n            raise PGPDecryptionError(\"Passphrase was incorrect!\")\n\n        if self.s2k.usage == 255", "            # of the key material block\n            warnings.warn(\"Passphrase may be incorrect!\")\n\n        if self.s2k.usage == 255", 'C04.4')
M('C04', 'seipd-mdc-startswith', PK, "        if not constant_time.bytes_eq(bytes(pt[-22:]), _expected_mdcbytes):\n            raise", "        if not _expected_mdcbytes.startswith(bytes(pt[-22:-1])):\n            raise", 'C04.1')
M('C04', 'keyblob-sha1-startswith', FL, "        if self.s2k.usage == 254 and not pt[-20:] == hashlib.new('sha1', pt[:-20]).digest():", "        if self.s2k.usage == 254 and not hashlib.new('sha1', pt[:-20]).digest().startswith(bytes(pt[-20:-16])):", 'C04.4')
# ---- wave-4 additive twin (C04-ref11): class constants defined from each other + classmethod helper for the expected MDC trailer
C04_MDC_CONSTS = "    _MDC_HEADER = b'\\xd3\\x14'\n    _MDC_DIGEST_LEN = 20\n    _MDC_TRAILER_LEN = len(_MDC_HEADER) + _MDC_DIGEST_LEN\n\n    @classmethod\n    def _expected_mdc_trailer(cls, hashed):\n        return cls._MDC_HEADER + hashlib.new('SHA1', hashed).digest()\n\n    def decrypt(self, key, alg):\n        # iv, ivl2, pt = super(IntegrityProtectedSKEDataV1, self).decrypt(key, alg)"
T('C04', 'twin-seipd-w4-derived-constants-classmethod', PK, "        _expected_mdcbytes = b'\\xd3\\x14' + hashlib.new('SHA1', pt[:-20]).digest()\n        if not constant_time.bytes_eq(bytes(pt[-22:]), _expected_mdcbytes):",
  "        _expected_mdcbytes = self._expected_mdc_trailer(pt[:-self._MDC_DIGEST_LEN])\n        if not constant_time.bytes_eq(bytes(pt[-self._MDC_TRAILER_LEN:]), _expected_mdcbytes):",
  more=[(PK, "    def decrypt(self, key, alg):\n        # iv, ivl2, pt = super(IntegrityProtectedSKEDataV1, self).decrypt(key, alg)", C04_MDC_CONSTS)])
M('C04', 'seipd-w4-derived-trailer-len-short', PK, "        _expected_mdcbytes = b'\\xd3\\x14' + hashlib.new('SHA1', pt[:-20]).digest()\n        if not constant_time.bytes_eq(bytes(pt[-22:]), _expected_mdcbytes):",
  "        _expected_mdcbytes = self._expected_mdc_trailer(pt[:-self._MDC_DIGEST_LEN])\n        if not constant_time.bytes_eq(bytes(pt[-self._MDC_TRAILER_LEN:]), _expected_mdcbytes[-self._MDC_TRAILER_LEN:]):",
  'C04.1', more=[(PK, "    def decrypt(self, key, alg):\n        # iv, ivl2, pt = super(IntegrityProtectedSKEDataV1, self).decrypt(key, alg)", C04_MDC_CONSTS.replace("len(_MDC_HEADER) + _MDC_DIGEST_LEN", "_MDC_DIGEST_LEN"))])

# =============================================================================================== C03
M('C03', 'checksum-65535', PK, "        m += self.int_to_bytes(sum(bytearray(symkey)) % 65536, 2)", "        m += self.int_to_bytes(sum(bytearray(symkey)) % 65535, 2)", 'C03.1')
M('C03', 'checksum-1-octet', PK, "        m += self.int_to_bytes(sum(bytearray(symkey)) % 65536, 2)", "        m += self.int_to_bytes(sum(bytearray(symkey)) % 65536)", 'C03.1')
M('C03', 'checksum-includes-alg', PK, "        m += self.int_to_bytes(sum(bytearray(symkey)) % 65536, 2)", "        m += self.int_to_bytes(sum(m) % 65536, 2)", 'C03.1')
M('C03', 'mdc-omits-prefix', PK, "        iv = alg.gen_iv()\n        data = iv + iv[-2:] + data\n\n        mdc = MDC()\n        mdc.mdc = binascii.hexlify(hashlib.new('SHA1', data + b'\\xd3\\x14').digest())",
  "        iv = alg.gen_iv()\n\n        mdc = MDC()\n        mdc.mdc = binascii.hexlify(hashlib.new('SHA1', data + b'\\xd3\\x14').digest())\n        data = iv + iv[-2:] + data", 'C03.2')
M('C03', 'prefix-first-two', PK, "        data = iv + iv[-2:] + data", "        data = iv + iv[:2] + data", 'C03.2')
M('C03', 'mdc-d313', PK, "hashlib.new('SHA1', data + b'\\xd3\\x14').digest())", "hashlib.new('SHA1', data + b'\\xd3\\x13').digest())", 'C03.2')
M('C03', 'mdc-tag', PK, "    __typeid__ = 0x13\n\n    def __init__(self):\n        super(MDC, self).__init__()", "    __typeid__ = 0x14\n\n    def __init__(self):\n        super(MDC, self).__init__()", 'C03.2')
M('C03', 'kdf-no-0301', FL, "        data += b'\\x03\\x01'\n        data.append(self.halg)", "        data.append(self.halg)", 'C03.5')
M('C03', 'kdf-hash-kek-swapped', FL, "        data.append(self.halg)\n        data.append(self.encalg)\n        data += b'Anonymous Sender    '", "        data.append(self.encalg)\n        data.append(self.halg)\n        data += b'Anonymous Sender    '", 'C03.5')
M('C03', 'kdf-three-spaces', FL, "        data += b'Anonymous Sender    '", "        data += b'Anonymous Sender   '", 'C03.5')
M('C03', 'decrypt-iv-keysize', SE, "        iv = b'\\x00' * (alg.block_size // 8)\n\n    try:\n        decryptor", "        iv = b'\\x00' * (alg.key_size // 8)\n\n    try:\n        decryptor", 'C03.4')
M('C03', 'zip-trim-3', CO, "            return zlib.compress(data)[2:-4]", "            return zlib.compress(data)[2:-3]", 'C03.6')
M('C03', 'zip-decompress-wbits', CO, "            return zlib.decompress(data, -15)", "            return zlib.decompress(data, 15)", 'C03.6')
M('C03', 'ecdh-decrypt-primary-fpr', FL, "        # derive the wrapping key\n        z = km.kdf.derive_key(s, km.oid, PubKeyAlgorithm.ECDH, pk.fingerprint)\n\n        # unwrap and unpad m", "        # derive the wrapping key\n        z = km.kdf.derive_key(s, km.oid, PubKeyAlgorithm.ECDH, getattr(pk, 'parent_fingerprint', pk.fingerprint))\n\n        # unwrap and unpad m", 'C03.5')
M('C03', 'skesk-alg-omitted', PK, "        self.ct = _encrypt(self.int_to_bytes(self.symalg) + sk, esk, self.symalg)", "        self.ct = _encrypt(sk, esk, self.symalg)", 'C03.3')
M('C03', 'skesk-reader-keeps-alg', PK, "        symalg = SymmetricKeyAlgorithm(m[0])\n        del m[0]\n\n        return symalg, bytes(m)", "        symalg = SymmetricKeyAlgorithm(m[0])\n\n        return symalg, bytes(m)", 'C03.3')
M('C03', 'pad-128', FL, "        padder = PKCS7(64).padder()", "        padder = PKCS7(128).padder()", 'C03.5')
M('C03', 'ecdh-len-2-octets', FL, "        _bytes += self.p.to_mpibytes()\n        _bytes.append(len(self.c))\n        _bytes += self.c", "        _bytes += self.p.to_mpibytes()\n        _bytes += self.int_to_bytes(len(self.c), 2)\n        _bytes += self.c", 'C03.5')
M('C03', 'pkesk-cipher-mismatch', PGP, "        pkesk.encrypt_sk(self._key, cipher_algo, sessionkey)", "        pkesk.encrypt_sk(self._key, pref_cipher, sessionkey)", 'C03.7')
M('C03', 'encrypters-unfiltered', PGP, "        return set(m.encrypter for m in self._sessionkeys if isinstance(m, PKESessionKey))", "        return set(m.encrypter for m in self._sessionkeys)", 'C03.8')
T('C03', 'twin-kdf-join', FL, "        data += b'\\x03\\x01'\n        data.append(self.halg)", "        data += b'\\x03'\n        data += b'\\x01'\n        data.append(self.halg)")
T('C03', 'twin-m-temp', PK, "        m = bytearray(self.int_to_bytes(symalg) + symkey)\n        m += self.int_to_bytes(sum(bytearray(symkey)) % 65536, 2)", "        chk = sum(bytearray(symkey)) % 65536\n        m = bytearray(self.int_to_bytes(symalg) + symkey + self.int_to_bytes(chk, 2))")
T('C03', 'twin-iv-name', PK, "        iv = alg.gen_iv()\n        data = iv + iv[-2:] + data", "        prefix = alg.gen_iv()\n        data = prefix + prefix[-2:] + data")

# ---- C03 hardening: behaviour-preserving refactorings of the anchored functions (must stay silent) and one new mutant per rewritten rule
PKESK_ENC = ("    def encrypt_sk(self, pk, symalg, symkey):\n        m = bytearray(self.int_to_bytes(symalg) + symkey)\n        m += self.int_to_bytes(sum(bytearray(symkey)) % 65536, 2)\n\n"
             "        if self.pkalg == PubKeyAlgorithm.RSAEncryptOrSign:\n            encrypter = pk.keymaterial.__pubkey__().encrypt\n            encargs = (bytes(m), padding.PKCS1v15(),)\n\n"
             "        elif self.pkalg == PubKeyAlgorithm.ECDH:\n            encrypter = pk\n            encargs = (bytes(m),)\n\n        else:\n            raise NotImplementedError(self.pkalg)\n\n"
             "        self.ct = self.ct.encrypt(encrypter, *encargs)\n        self.update_hlen()\n")
T('C03', 'twin-pkesk-params-renamed', PK, PKESK_ENC,
  "    def encrypt_sk(self, recipient, cipher, sessionkey):\n        body = [self.int_to_bytes(cipher), sessionkey, self.int_to_bytes(sum(bytearray(sessionkey)) & 0xFFFF, 2)]\n        mval = bytes(b''.join(body))\n\n"
  "        if self.pkalg == PubKeyAlgorithm.RSAEncryptOrSign:\n            self.ct = self.ct.encrypt(recipient.keymaterial.__pubkey__().encrypt, mval, padding.PKCS1v15())\n\n"
  "        elif self.pkalg == PubKeyAlgorithm.ECDH:\n            self.ct = self.ct.encrypt(recipient, mval)\n\n        else:\n            raise NotImplementedError(self.pkalg)\n\n        self.update_hlen()\n")
T('C03', 'twin-pkesk-checksum-shift', PK, "        m += self.int_to_bytes(sum(bytearray(symkey)) % 65536, 2)", "        m += self.int_to_bytes(sum(bytearray(symkey)) % (1 << 16), 2)")
M('C03', 'checksum-mask-fff', PK, "        m += self.int_to_bytes(sum(bytearray(symkey)) % 65536, 2)", "        m += self.int_to_bytes(sum(bytearray(symkey)) & 0xFFF, 2)", 'C03.1')
M('C03', 'm-value-key-first', PK, "        m = bytearray(self.int_to_bytes(symalg) + symkey)\n        m += self.int_to_bytes(sum(bytearray(symkey)) % 65536, 2)",
  "        m = bytearray(symkey + self.int_to_bytes(symalg))\n        m += self.int_to_bytes(sum(bytearray(symkey)) % 65536, 2)", 'C03.1')
M('C03', 'ecdh-arm-wraps-for-keymaterial', PK, "            encrypter = pk\n            encargs = (bytes(m),)", "            encrypter = pk.keymaterial\n            encargs = (bytes(m),)", 'C03.1')
T('C03', 'twin-rsa-pad-rjust', PK, "            ct = b'\\x00' * ((pk.keymaterial.__privkey__().key_size // 8) - len(ct)) + ct\n", "            ct = ct.rjust(pk.keymaterial.__privkey__().key_size >> 3, b'\\x00')\n")
M('C03', 'rsa-pad-one-short', PK, "            ct = b'\\x00' * ((pk.keymaterial.__privkey__().key_size // 8) - len(ct)) + ct\n", "            ct = b'\\x00' * ((pk.keymaterial.__privkey__().key_size // 8) - len(ct) - 1) + ct\n", 'C03.1')
SEIPD_ENC = ("    def encrypt(self, key, alg, data):\n        iv = alg.gen_iv()\n        data = iv + iv[-2:] + data\n\n        mdc = MDC()\n        mdc.mdc = binascii.hexlify(hashlib.new('SHA1', data + b'\\xd3\\x14').digest())\n"
             "        mdc.update_hlen()\n\n        data += mdc.__bytes__()\n        self.ct = _encrypt(data, key, alg)\n        self.update_hlen()\n")
T('C03', 'twin-seipd-renamed-sha1', PK, SEIPD_ENC,
  "    def encrypt(self, sessionkey, cipher, plaintext):\n        prefix = cipher.gen_iv()\n        body = b''.join([prefix, prefix[-2:], plaintext])\n\n        digest = hashlib.sha1(body)\n        digest.update(b'\\xd3')\n        digest.update(b'\\x14')\n"
  "        trailer = MDC()\n        trailer.mdc = binascii.hexlify(digest.digest())\n        trailer.update_hlen()\n\n        self.ct = _encrypt(body + trailer.__bytes__(), sessionkey, cipher)\n        self.update_hlen()\n")
M('C03', 'seipd-mdc-stale-header', PK, "        mdc.update_hlen()\n\n        data += mdc.__bytes__()", "        data += mdc.__bytes__()\n        mdc.update_hlen()", 'C03.2')
M('C03', 'seipd-two-iv-draws', PK, "        data = iv + iv[-2:] + data\n\n        mdc = MDC()", "        data = iv + alg.gen_iv()[-2:] + data\n\n        mdc = MDC()", 'C03.2')
M('C03', 'old-format-default', TY, "        self._lenfmt = 1\n", "        self._lenfmt = 0\n", 'C03.2')
T('C03', 'twin-skesk-encalg-direct', PK, "        esk = self.s2k.derive_key(passphrase)\n        del passphrase\n\n        self.ct = _encrypt(self.int_to_bytes(self.symalg) + sk, esk, self.symalg)",
  "        kek = self.s2k.derive_key(passphrase)\n        del passphrase\n\n        cipher = self.s2k.encalg\n        self.ct = _encrypt(b''.join([self.int_to_bytes(cipher), sk]), kek, cipher, iv=None)")
T('C03', 'twin-skesk-reader-slices', PK, "        symalg = SymmetricKeyAlgorithm(m[0])\n        del m[0]\n\n        return symalg, bytes(m)", "        return SymmetricKeyAlgorithm(m[0]), bytes(m[1:])")
M('C03', 'skesk-kek-for-other-cipher', PK, "        self.ct = _encrypt(self.int_to_bytes(self.symalg) + sk, esk, self.symalg)", "        self.ct = _encrypt(self.int_to_bytes(self.symalg) + sk, esk, SymmetricKeyAlgorithm.AES128)", 'C03.3')
SKESK_PARSE = ("        packet.insert(0, 255)\n        self.s2k.parse(packet, iv=False)\n\n        ctend = self.header.length - len(self.s2k)\n        self.ct = packet[:ctend]\n        del packet[:ctend]\n")
T('C03', 'twin-skesk-parse-spelling', PK, SKESK_PARSE,
  "        packet.insert(0, 0xFF)\n        self.s2k.parse(packet, False)\n\n        remaining = -len(self.s2k) + self.header.length\n        self.ct, tail = packet[:remaining], None\n        del packet[0:remaining]\n")
M('C03', 'skesk-parse-usage-254', PK, "        packet.insert(0, 255)\n        self.s2k.parse(packet, iv=False)", "        packet.insert(0, 254)\n        self.s2k.parse(packet, iv=False)", 'C03.3')
M('C03', 'skesk-parse-reads-iv', PK, "        packet.insert(0, 255)\n        self.s2k.parse(packet, iv=False)", "        packet.insert(0, 255)\n        self.s2k.parse(packet)", 'C03.3')
M('C03', 'skesk-parse-ct-one-long', PK, "        ctend = self.header.length - len(self.s2k)\n        self.ct = packet[:ctend]", "        ctend = self.header.length - len(self.s2k) + 1\n        self.ct = packet[:ctend]", 'C03.3')
T('C03', 'twin-symenc-keywords', SE, "        encryptor = Cipher(alg.cipher(key), modes.CFB(iv), default_backend()).encryptor()\n", "        cipher = Cipher(algorithm=alg.cipher(key), mode=modes.CFB(iv), backend=default_backend())\n        encryptor = cipher.encryptor()\n",
  more=[(SE, "        return bytearray(encryptor.update(pt) + encryptor.finalize())", "        head = encryptor.update(pt)\n        return bytearray(b''.join([head, encryptor.finalize()]))"),
        (SE, "def _encrypt(pt, key, alg, iv=None):\n    if iv is None:\n        iv = b'\\x00' * (alg.block_size // 8)\n", "def _encrypt(pt, key, alg, iv=None):\n    iv = b'\\x00' * (alg.block_size >> 3) if iv is None else iv\n")])
T('C03', 'twin-symenc-params-renamed', SE, "def _decrypt(ct, key, alg, iv=None):", "def _decrypt(ciphertext, sessionkey, cipher, nonce=None):",
  more=[(SE, "        iv = b'\\x00' * (alg.block_size // 8)\n\n    try:\n        decryptor = Cipher(alg.cipher(key), modes.CFB(iv), default_backend()).decryptor()", "        nonce = b'\\x00' * (cipher.block_size // 8)\n\n    try:\n        decryptor = Cipher(cipher.cipher(sessionkey), modes.CFB(nonce), default_backend()).decryptor()"),
        (SE, "def _decrypt(ciphertext, sessionkey, cipher, nonce=None):\n    if iv is None:", "def _decrypt(ciphertext, sessionkey, cipher, nonce=None):\n    if nonce is None:"),
        (SE, "        return bytearray(decryptor.update(ct) + decryptor.finalize())", "        return bytearray(decryptor.update(ciphertext) + decryptor.finalize())")])
M('C03', 'decrypt-ofb-mode', SE, "        decryptor = Cipher(alg.cipher(key), modes.CFB(iv), default_backend()).decryptor()", "        decryptor = Cipher(alg.cipher(key), modes.OFB(iv), default_backend()).decryptor()", 'C03.4')
M('C03', 'encrypt-no-finalize', SE, "        return bytearray(encryptor.update(pt) + encryptor.finalize())", "        return bytearray(encryptor.update(pt))", 'C03.4')
M('C03', 'encrypt-iv-blocksize-bits', SE, "        iv = b'\\x00' * (alg.block_size // 8)\n\n    if alg.is_insecure:", "        iv = b'\\x00' * (alg.block_size // 4)\n\n    if alg.is_insecure:", 'C03.4')
KDF_BODY = ("        data = bytearray()\n        data += encoder.encode(curve.value)[1:]\n        data.append(pkalg)\n        data += b'\\x03\\x01'\n        data.append(self.halg)\n        data.append(self.encalg)\n"
            "        data += b'Anonymous Sender    '\n        data += binascii.unhexlify(fingerprint.replace(' ', ''))\n\n"
            "        ckdf = ConcatKDFHash(algorithm=getattr(hashes, self.halg.name)(), length=self.encalg.key_size // 8, otherinfo=bytes(data), backend=default_backend())\n        return ckdf.derive(s)\n")
T('C03', 'twin-kdf-join-positional', FL, "    def derive_key(self, s, curve, pkalg, fingerprint):", "    def derive_key(self, secret, oid, algid, fpr):",
  more=[(FL, KDF_BODY, "        oid_der = encoder.encode(oid.value)[1:]\n        param = b''.join([oid_der, bytearray([algid, 0x03, 0x01, self.halg, self.encalg]), b'Anonymous Sender' + b' ' * 4,\n                          binascii.unhexlify(fpr.replace(' ', ''))])\n"
         "        zlen = self.encalg.key_size >> 3\n        return ConcatKDFHash(getattr(hashes, self.halg.name)(), zlen, param, default_backend()).derive(secret)\n")])
M('C03', 'kdf-length-blocksize', FL, "length=self.encalg.key_size // 8, otherinfo=bytes(data)", "length=self.encalg.block_size // 8, otherinfo=bytes(data)", 'C03.5')
M('C03', 'kdf-hash-fixed-sha256', FL, "ConcatKDFHash(algorithm=getattr(hashes, self.halg.name)(), length=", "ConcatKDFHash(algorithm=hashes.SHA256(), length=", 'C03.5')
M('C03', 'kdf-param-oid-with-tag', FL, "        data += encoder.encode(curve.value)[1:]\n", "        data += encoder.encode(curve.value)\n", 'C03.5')
T('C03', 'twin-ecdh-derive-keywords', FL, "        # derive the wrapping key\n        z = km.kdf.derive_key(s, km.oid, PubKeyAlgorithm.ECDH, pk.fingerprint)\n\n        # compute C\n        ct.c = aes_key_wrap(z, m, default_backend())",
  "        # derive the wrapping key\n        kek = km.kdf.derive_key(s, curve=km.oid, pkalg=PubKeyAlgorithm.ECDH, fingerprint=pk.fingerprint)\n\n        # compute C\n        ct.c = aes_key_wrap(wrapping_key=kek, key_to_wrap=m, backend=default_backend())",
  more=[(FL, "        padder = PKCS7(64).padder()\n        m = padder.update(_m) + padder.finalize()", "        pkcs5 = PKCS7(block_size=64).padder()\n        m = b''.join([pkcs5.update(_m), pkcs5.finalize()])")])
M('C03', 'ecdh-decrypt-unwraps-with-oid-of-subkey', FL, "        # derive the wrapping key\n        z = km.kdf.derive_key(s, km.oid, PubKeyAlgorithm.ECDH, pk.fingerprint)\n\n        # unwrap and unpad m",
  "        # derive the wrapping key\n        z = km.kdf.derive_key(s, km.oid, pk.pkalg, pk.fingerprint)\n\n        # unwrap and unpad m", 'C03.5')
M('C03', 'ecdh-decrypt-pads-instead-of-unpads', FL, "        padder = PKCS7(64).unpadder()\n        return padder.update(_m) + padder.finalize()", "        padder = PKCS7(64).padder()\n        return padder.update(_m) + padder.finalize()", 'C03.5')
M('C03', 'ecdh-unwrap-skips-first-octet', FL, "        _m = aes_key_unwrap(z, self.c, default_backend())", "        _m = aes_key_unwrap(z, self.c[1:], default_backend())", 'C03.5')
T('C03', 'twin-compress-eq-elif', CO, "        if self is CompressionAlgorithm.ZIP:\n            return zlib.compress(data)[2:-4]\n\n        if self is CompressionAlgorithm.ZLIB:\n            return zlib.compress(data)\n",
  "        if self is CompressionAlgorithm.ZIP:\n            deflated = zlib.compress(data)\n            return deflated[2:][:-4]\n\n        elif self is CompressionAlgorithm.ZLIB:\n            return zlib.compress(data)\n")
M('C03', 'zlib-arm-returns-raw-deflate', CO, "        if self is CompressionAlgorithm.ZLIB:\n            return zlib.compress(data)\n", "        if self is CompressionAlgorithm.ZLIB:\n            return zlib.compress(data)[2:-4]\n", 'C03.6')
MSG_ENC = ("        if sessionkey is None:\n            sessionkey = cipher_algo.gen_key()\n        skesk.encrypt_sk(passphrase, sessionkey)\n        del passphrase\n\n        msg = PGPMessage() | skesk\n\n"
           "        if not self.is_encrypted:\n            skedata = IntegrityProtectedSKEDataV1()\n            skedata.encrypt(sessionkey, cipher_algo, self.__bytes__())\n            msg |= skedata\n")
T('C03', 'twin-msg-encrypt-renamed-keywords', PGP, MSG_ENC,
  "        sk = cipher_algo.gen_key() if sessionkey is None else sessionkey\n        skesk.encrypt_sk(passphrase, sk=sk)\n        del passphrase\n\n        msg = PGPMessage() | skesk\n\n"
  "        if not self.is_encrypted:\n            container = IntegrityProtectedSKEDataV1()\n            container.encrypt(key=sk, alg=cipher_algo, data=bytes(self))\n            msg |= container\n")
M('C03', 'msg-encrypt-skesk-other-cipher', PGP, "        skesk.s2k.encalg = cipher_algo\n", "        skesk.s2k.encalg = SymmetricKeyAlgorithm.AES256\n", 'C03.7')
M('C03', 'key-encrypt-container-holds-inner-message', PGP, "            skedata.encrypt(sessionkey, cipher_algo, message.__bytes__())", "            skedata.encrypt(sessionkey, cipher_algo, message.message.__bytes__())", 'C03.7')
SEL = ("        pkesk = next(pk for pk in message._sessionkeys if isinstance(pk, PKESessionKey)\n                     and pk.pkalg == self.key_algorithm and pk.encrypter == self.fingerprint.keyid)\n")
T('C03', 'twin-selection-reordered', PGP, SEL,
  "        mine = self.fingerprint.keyid\n        candidates = [esk for esk in message._sessionkeys if isinstance(esk, PKESessionKey)\n                      if not (mine != esk.encrypter or esk.pkalg != self.key_algorithm)]\n        pkesk = next(iter(candidates))\n")
T('C03', 'twin-decrypt-loop-guard-clauses', PGP, "        for skesk in iter(sk for sk in self._sessionkeys if isinstance(sk, SKESessionKey)):\n            try:\n                symalg, key = skesk.decrypt_sk(passphrase)",
  "        for skesk in self._sessionkeys:\n            if isinstance(skesk, PKESessionKey):\n                continue\n            try:\n                symalg, key = skesk.decrypt_sk(passphrase)")
T('C03', 'twin-encrypters-loop', PGP, "        return set(m.encrypter for m in self._sessionkeys if isinstance(m, PKESessionKey))",
  "        ids = set()\n        for esk in self._sessionkeys:\n            if not isinstance(esk, PKESessionKey):\n                continue\n            ids.add(esk.encrypter)\n        return ids")
M('C03', 'encrypters-loop-wrong-class-guard', PGP, "        return set(m.encrypter for m in self._sessionkeys if isinstance(m, PKESessionKey))",
  "        ids = set()\n        for esk in self._sessionkeys:\n            if isinstance(esk, PKESessionKey):\n                continue\n            ids.add(esk.encrypter)\n        return ids", 'C03.8')
M('C03', 'encrypters-filter-after-read', PGP, "        return set(m.encrypter for m in self._sessionkeys if isinstance(m, PKESessionKey))",
  "        return set(m.encrypter for m in self._sessionkeys if m.encrypter and isinstance(m, PKESessionKey))", 'C03.8')
M('C03', 'selection-or-keyid', PGP, SEL, "        pkesk = next(pk for pk in message._sessionkeys if isinstance(pk, PKESessionKey)\n                     and (pk.pkalg == self.key_algorithm or pk.encrypter == self.fingerprint.keyid))\n", 'C03.8')
M('C03', 'selection-keyid-negated', PGP, SEL, "        pkesk = next(pk for pk in message._sessionkeys if isinstance(pk, PKESessionKey)\n                     and pk.pkalg == self.key_algorithm and pk.encrypter != self.fingerprint.keyid)\n", 'C03.8')

SEL2 = SEL + "        alg, key = pkesk.decrypt_sk(self._key)\n"
T('C03', 'twin-selection-loop-break', PGP, SEL,
  "        pkesk = None\n        for pk in message._sessionkeys:\n            if isinstance(pk, PKESessionKey) and pk.pkalg == self.key_algorithm and pk.encrypter == self.fingerprint.keyid:\n                pkesk = pk\n                break\n")
T('C03', 'twin-selection-loop-guard-clauses', PGP, SEL2,
  "        wanted = self.fingerprint.keyid\n        for candidate in message._sessionkeys:\n            if not isinstance(candidate, PKESessionKey):\n                continue\n            if candidate.pkalg != self.key_algorithm or wanted != candidate.encrypter:\n                continue\n"
  "            alg, key = candidate.decrypt_sk(self._key)\n            break\n        else:\n            raise StopIteration()\n")
T('C03', 'twin-selection-chained-lists', PGP, SEL,
  "        pkesks = [pk for pk in message._sessionkeys if isinstance(pk, PKESessionKey)]\n        mine = [pk for pk in pkesks if pk.encrypter == self.fingerprint.keyid]\n        pkesk = [pk for pk in mine if pk.pkalg == self.key_algorithm][0]\n")
T('C03', 'twin-encrypters-checked-once', PGP, "        if self.fingerprint.keyid not in message.encrypters:\n            sks = set(self.subkeys)\n            mis = set(message.encrypters)\n",
  "        mis = set(message.encrypters)\n        if self.fingerprint.keyid not in mis:\n            sks = set(self.subkeys)\n")
M('C03', 'selection-loop-any-pkesk-of-algorithm', PGP, SEL,
  "        pkesk = None\n        for pk in message._sessionkeys:\n            if isinstance(pk, PKESessionKey) and pk.pkalg == self.key_algorithm:\n                pkesk = pk\n                break\n", 'C03.8')
M('C03', 'selection-loop-guard-skips-own-keyid', PGP, SEL2,
  "        wanted = self.fingerprint.keyid\n        for candidate in message._sessionkeys:\n            if not isinstance(candidate, PKESessionKey):\n                continue\n            if candidate.pkalg != self.key_algorithm or wanted == candidate.encrypter:\n                continue\n"
  "            alg, key = candidate.decrypt_sk(self._key)\n            break\n        else:\n            raise StopIteration()\n", 'C03.8')
M('C03', 'selection-first-pkesk', PGP, SEL, "        pkesk = [pk for pk in message._sessionkeys if isinstance(pk, PKESessionKey)][0]\n", 'C03.8')
M('C03', 'selection-loop-no-class-filter', PGP, SEL,
  "        pkesk = None\n        for pk in message._sessionkeys:\n            if pk.pkalg == self.key_algorithm and pk.encrypter == self.fingerprint.keyid:\n                pkesk = pk\n                break\n", 'C03.8')

T('C03', 'twin-seipd-bytes-of-mdc', PK, SEIPD_ENC,
  "    def encrypt(self, key, alg, data):\n        iv = alg.gen_iv()\n        quick = iv[-2:]\n        sha = hashlib.new('SHA1')\n        for part in (iv, quick, data, b'\\xd3\\x14'):\n            sha.update(part)\n\n"
  "        mdc = MDC()\n        mdc.mdc = binascii.hexlify(sha.digest())\n        mdc.update_hlen()\n\n        self.ct = _encrypt(iv + quick + data + bytes(mdc), key, alg)\n        self.update_hlen()\n")
T('C03', 'twin-msg-encrypt-skesk-helper', PGP, "        skesk = SKESessionKeyV4()\n        skesk.s2k.usage = 255\n        skesk.s2k.specifier = 3\n        skesk.s2k.halg = hash_algo\n        skesk.s2k.encalg = cipher_algo\n        skesk.s2k.count = skesk.s2k.halg.tuned_count\n",
  "        skesk = self._fresh_skesk(hash_algo, cipher_algo)\n",
  more=[(PGP, "    def encrypt(self, passphrase, sessionkey=None, **prefs):\n        \"\"\"\n        encrypt(passphrase, [sessionkey=None,] **prefs)",
         "    @staticmethod\n    def _fresh_skesk(digest, cipher):\n        esk = SKESessionKeyV4()\n        esk.s2k.usage = 255\n        esk.s2k.specifier = 3\n        esk.s2k.halg = digest\n        esk.s2k.encalg = cipher\n        esk.s2k.count = esk.s2k.halg.tuned_count\n        return esk\n\n"
         "    def encrypt(self, passphrase, sessionkey=None, **prefs):\n        \"\"\"\n        encrypt(passphrase, [sessionkey=None,] **prefs)")])
T('C03', 'twin-pkesk-decrypt-privkey-local', PK, "            ct = self.ct.me_mod_n.to_mpibytes()[2:]\n            ct = b'\\x00' * ((pk.keymaterial.__privkey__().key_size // 8) - len(ct)) + ct\n\n            decrypter = pk.keymaterial.__privkey__().decrypt\n            decargs = (ct, padding.PKCS1v15(),)\n",
  "            priv = pk.keymaterial.__privkey__()\n            modlen = priv.key_size // 8\n            raw = self.ct.me_mod_n.to_mpibytes()[2:]\n            padded = b'\\x00' * (modlen - len(raw)) + raw\n\n            decrypter = priv.decrypt\n            decargs = (padded, padding.PKCS1v15())\n")
T('C03', 'twin-ecdh-encrypt-direct-class', FL, "        padder = PKCS7(64).padder()\n        m = padder.update(_m) + padder.finalize()\n\n        km = pk.keymaterial\n        ct = cls()\n",
  "        padder = PKCS7(64).padder()\n        m = padder.update(_m)\n        m += padder.finalize()\n\n        km = pk.keymaterial\n        ct = ECDHCipherText()\n")

# ---- twins produced by an independent refactoring agent that were noisy before the value-based rules / engine normal forms
T('C13', 'ag-pkesk-extend-tuple-const', PK, "__all__ = ['PKESessionKey',",
  "# RFC 4880 5.1: the session key checksum is taken modulo 65536\n_SK_CHECKSUM_MOD = 1 << 16\n\n__all__ = ['PKESessionKey',",
  more=[(PK, '        m = bytearray(self.int_to_bytes(symalg) + symkey)\n        m += self.int_to_bytes(sum(bytearray(symkey)) % 65536, 2)\n\n        if self.pkalg == PubKeyAlgorithm.RSAEncryptOrSign:\n            encrypter = pk.keymaterial.__pubkey__().encrypt\n            encargs = (bytes(m), padding.PKCS1v15(),)\n\n        elif self.pkalg == PubKeyAlgorithm.ECDH:\n            encrypter = pk\n            encargs = (bytes(m),)\n\n        else:\n            raise NotImplementedError(self.pkalg)\n\n        self.ct = self.ct.encrypt(encrypter, *encargs)', '        block = bytearray(self.int_to_bytes(symalg) + symkey)\n        cksum = sum(bytearray(symkey)) % _SK_CHECKSUM_MOD\n        block.extend(self.int_to_bytes(cksum, 2))\n\n        if self.pkalg == PubKeyAlgorithm.RSAEncryptOrSign:\n            fn, fnargs = pk.keymaterial.__pubkey__().encrypt, (bytes(block), padding.PKCS1v15())\n\n        elif self.pkalg == PubKeyAlgorithm.ECDH:\n            fn, fnargs = pk, (bytes(block),)\n\n        else:\n            raise NotImplementedError(self.pkalg)\n\n        self.ct = self.ct.encrypt(fn, *fnargs)')])
T('C03', 'ag-skesk-parse-slice-assign', PK, '        _bytes = bytearray()\n        _bytes += super(SKESessionKeyV4, self).__bytearray__()\n        _bytes += self.s2k.__bytearray__()[1:]\n        _bytes += self.ct\n        return _bytes',
  '        hdr = super(SKESessionKeyV4, self).__bytearray__()\n        # the S2K usage octet is not part of this packet\n        s2k_spec = self.s2k.__bytearray__()[1:]\n        return bytearray(hdr) + s2k_spec + self.ct',
  more=[(PK, '        packet.insert(0, 255)\n        self.s2k.parse(packet, iv=False)\n\n        ctend = self.header.length - len(self.s2k)\n        self.ct = packet[:ctend]\n        del packet[:ctend]', "        packet.insert(0, 0xFF)\n        self.s2k.parse(packet, False)\n\n        esk_len = self.header.length - len(self.s2k)\n        self.ct, packet[:esk_len] = packet[:esk_len], b''")])
T('C03', 'ag-symenc-condexpr-bytesn-kwargs', SE, "    if iv is None:\n        iv = b'\\x00' * (alg.block_size // 8)",
  '    iv = bytes(alg.block_size // 8) if iv is None else iv',
  more=[(SE, '        encryptor = Cipher(alg.cipher(key), modes.CFB(iv), default_backend()).encryptor()', '        cfb = Cipher(algorithm=alg.cipher(key), mode=modes.CFB(iv), backend=default_backend())\n        encryptor = cfb.encryptor()'),
        (SE, "        iv = b'\\x00' * (alg.block_size // 8)\n\n    try:\n        decryptor = Cipher(alg.cipher(key), modes.CFB(iv), default_backend()).decryptor()", '        iv = bytes(alg.block_size // 8)\n\n    try:\n        cfb = Cipher(algorithm=alg.cipher(key), mode=modes.CFB(iv), backend=default_backend())\n        decryptor = cfb.decryptor()')])
T('C03', 'ag-eckdf-join-hashcls-temp', FL, "        data = bytearray()\n        data += encoder.encode(curve.value)[1:]\n        data.append(pkalg)\n        data += b'\\x03\\x01'\n        data.append(self.halg)\n        data.append(self.encalg)\n        data += b'Anonymous Sender    '\n        data += binascii.unhexlify(fingerprint.replace(' ', ''))\n\n        ckdf = ConcatKDFHash(algorithm=getattr(hashes, self.halg.name)(), length=self.encalg.key_size // 8, otherinfo=bytes(data), backend=default_backend())",
  "        param = b''.join([\n            encoder.encode(curve.value)[1:],\n            bytes([pkalg, 0x03, 0x01, self.halg, self.encalg]),\n            b'Anonymous Sender    ',\n            binascii.unhexlify(fingerprint.replace(' ', '')),\n        ])\n\n        hash_cls = getattr(hashes, self.halg.name)\n        kek_len = self.encalg.key_size // 8\n        ckdf = ConcatKDFHash(algorithm=hash_cls(), length=kek_len, otherinfo=param, backend=default_backend())")
T('C03', 'ag-ecdh-decrypt-swap-extend-list', FL, '        if km.oid == EllipticCurveOID.Curve25519:\n            v = x25519.X25519PublicKey.from_public_bytes(self.p.x)\n            s = km.__privkey__().exchange(v)\n        else:\n            # assemble the public component of ephemeral key v\n            v = ec.EllipticCurvePublicNumbers(self.p.x, self.p.y, km.oid.curve()).public_key(default_backend())\n            # compute s using the inverse of how it was derived during encryption\n            s = km.__privkey__().exchange(ec.ECDH(), v)\n\n        # derive the wrapping key\n        z = km.kdf.derive_key(s, km.oid, PubKeyAlgorithm.ECDH, pk.fingerprint)\n\n        # unwrap and unpad m\n        _m = aes_key_unwrap(z, self.c, default_backend())\n\n        padder = PKCS7(64).unpadder()\n        return padder.update(_m) + padder.finalize()',
  '        if km.oid != EllipticCurveOID.Curve25519:\n            # assemble the public component of ephemeral key v\n            numbers = ec.EllipticCurvePublicNumbers(self.p.x, self.p.y, km.oid.curve())\n            eph_pub = numbers.public_key(default_backend())\n            # compute s using the inverse of how it was derived during encryption\n            shared = km.__privkey__().exchange(ec.ECDH(), eph_pub)\n        else:\n            eph_pub = x25519.X25519PublicKey.from_public_bytes(self.p.x)\n            shared = km.__privkey__().exchange(eph_pub)\n\n        # derive the wrapping key, then unwrap and unpad m\n        kek = km.kdf.derive_key(shared, km.oid, PubKeyAlgorithm.ECDH, pk.fingerprint)\n        padded = aes_key_unwrap(wrapping_key=kek, wrapped_key=self.c, backend=default_backend())\n\n        unpadder = PKCS7(64).unpadder()\n        return unpadder.update(padded) + unpadder.finalize()',
  more=[(FL, '        _bytes += self.p.to_mpibytes()\n        _bytes.append(len(self.c))\n        _bytes += self.c', '        _bytes.extend(self.p.to_mpibytes())\n        _bytes.extend([len(self.c)])\n        _bytes.extend(self.c)')])
T('C03', 'ag-compress-elif-consts-wbits-kw', CO, '# this is 50 KiB',
  '# raw DEFLATE (RFC 1951) streams carry neither the 2-octet zlib header nor the 4-octet Adler-32 trailer\n_ZLIB_HEADER_LEN = 2\n_ZLIB_TRAILER_LEN = 4\n_RAW_DEFLATE_WBITS = -15\n\n# this is 50 KiB',
  more=[(CO, '            return data\n\n        if self is CompressionAlgorithm.ZIP:\n            return zlib.compress(data)[2:-4]\n\n        if self is CompressionAlgorithm.ZLIB:\n            return zlib.compress(data)\n\n        if self is CompressionAlgorithm.BZ2:\n            return bz2.compress(data)\n\n        raise NotImplementedError(self)\n\n    def decompress(self, data):\n        if self is CompressionAlgorithm.Uncompressed:\n            return data\n\n        if self is CompressionAlgorithm.ZIP:\n            return zlib.decompress(data, -15)\n\n        if self is CompressionAlgorithm.ZLIB:\n            return zlib.decompress(data)\n\n        if self is CompressionAlgorithm.BZ2:\n            return bz2.decompress(data)\n\n        raise NotImplementedError(self)', '            out = data\n\n        elif self is CompressionAlgorithm.ZIP:\n            out = zlib.compress(data)[_ZLIB_HEADER_LEN:-_ZLIB_TRAILER_LEN]\n\n        elif self is CompressionAlgorithm.ZLIB:\n            out = zlib.compress(data)\n\n        elif self is CompressionAlgorithm.BZ2:\n            out = bz2.compress(data)\n\n        else:\n            raise NotImplementedError(self)\n\n        return out\n\n    def decompress(self, data):\n        if self is CompressionAlgorithm.Uncompressed:\n            out = data\n\n        elif self is CompressionAlgorithm.ZIP:\n            out = zlib.decompress(data, wbits=_RAW_DEFLATE_WBITS)\n\n        elif self is CompressionAlgorithm.ZLIB:\n            out = zlib.decompress(data)\n\n        elif self is CompressionAlgorithm.BZ2:\n            out = bz2.decompress(data)\n\n        else:\n            raise NotImplementedError(self)\n\n        return out')])
T('C03', 'ag-zip-explicit-slice-bound', CO, '# this is 50 KiB',
  '_RAW_DEFLATE_WBITS = -15\n\n# this is 50 KiB',
  more=[(CO, '            return zlib.compress(data)[2:-4]', '            zdata = zlib.compress(data)\n            return zdata[2:len(zdata) - 4]'),
        (CO, '            return zlib.decompress(data, -15)', '            return zlib.decompress(data, _RAW_DEFLATE_WBITS)')])
T('C13', 'ag-urandom-from-import', CO, 'import warnings',
  '\nfrom os import urandom\nimport warnings',
  more=[(CO, '        return os.urandom(self.block_size // 8)\n\n    def gen_key(self):\n        return os.urandom(self.key_size // 8)', '        nbytes = self.block_size // 8\n        return urandom(nbytes)\n\n    def gen_key(self):\n        nbytes = self.key_size // 8\n        return urandom(nbytes)')])
T('C03', 'ag-select-loop-else-raise', PGP, '        pkesk = next(pk for pk in message._sessionkeys if isinstance(pk, PKESessionKey)\n                     and pk.pkalg == self.key_algorithm and pk.encrypter == self.fingerprint.keyid)',
  '        for candidate in message._sessionkeys:\n            if not isinstance(candidate, PKESessionKey):\n                continue\n\n            if candidate.pkalg == self.key_algorithm and candidate.encrypter == self.fingerprint.keyid:\n                pkesk = candidate\n                break\n\n        else:\n            raise StopIteration\n')
T('C03', 'ag-select-loop-var-is-result', PGP, '        pkesk = next(pk for pk in message._sessionkeys if isinstance(pk, PKESessionKey)\n                     and pk.pkalg == self.key_algorithm and pk.encrypter == self.fingerprint.keyid)',
  '        for pkesk in message._sessionkeys:\n            if (isinstance(pkesk, PKESessionKey)\n                    and pkesk.pkalg == self.key_algorithm and pkesk.encrypter == self.fingerprint.keyid):\n                break\n        else:\n            raise StopIteration')
T('C13', 'ag-keyblob-tuple-temps-pow-const', FL, '    @property\n    def __mpis__(self):\n        for i in super(PrivKey, self).__mpis__:',
  '    # RFC 4880 3.7.1.2: salted S2K specifiers carry 8 octets of salt\n    _S2K_SALT_LEN = 2 ** 3\n\n    @property\n    def __mpis__(self):\n        for i in super(PrivKey, self).__mpis__:',
  more=[(FL, '    def encrypt_keyblob(self, passphrase, enc_alg, hash_alg):\n        # PGPy will only ever use iterated and salted S2k mode\n        self.s2k.usage = 254\n        self.s2k.encalg = enc_alg\n        self.s2k.specifier = String2KeyType.Iterated\n        self.s2k.iv = enc_alg.gen_iv()\n        self.s2k.halg = hash_alg\n        self.s2k.salt = bytearray(os.urandom(8))', '    def _privfield_bytes(self):\n        """the secret MPIs of this key, in packet order"""\n        _bytes = bytearray()\n        for pf in self.__privfields__:\n            _bytes += getattr(self, pf).to_mpibytes()\n        return _bytes\n\n    def encrypt_keyblob(self, passphrase, enc_alg, hash_alg):\n        # PGPy will only ever use iterated and salted S2k mode\n        self.s2k.usage = 254\n        self.s2k.encalg = enc_alg\n        self.s2k.specifier = String2KeyType.Iterated\n        iv, salt = enc_alg.gen_iv(), os.urandom(self._S2K_SALT_LEN)\n        self.s2k.iv, self.s2k.halg, self.s2k.salt = iv, hash_alg, bytearray(salt)'),
        (FL, "        pt = bytearray()\n        for pf in self.__privfields__:\n            pt += getattr(self, pf).to_mpibytes()\n\n        # append a SHA-1 hash of the plaintext so far to the plaintext\n        pt += hashlib.new('sha1', pt).digest()", "        pt = self._privfield_bytes()\n\n        # append a SHA-1 hash of the plaintext so far to the plaintext\n        sha1 = hashlib.new('sha1', pt).digest()\n        pt += sha1")])
T('C03', 'ag-seipd-inline-gen-iv', PK, '        iv = alg.gen_iv()',
  '        # block_size // 8 random octets, then the last two of them once more\n        iv = os.urandom(alg.block_size // 8)')
T('C13', 'ag-seipd-inline-gen-iv', PK, '        iv = alg.gen_iv()',
  '        # block_size // 8 random octets, then the last two of them once more\n        iv = os.urandom(alg.block_size // 8)')
T('C13', 'ag-inline-gen-key', PGP, '            sessionkey = cipher_algo.gen_key()\n        skesk.encrypt_sk(passphrase, sessionkey)',
  '            sessionkey = os.urandom(cipher_algo.key_size // 8)\n        skesk.encrypt_sk(passphrase, sessionkey)',
  more=[(PGP, '            sessionkey = cipher_algo.gen_key()', '            sessionkey = os.urandom(cipher_algo.key_size // 8)')])
T('C03', 'ag-cipher-table-aliases-get', CO, "        bs = {SymmetricKeyAlgorithm.IDEA: algorithms.IDEA,\n              SymmetricKeyAlgorithm.TripleDES: algorithms.TripleDES,\n              SymmetricKeyAlgorithm.CAST5: algorithms.CAST5,\n              SymmetricKeyAlgorithm.Blowfish: algorithms.Blowfish,\n              SymmetricKeyAlgorithm.AES128: algorithms.AES,\n              SymmetricKeyAlgorithm.AES192: algorithms.AES,\n              SymmetricKeyAlgorithm.AES256: algorithms.AES,\n              SymmetricKeyAlgorithm.Twofish256: namedtuple('Twofish256', ['block_size'])(block_size=128),\n              SymmetricKeyAlgorithm.Camellia128: algorithms.Camellia,\n              SymmetricKeyAlgorithm.Camellia192: algorithms.Camellia,\n              SymmetricKeyAlgorithm.Camellia256: algorithms.Camellia}\n\n        if self in bs:\n            return bs[self]\n\n        raise NotImplementedError(repr(self))",
  "        cls = SymmetricKeyAlgorithm\n        aes, camellia = algorithms.AES, algorithms.Camellia\n        # Twofish is not provided by cryptography; only its block size is known\n        twofish = namedtuple('Twofish256', ['block_size'])(block_size=128)\n\n        impls = {cls.IDEA: algorithms.IDEA,\n                 cls.TripleDES: algorithms.TripleDES,\n                 cls.CAST5: algorithms.CAST5,\n                 cls.Blowfish: algorithms.Blowfish,\n                 cls.AES128: aes, cls.AES192: aes, cls.AES256: aes,\n                 cls.Twofish256: twofish,\n                 cls.Camellia128: camellia, cls.Camellia192: camellia, cls.Camellia256: camellia}\n\n        impl = impls.get(self)\n        if impl is None:\n            raise NotImplementedError(repr(self))\n\n        return impl")
T('C13', 'ag-cipher-table-aliases-get', CO, "        bs = {SymmetricKeyAlgorithm.IDEA: algorithms.IDEA,\n              SymmetricKeyAlgorithm.TripleDES: algorithms.TripleDES,\n              SymmetricKeyAlgorithm.CAST5: algorithms.CAST5,\n              SymmetricKeyAlgorithm.Blowfish: algorithms.Blowfish,\n              SymmetricKeyAlgorithm.AES128: algorithms.AES,\n              SymmetricKeyAlgorithm.AES192: algorithms.AES,\n              SymmetricKeyAlgorithm.AES256: algorithms.AES,\n              SymmetricKeyAlgorithm.Twofish256: namedtuple('Twofish256', ['block_size'])(block_size=128),\n              SymmetricKeyAlgorithm.Camellia128: algorithms.Camellia,\n              SymmetricKeyAlgorithm.Camellia192: algorithms.Camellia,\n              SymmetricKeyAlgorithm.Camellia256: algorithms.Camellia}\n\n        if self in bs:\n            return bs[self]\n\n        raise NotImplementedError(repr(self))",
  "        cls = SymmetricKeyAlgorithm\n        aes, camellia = algorithms.AES, algorithms.Camellia\n        # Twofish is not provided by cryptography; only its block size is known\n        twofish = namedtuple('Twofish256', ['block_size'])(block_size=128)\n\n        impls = {cls.IDEA: algorithms.IDEA,\n                 cls.TripleDES: algorithms.TripleDES,\n                 cls.CAST5: algorithms.CAST5,\n                 cls.Blowfish: algorithms.Blowfish,\n                 cls.AES128: aes, cls.AES192: aes, cls.AES256: aes,\n                 cls.Twofish256: twofish,\n                 cls.Camellia128: camellia, cls.Camellia192: camellia, cls.Camellia256: camellia}\n\n        impl = impls.get(self)\n        if impl is None:\n            raise NotImplementedError(repr(self))\n\n        return impl")
T('C03', 'ag-seipd-quickcheck-len-slice', PK, '        data = iv + iv[-2:] + data',
  '        quick_check = iv[len(iv) - 2:]\n        data = iv + quick_check + data')
T('C03', 'ag-select-filter-predicate', PGP, '        pkesk = next(pk for pk in message._sessionkeys if isinstance(pk, PKESessionKey)\n                     and pk.pkalg == self.key_algorithm and pk.encrypter == self.fingerprint.keyid)',
  '        def is_mine(pk):\n            return (isinstance(pk, PKESessionKey)\n                    and pk.pkalg == self.key_algorithm\n                    and pk.encrypter == self.fingerprint.keyid)\n\n        pkesk = next(filter(is_mine, message._sessionkeys))')
T('C13', 'ag-geniv-divmod-truediv', CO, '        return os.urandom(self.block_size // 8)\n\n    def gen_key(self):\n        return os.urandom(self.key_size // 8)',
  '        nbytes, _ = divmod(self.block_size, 8)\n        return os.urandom(nbytes)\n\n    def gen_key(self):\n        bits = self.key_size\n        return os.urandom(int(bits / 8))')
T('C03', 'ag-compress-dispatch-dict', CO, '        if self is CompressionAlgorithm.ZIP:\n            return zlib.compress(data)[2:-4]\n\n        if self is CompressionAlgorithm.ZLIB:\n            return zlib.compress(data)\n\n        if self is CompressionAlgorithm.BZ2:\n            return bz2.compress(data)',
  '        codecs = {CompressionAlgorithm.ZIP: lambda d: zlib.compress(d)[2:-4],\n                  CompressionAlgorithm.ZLIB: zlib.compress,\n                  CompressionAlgorithm.BZ2: bz2.compress}\n\n        if self in codecs:\n            return codecs[self](data)',
  more=[(CO, '        if self is CompressionAlgorithm.ZIP:\n            return zlib.decompress(data, -15)\n\n        if self is CompressionAlgorithm.ZLIB:\n            return zlib.decompress(data)\n\n        if self is CompressionAlgorithm.BZ2:\n            return bz2.decompress(data)', '        codecs = {CompressionAlgorithm.ZIP: lambda d: zlib.decompress(d, -15),\n                  CompressionAlgorithm.ZLIB: zlib.decompress,\n                  CompressionAlgorithm.BZ2: bz2.decompress}\n\n        if self in codecs:\n            return codecs[self](data)')])
T('C03', 'ag-pkesk-match-statement', PK, '        if self.pkalg == PubKeyAlgorithm.RSAEncryptOrSign:\n            encrypter = pk.keymaterial.__pubkey__().encrypt\n            encargs = (bytes(m), padding.PKCS1v15(),)\n\n        elif self.pkalg == PubKeyAlgorithm.ECDH:\n            encrypter = pk\n            encargs = (bytes(m),)\n\n        else:\n            raise NotImplementedError(self.pkalg)',
  '        match self.pkalg:\n            case PubKeyAlgorithm.RSAEncryptOrSign:\n                encrypter = pk.keymaterial.__pubkey__().encrypt\n                encargs = (bytes(m), padding.PKCS1v15(),)\n\n            case PubKeyAlgorithm.ECDH:\n                encrypter = pk\n                encargs = (bytes(m),)\n\n            case _:\n                raise NotImplementedError(self.pkalg)')
T('C03', 'ag-pkesk-checksum-loop', PK, '        m = bytearray(self.int_to_bytes(symalg) + symkey)\n        m += self.int_to_bytes(sum(bytearray(symkey)) % 65536, 2)\n\n        if self.pkalg == PubKeyAlgorithm.RSAEncryptOrSign:\n            encrypter = pk.keymaterial.__pubkey__().encrypt\n            encargs = (bytes(m), padding.PKCS1v15(),)\n\n        elif self.pkalg == PubKeyAlgorithm.ECDH:\n            encrypter = pk\n            encargs = (bytes(m),)',
  '        body = self.int_to_bytes(symalg) + symkey\n\n        total = 0\n        for octet in bytearray(symkey):\n            total += octet\n\n        m = bytes(body + self.int_to_bytes(total % 65536, 2))\n\n        if self.pkalg == PubKeyAlgorithm.RSAEncryptOrSign:\n            encrypter = pk.keymaterial.__pubkey__().encrypt\n            encargs = (m, padding.PKCS1v15(),)\n\n        elif self.pkalg == PubKeyAlgorithm.ECDH:\n            encrypter = pk\n            encargs = (m,)')
T('C13', 'ag-ecdh-pad-join-kwargs', FL, '    @classmethod\n    def encrypt(cls, pk, *args):',
  '    # RFC 6637 section 8: m is PKCS5-padded to a multiple of the 8-octet AES key wrap block\n    _PAD_BLOCK_BITS = 8 * 8\n\n    @classmethod\n    def encrypt(cls, pk, *args):',
  more=[(FL, '        padder = PKCS7(64).padder()\n        m = padder.update(_m) + padder.finalize()', "        padder = PKCS7(cls._PAD_BLOCK_BITS).padder()\n        m = b''.join((padder.update(_m), padder.finalize()))"),
        (FL, '        ct.c = aes_key_wrap(z, m, default_backend())', '        ct.c = aes_key_wrap(wrapping_key=z, key_to_wrap=m, backend=default_backend())'),
        (FL, '        padder = PKCS7(64).unpadder()\n        return padder.update(_m) + padder.finalize()', '        unpadder = PKCS7(self._PAD_BLOCK_BITS).unpadder()\n        head = unpadder.update(_m)\n        return head + unpadder.finalize()')])
T('C03', 'ag-msg-decrypt-list-early-return', PGP, '        for skesk in iter(sk for sk in self._sessionkeys if isinstance(sk, SKESessionKey)):',
  '        candidates = [esk for esk in self._sessionkeys if isinstance(esk, SKESessionKey)]\n        for skesk in candidates:',
  more=[(PGP, '            else:\n                del passphrase\n                break\n\n        else:\n            raise PGPDecryptionError("Decryption failed")\n\n        return decmsg', '            del passphrase\n            return decmsg\n\n        raise PGPDecryptionError("Decryption failed")')])
T('C03', 'ag-pgp-shared-seipd-builder', PGP, 'class PGPSignature(Armorable, ParentRef, PGPObject):',
  'def _protect(plaintext, sessionkey, cipher_algo):\n    # wrap serialized packets in a Sym. Encrypted Integrity Protected Data packet\n    skedata = IntegrityProtectedSKEDataV1()\n    skedata.encrypt(sessionkey, cipher_algo, plaintext)\n    return skedata\n\n\nclass PGPSignature(Armorable, ParentRef, PGPObject):',
  more=[(PGP, '            skedata = IntegrityProtectedSKEDataV1()\n            skedata.encrypt(sessionkey, cipher_algo, self.__bytes__())\n            msg |= skedata', '            msg |= _protect(self.__bytes__(), sessionkey, cipher_algo)'),
        (PGP, '            skedata = IntegrityProtectedSKEDataV1()\n            skedata.encrypt(sessionkey, cipher_algo, message.__bytes__())\n            _m |= skedata', '            _m |= _protect(message.__bytes__(), sessionkey, cipher_algo)')])
T('C13', 'ag-key-encrypt-walrus', PGP, "        if sessionkey is None:\n            sessionkey = cipher_algo.gen_key()\n\n        # set up a new PKESessionKeyV3\n        pkesk = PKESessionKeyV3()\n        pkesk.encrypter = bytearray(binascii.unhexlify(self.fingerprint.keyid.encode('latin-1')))\n        pkesk.pkalg = self.key_algorithm\n        pkesk.encrypt_sk(self._key, cipher_algo, sessionkey)",
  "        if (sk := sessionkey) is None:\n            sk = cipher_algo.gen_key()\n\n        # set up a new PKESessionKeyV3\n        pkesk = PKESessionKeyV3()\n        pkesk.encrypter = bytearray(binascii.unhexlify(self.fingerprint.keyid.encode('latin-1')))\n        pkesk.pkalg = self.key_algorithm\n        pkesk.encrypt_sk(self._key, cipher_algo, sk)",
  more=[(PGP, '            skedata.encrypt(sessionkey, cipher_algo, message.__bytes__())', '            skedata.encrypt(sk, cipher_algo, message.__bytes__())')])
# ---- mutants by an independent agent that the rules did not report before (now: result assembly, block size, RSA wiring, point encoding, decrypt side, salted S2K, confinement in _encrypt, ephemeral key)
M('C03', 'ag-msg-encrypt-attaches-plaintext', PGP, '            msg |= skedata',
  '            msg |= self', 'C03.7')
M('C03', 'ag-key-encrypt-attaches-plaintext', PGP, '            _m |= skedata',
  '            _m |= message', 'C03.7')
M('C03', 'ag-msg-encrypt-returns-self', PGP, '        return msg\n\n    def decrypt(self, passphrase):',
  '        return self\n\n    def decrypt(self, passphrase):', 'C03.7')
M('C03', 'ag-key-encrypt-pkesk-not-attached', PGP, '        _m |= pkesk\n\n        return _m',
  '        return _m', 'C03.7')
M('C03', 'ag-msg-encrypt-container-not-attached', PGP, '            msg |= skedata\n',
  '', 'C03.7')
M('C03', 'ag-key-encrypt-pkesk-on-input', PGP, '        _m |= pkesk',
  '        message |= pkesk', 'C03.7')
M('C03', 'ag-blocksize-is-keysize', CO, '        return self.cipher.block_size',
  '        return self.key_size', 'C03.4')
M('C13', 'ag-blocksize-is-keysize', CO, '        return self.cipher.block_size',
  '        return self.key_size', 'C13.1')
M('C03', 'ag-ecdh-mapped-to-elgamal-ct', PK, '              PubKeyAlgorithm.ECDH: ECDHCipherText}',
  '              PubKeyAlgorithm.ECDH: ElGCipherText}', 'C03.1')
M('C03', 'ag-rsa-ct-little-endian', FL, '        ct.me_mod_n = MPI(cls.bytes_to_int(encfn(*args)))',
  "        ct.me_mod_n = MPI(int.from_bytes(encfn(*args), 'little'))", 'C03.1')
M('C03', 'ag-rsa-ct-decrypt-drops-octet', FL, '        return decfn(*args)',
  '        return decfn(*args)[1:]', 'C03.1')
M('C03', 'ag-ecdh-point-bitlen-fixed', FL, '            ct.p = ECPoint.from_values(km.oid.key_size, ECPointFormat.Standard, x, y)',
  '            ct.p = ECPoint.from_values(EllipticCurveOID.NIST_P256.key_size, ECPointFormat.Standard, x, y)', 'C03.5')
M('C03', 'ag-seipd-no-update-hlen', PK, '        self.update_hlen()\n\n    def decrypt(self, key, alg):',
  '\n    def decrypt(self, key, alg):', 'C03.2')
M('C03', 'ag-pkesk-decrypt-keylen-blocksize', PK, '        symkey = m[:symalg.key_size // 8]\n        del m[:symalg.key_size // 8]',
  '        klen = symalg.block_size // 8\n        symkey = m[:klen]\n        del m[:klen]', 'C03.1')
M('C03', 'ag-seipd-decrypt-prefix-keysize', PK, '        iv = bytes(pt[:alg.block_size // 8])\n        del pt[:alg.block_size // 8]',
  '        iv = bytes(pt[:alg.key_size // 8])\n        del pt[:alg.key_size // 8]', 'C03.2')
M('C03', 'ag-decrypt-container-alg-fixed', PGP, '        decmsg.parse(message.message.decrypt(key, alg))',
  '        decmsg.parse(message.message.decrypt(key, SymmetricKeyAlgorithm.AES256))', 'C03.7')
M('C03', 'ag-msg-decrypt-args-swapped', PGP, '                decmsg.parse(self.message.decrypt(key, symalg))',
  '                decmsg.parse(self.message.decrypt(symalg, key))', 'C03.7')
M('C03', 'ag-msg-decrypt-no-class-filter', PGP, '        for skesk in iter(sk for sk in self._sessionkeys if isinstance(sk, SKESessionKey)):',
  '        for skesk in iter(sk for sk in self._sessionkeys):', 'C03.8')
M('C03', 'ag-select-first-element', PGP, '        pkesk = next(pk for pk in message._sessionkeys if isinstance(pk, PKESessionKey)\n                     and pk.pkalg == self.key_algorithm and pk.encrypter == self.fingerprint.keyid)',
  '        pkesk = message._sessionkeys[0]', 'C03.8')
M('C03', 'ag-select-filter-lambda-no-keyid', PGP, '        pkesk = next(pk for pk in message._sessionkeys if isinstance(pk, PKESessionKey)\n                     and pk.pkalg == self.key_algorithm and pk.encrypter == self.fingerprint.keyid)',
  '        mine = filter(lambda pk: isinstance(pk, PKESessionKey) and pk.pkalg == self.key_algorithm,\n                      message._sessionkeys)\n        pkesk = next(mine)', 'C03.8')
M('C03', 'ag-select-loop-falls-back', PGP, '        pkesk = next(pk for pk in message._sessionkeys if isinstance(pk, PKESessionKey)\n                     and pk.pkalg == self.key_algorithm and pk.encrypter == self.fingerprint.keyid)',
  '        pkesk = None\n        for pk in message._sessionkeys:\n            if not isinstance(pk, PKESessionKey):\n                continue\n            if pk.encrypter == self.fingerprint.keyid or pkesk is None:\n                pkesk = pk', 'C03.8')
M('C13', 'ag-s2k-simple-specifier', PGP, '        skesk.s2k.specifier = 3',
  '        skesk.s2k.specifier = 0', 'C13.2')
M('C13', 'ag-leak-symenc-global', SE, '    try:\n        encryptor = Cipher(alg.cipher(key), modes.CFB(iv), default_backend()).encryptor()',
  '    global _last_key\n    _last_key = key\n    try:\n        encryptor = Cipher(alg.cipher(key), modes.CFB(iv), default_backend()).encryptor()', 'C13.3')
M('C13', 'ag-leak-symenc-exception-text', SE, '        raise PGPEncryptionError from ex',
  '        raise PGPEncryptionError("cipher setup failed for key {!r}".format(key)) from ex', 'C13.3')
M('C13', 'ag-ephemeral-stored-on-ct', FL, '            s = v.exchange(ec.ECDH(), km.__pubkey__())',
  '            s = v.exchange(ec.ECDH(), km.__pubkey__())\n            ct._v = v', 'C13.2')
# ---- mutants disguised by a refactoring (helper / temporary introduced AND semantics changed)
M('C03', 'ag-pkesk-helper-checksum-offbyone', PK, '    def encrypt_sk(self, pk, symalg, symkey):\n        m = bytearray(self.int_to_bytes(symalg) + symkey)\n        m += self.int_to_bytes(sum(bytearray(symkey)) % 65536, 2)',
  '    def _session_block(self, symalg, symkey):\n        body = bytearray(self.int_to_bytes(symalg) + symkey)\n        chk = sum(body[1:-1]) % 65536\n        return body + self.int_to_bytes(chk, 2)\n\n    def encrypt_sk(self, pk, symalg, symkey):\n        m = self._session_block(symalg, symkey)', 'C03.1')
M('C03', 'ag-seipd-helper-prefix-first2', PK, '    def encrypt(self, key, alg, data):\n        iv = alg.gen_iv()\n        data = iv + iv[-2:] + data',
  '    @staticmethod\n    def _random_prefix(alg):\n        block = alg.gen_iv()\n        return block + block[:2]\n\n    def encrypt(self, key, alg, data):\n        data = self._random_prefix(alg) + data', 'C03.2')
M('C03', 'ag-symenc-helper-default-cfb8', SE, 'def _encrypt(pt, key, alg, iv=None):',
  'def _cipher(alg, key, iv, mode=modes.CFB8):\n    return Cipher(alg.cipher(key), mode(iv), default_backend())\n\n\ndef _encrypt(pt, key, alg, iv=None):', 'C03.4',
  more=[(SE, '        encryptor = Cipher(alg.cipher(key), modes.CFB(iv), default_backend()).encryptor()', '        encryptor = _cipher(alg, key, iv, modes.CFB).encryptor()'),
        (SE, '        decryptor = Cipher(alg.cipher(key), modes.CFB(iv), default_backend()).decryptor()', '        decryptor = _cipher(alg, key, iv).decryptor()')])
M('C03', 'ag-select-helper-or', PGP, '        pkesk = next(pk for pk in message._sessionkeys if isinstance(pk, PKESessionKey)\n                     and pk.pkalg == self.key_algorithm and pk.encrypter == self.fingerprint.keyid)',
  '        def _candidates():\n            for pk in message._sessionkeys:\n                if not isinstance(pk, PKESessionKey):\n                    continue\n                if pk.encrypter == self.fingerprint.keyid or pk.pkalg == self.key_algorithm:\n                    yield pk\n        pkesk = next(_candidates())', 'C03.8')

T('C03', 'twin-decrypt-wiring-keywords', PGP, "        decmsg.parse(message.message.decrypt(key, alg))\n\n        return decmsg\n\n    def parse(self, data):", "        recovered = (alg, key)\n        decmsg.parse(message.message.decrypt(alg=recovered[0], key=recovered[1]))\n\n        return decmsg\n\n    def parse(self, data):")
M('C03', 'decrypt-wiring-cipher-from-own-prefs', PGP, "        decmsg.parse(message.message.decrypt(key, alg))\n\n        return decmsg\n\n    def parse(self, data):", "        decmsg.parse(message.message.decrypt(key, SymmetricKeyAlgorithm.AES256))\n\n        return decmsg\n\n    def parse(self, data):", 'C03.7')

T('C03', 'twin-m-value-int-to-bytes-method', PK, "        m = bytearray(self.int_to_bytes(symalg) + symkey)\n        m += self.int_to_bytes(sum(bytearray(symkey)) % 65536, 2)",
  "        m = bytearray(symalg.to_bytes(1, 'big') + symkey\n                      + (sum(bytearray(symkey)) % 65536).to_bytes(length=2, byteorder='big'))")
M('C03', 'm-value-checksum-little-endian', PK, "        m = bytearray(self.int_to_bytes(symalg) + symkey)\n        m += self.int_to_bytes(sum(bytearray(symkey)) % 65536, 2)",
  "        m = bytearray(symalg.to_bytes(1, 'big') + symkey\n                      + (sum(bytearray(symkey)) % 65536).to_bytes(2, 'little'))", 'C03.1')

T('C03', 'twin-decrypt-recipient-test-inverted', PGP, "        if self.fingerprint.keyid not in message.encrypters:\n            sks = set(self.subkeys)\n            mis = set(message.encrypters)\n            if sks & mis:\n                skid = list(sks & mis)[0]\n                return self.subkeys[skid].decrypt(message)\n\n            raise PGPError(\"Cannot decrypt the provided message with this key\")\n",
  "        mine = self.fingerprint.keyid\n        if mine in message.encrypters:\n            pass\n        else:\n            sks = set(self.subkeys)\n            mis = set(message.encrypters)\n            if sks & mis:\n                skid = list(sks & mis)[0]\n                return self.subkeys[skid].decrypt(message)\n\n            raise PGPError(\"Cannot decrypt the provided message with this key\")\n")
T('C16', 'twin-decrypt-recipient-test-inverted', PGP, "        if self.fingerprint.keyid not in message.encrypters:\n            sks = set(self.subkeys)\n            mis = set(message.encrypters)\n            if sks & mis:\n                skid = list(sks & mis)[0]\n                return self.subkeys[skid].decrypt(message)\n\n            raise PGPError(\"Cannot decrypt the provided message with this key\")\n",
  "        mine = self.fingerprint.keyid\n        if mine in message.encrypters:\n            pass\n        else:\n            sks = set(self.subkeys)\n            mis = set(message.encrypters)\n            if sks & mis:\n                skid = list(sks & mis)[0]\n                return self.subkeys[skid].decrypt(message)\n\n            raise PGPError(\"Cannot decrypt the provided message with this key\")\n")

# ---- round 2 of the independent refactoring agent (noisy before the engine / canonicaliser additions listed in DESIGN 10.9)
T('C03', 'ag2-pkalg-table-try-else', PK, '        ct = _c.get(self._pkalg, None)\n        self.ct = ct() if ct is not None else ct',
  '        try:\n            factory = _c[self._pkalg]\n\n        except KeyError:\n            self.ct = None\n\n        else:\n            self.ct = factory()')
T('C03', 'ag2-pkalg-module-table', PK, 'class PKESessionKey(VersionedPacket):',
  '_PKESK_CIPHERTEXT = {PubKeyAlgorithm.RSAEncryptOrSign: RSACipherText,\n                     PubKeyAlgorithm.RSAEncrypt: RSACipherText,\n                     PubKeyAlgorithm.ElGamal: ElGCipherText,\n                     PubKeyAlgorithm.FormerlyElGamalEncryptOrSign: ElGCipherText,\n                     PubKeyAlgorithm.ECDH: ECDHCipherText}\n\n\nclass PKESessionKey(VersionedPacket):',
  more=[(PK, '        _c = {PubKeyAlgorithm.RSAEncryptOrSign: RSACipherText,\n              PubKeyAlgorithm.RSAEncrypt: RSACipherText,\n              PubKeyAlgorithm.ElGamal: ElGCipherText,\n              PubKeyAlgorithm.FormerlyElGamalEncryptOrSign: ElGCipherText,\n              PubKeyAlgorithm.ECDH: ECDHCipherText}\n\n        ct = _c.get(self._pkalg, None)', '        ct = _PKESK_CIPHERTEXT.get(self._pkalg, None)')])
T('C03', 'ag2-rsact-setattr', FL, '        ct.me_mod_n = MPI(cls.bytes_to_int(encfn(*args)))',
  "        setattr(ct, 'me_mod_n', MPI(cls.bytes_to_int(encfn(*args))))")
T('C03', 'ag2-rsact-partial', FL, 'import hashlib',
  'import functools\nimport hashlib',
  more=[(FL, '    def encrypt(cls, encfn, *args):\n        ct = cls()\n        ct.me_mod_n = MPI(cls.bytes_to_int(encfn(*args)))\n        return ct\n\n    def decrypt(self, decfn, *args):\n        return decfn(*args)', "    def encrypt(cls, fn, *fnargs):\n        run = functools.partial(fn, *fnargs)\n        ct = cls()\n        ct.me_mod_n = MPI(int.from_bytes(run(), 'big'))\n        return ct\n\n    def decrypt(self, fn, *fnargs):\n        return functools.partial(fn, *fnargs)()")])
T('C03', 'ag2-mdc-a2b-hex', PK, '        return super(MDC, self).__bytearray__() + binascii.unhexlify(self.mdc)',
  '        return super(MDC, self).__bytearray__() + binascii.a2b_hex(self.mdc)')
T('C03', 'ag2-seipd-percent-format', PK, '        data = iv + iv[-2:] + data',
  "        data = b'%b%b%b' % (iv, iv[-2:], data)")
T('C03', 'ag2-pkesk-alg-properties', PK, '    def __init__(self):\n        super(PKESessionKeyV3, self).__init__()',
  '    @property\n    def _is_rsa(self):\n        return self.pkalg == PubKeyAlgorithm.RSAEncryptOrSign\n\n    @property\n    def _is_ecdh(self):\n        return self.pkalg == PubKeyAlgorithm.ECDH\n\n    def __init__(self):\n        super(PKESessionKeyV3, self).__init__()',
  more=[(PK, '        if self.pkalg == PubKeyAlgorithm.RSAEncryptOrSign:\n            encrypter = pk.keymaterial.__pubkey__().encrypt\n            encargs = (bytes(m), padding.PKCS1v15(),)\n\n        elif self.pkalg == PubKeyAlgorithm.ECDH:', '        if self._is_rsa:\n            encrypter = pk.keymaterial.__pubkey__().encrypt\n            encargs = (bytes(m), padding.PKCS1v15(),)\n\n        elif self._is_ecdh:')])
T('C03', 'ag2-pkesk-type-ct-classmethod', PK, '        self.ct = self.ct.encrypt(encrypter, *encargs)',
  '        self.ct = type(self.ct).encrypt(encrypter, *encargs)')
T('C03', 'ag2-pkesk-decrypt-star-tuple-call', PK, '        m = bytearray(self.ct.decrypt(decrypter, *decargs))',
  '        m = bytearray(self.ct.decrypt(*(decrypter, *decargs)))')
T('C03', 'ag2-skesk-parse-slice-forms', PK, '        _bytes = bytearray()\n        _bytes += super(SKESessionKeyV4, self).__bytearray__()\n        _bytes += self.s2k.__bytearray__()[1:]\n        _bytes += self.ct\n        return _bytes',
  '        return bytearray().join((super(SKESessionKeyV4, self).__bytearray__(),\n                                 self.s2k.__bytearray__()[1:],\n                                 self.ct))',
  more=[(PK, '        packet.insert(0, 255)\n        self.s2k.parse(packet, iv=False)\n\n        ctend = self.header.length - len(self.s2k)\n        self.ct = packet[:ctend]\n        del packet[:ctend]', "        packet[:0] = b'\\xff'\n        self.s2k.parse(packet, iv=False)\n\n        ctend = self.header.length - len(self.s2k)\n        self.ct, packet[:] = packet[:ctend], packet[ctend:]")])
T('C03', 'ag2-symenc-zero-iv-lambda-kwonly', SE, "def _encrypt(pt, key, alg, iv=None):\n    if iv is None:\n        iv = b'\\x00' * (alg.block_size // 8)",
  "_zero_iv = lambda alg: b'\\x00' * (alg.block_size // 8)  # noqa: E731\n\n\ndef _encrypt(pt, key, alg, iv=None, *, _backend=default_backend):\n    if iv is None:\n        iv = _zero_iv(alg)",
  more=[(SE, '        encryptor = Cipher(alg.cipher(key), modes.CFB(iv), default_backend()).encryptor()', '        encryptor = Cipher(alg.cipher(key), modes.CFB(iv), _backend()).encryptor()'),
        (SE, 'def _decrypt(ct, key, alg, iv=None):', 'def _decrypt(ct, key, alg, iv=None, *, _backend=default_backend):'),
        (SE, "        iv = b'\\x00' * (alg.block_size // 8)\n\n    try:\n        decryptor = Cipher(alg.cipher(key), modes.CFB(iv), default_backend()).decryptor()", '        iv = _zero_iv(alg)\n\n    try:\n        decryptor = Cipher(alg.cipher(key), modes.CFB(iv), _backend()).decryptor()')])
T('C03', 'ag2-eckdf-split-join-fingerprint', FL, "        data += binascii.unhexlify(fingerprint.replace(' ', ''))",
  "        data += binascii.unhexlify(''.join(fingerprint.split(' ')))")
T('C03', 'ag2-compress-import-aliases', CO, 'import bz2\nimport hashlib\nimport imghdr\nimport os\nimport zlib\nimport warnings',
  'import hashlib\nimport imghdr\nimport os\nimport warnings\n\nfrom bz2 import compress as bz2_compress\nfrom bz2 import decompress as bz2_decompress\nfrom zlib import MAX_WBITS\nfrom zlib import compress as zlib_compress\nfrom zlib import decompress as zlib_decompress',
  more=[(CO, '            return zlib.compress(data)[2:-4]\n\n        if self is CompressionAlgorithm.ZLIB:\n            return zlib.compress(data)\n\n        if self is CompressionAlgorithm.BZ2:\n            return bz2.compress(data)', '            return zlib_compress(data)[2:-4]\n\n        if self is CompressionAlgorithm.ZLIB:\n            return zlib_compress(data)\n\n        if self is CompressionAlgorithm.BZ2:\n            return bz2_compress(data)'),
        (CO, '            return zlib.decompress(data, -15)\n\n        if self is CompressionAlgorithm.ZLIB:\n            return zlib.decompress(data)\n\n        if self is CompressionAlgorithm.BZ2:\n            return bz2.decompress(data)', '            return zlib_decompress(data, -MAX_WBITS)\n\n        if self is CompressionAlgorithm.ZLIB:\n            return zlib_decompress(data)\n\n        if self is CompressionAlgorithm.BZ2:\n            return bz2_decompress(data)')])
T('C03', 'ag2-symalg-fromkeys-pairs', CO, "        bs = {SymmetricKeyAlgorithm.IDEA: algorithms.IDEA,\n              SymmetricKeyAlgorithm.TripleDES: algorithms.TripleDES,\n              SymmetricKeyAlgorithm.CAST5: algorithms.CAST5,\n              SymmetricKeyAlgorithm.Blowfish: algorithms.Blowfish,\n              SymmetricKeyAlgorithm.AES128: algorithms.AES,\n              SymmetricKeyAlgorithm.AES192: algorithms.AES,\n              SymmetricKeyAlgorithm.AES256: algorithms.AES,\n              SymmetricKeyAlgorithm.Twofish256: namedtuple('Twofish256', ['block_size'])(block_size=128),\n              SymmetricKeyAlgorithm.Camellia128: algorithms.Camellia,\n              SymmetricKeyAlgorithm.Camellia192: algorithms.Camellia,\n              SymmetricKeyAlgorithm.Camellia256: algorithms.Camellia}",
  "        bs = dict([(SymmetricKeyAlgorithm.IDEA, algorithms.IDEA),\n                   (SymmetricKeyAlgorithm.TripleDES, algorithms.TripleDES),\n                   (SymmetricKeyAlgorithm.CAST5, algorithms.CAST5),\n                   (SymmetricKeyAlgorithm.Blowfish, algorithms.Blowfish),\n                   (SymmetricKeyAlgorithm.AES128, algorithms.AES),\n                   (SymmetricKeyAlgorithm.AES192, algorithms.AES),\n                   (SymmetricKeyAlgorithm.AES256, algorithms.AES),\n                   (SymmetricKeyAlgorithm.Twofish256, namedtuple('Twofish256', ['block_size'])(block_size=128)),\n                   (SymmetricKeyAlgorithm.Camellia128, algorithms.Camellia),\n                   (SymmetricKeyAlgorithm.Camellia192, algorithms.Camellia),\n                   (SymmetricKeyAlgorithm.Camellia256, algorithms.Camellia)])",
  more=[(CO, '        return self.cipher.block_size\n\n    @property\n    def key_size(self):\n        ks = {SymmetricKeyAlgorithm.IDEA: 128,\n              SymmetricKeyAlgorithm.TripleDES: 192,\n              SymmetricKeyAlgorithm.CAST5: 128,\n              SymmetricKeyAlgorithm.Blowfish: 128,\n              SymmetricKeyAlgorithm.AES128: 128,\n              SymmetricKeyAlgorithm.AES192: 192,\n              SymmetricKeyAlgorithm.AES256: 256,\n              SymmetricKeyAlgorithm.Twofish256: 256,\n              SymmetricKeyAlgorithm.Camellia128: 128,\n              SymmetricKeyAlgorithm.Camellia192: 192,\n              SymmetricKeyAlgorithm.Camellia256: 256}', "        cipher = self.cipher\n        return getattr(cipher, 'block_size')\n\n    @property\n    def key_size(self):\n        ks = {**dict.fromkeys((SymmetricKeyAlgorithm.IDEA,\n                               SymmetricKeyAlgorithm.CAST5,\n                               SymmetricKeyAlgorithm.Blowfish,\n                               SymmetricKeyAlgorithm.AES128,\n                               SymmetricKeyAlgorithm.Camellia128), 128),\n              **dict.fromkeys((SymmetricKeyAlgorithm.TripleDES,\n                               SymmetricKeyAlgorithm.AES192,\n                               SymmetricKeyAlgorithm.Camellia192), 192),\n              **dict.fromkeys((SymmetricKeyAlgorithm.AES256,\n                               SymmetricKeyAlgorithm.Twofish256,\n                               SymmetricKeyAlgorithm.Camellia256), 256)}")])
T('C13', 'ag2-symalg-fromkeys-pairs', CO, "        bs = {SymmetricKeyAlgorithm.IDEA: algorithms.IDEA,\n              SymmetricKeyAlgorithm.TripleDES: algorithms.TripleDES,\n              SymmetricKeyAlgorithm.CAST5: algorithms.CAST5,\n              SymmetricKeyAlgorithm.Blowfish: algorithms.Blowfish,\n              SymmetricKeyAlgorithm.AES128: algorithms.AES,\n              SymmetricKeyAlgorithm.AES192: algorithms.AES,\n              SymmetricKeyAlgorithm.AES256: algorithms.AES,\n              SymmetricKeyAlgorithm.Twofish256: namedtuple('Twofish256', ['block_size'])(block_size=128),\n              SymmetricKeyAlgorithm.Camellia128: algorithms.Camellia,\n              SymmetricKeyAlgorithm.Camellia192: algorithms.Camellia,\n              SymmetricKeyAlgorithm.Camellia256: algorithms.Camellia}",
  "        bs = dict([(SymmetricKeyAlgorithm.IDEA, algorithms.IDEA),\n                   (SymmetricKeyAlgorithm.TripleDES, algorithms.TripleDES),\n                   (SymmetricKeyAlgorithm.CAST5, algorithms.CAST5),\n                   (SymmetricKeyAlgorithm.Blowfish, algorithms.Blowfish),\n                   (SymmetricKeyAlgorithm.AES128, algorithms.AES),\n                   (SymmetricKeyAlgorithm.AES192, algorithms.AES),\n                   (SymmetricKeyAlgorithm.AES256, algorithms.AES),\n                   (SymmetricKeyAlgorithm.Twofish256, namedtuple('Twofish256', ['block_size'])(block_size=128)),\n                   (SymmetricKeyAlgorithm.Camellia128, algorithms.Camellia),\n                   (SymmetricKeyAlgorithm.Camellia192, algorithms.Camellia),\n                   (SymmetricKeyAlgorithm.Camellia256, algorithms.Camellia)])",
  more=[(CO, '        return self.cipher.block_size\n\n    @property\n    def key_size(self):\n        ks = {SymmetricKeyAlgorithm.IDEA: 128,\n              SymmetricKeyAlgorithm.TripleDES: 192,\n              SymmetricKeyAlgorithm.CAST5: 128,\n              SymmetricKeyAlgorithm.Blowfish: 128,\n              SymmetricKeyAlgorithm.AES128: 128,\n              SymmetricKeyAlgorithm.AES192: 192,\n              SymmetricKeyAlgorithm.AES256: 256,\n              SymmetricKeyAlgorithm.Twofish256: 256,\n              SymmetricKeyAlgorithm.Camellia128: 128,\n              SymmetricKeyAlgorithm.Camellia192: 192,\n              SymmetricKeyAlgorithm.Camellia256: 256}', "        cipher = self.cipher\n        return getattr(cipher, 'block_size')\n\n    @property\n    def key_size(self):\n        ks = {**dict.fromkeys((SymmetricKeyAlgorithm.IDEA,\n                               SymmetricKeyAlgorithm.CAST5,\n                               SymmetricKeyAlgorithm.Blowfish,\n                               SymmetricKeyAlgorithm.AES128,\n                               SymmetricKeyAlgorithm.Camellia128), 128),\n              **dict.fromkeys((SymmetricKeyAlgorithm.TripleDES,\n                               SymmetricKeyAlgorithm.AES192,\n                               SymmetricKeyAlgorithm.Camellia192), 192),\n              **dict.fromkeys((SymmetricKeyAlgorithm.AES256,\n                               SymmetricKeyAlgorithm.Twofish256,\n                               SymmetricKeyAlgorithm.Camellia256), 256)}")])
T('C03', 'ag2-msg-decrypt-filter-named-pred', PGP, '        for skesk in iter(sk for sk in self._sessionkeys if isinstance(sk, SKESessionKey)):',
  '        def _is_skesk(sk):\n            return isinstance(sk, SKESessionKey)\n\n        for skesk in filter(_is_skesk, self._sessionkeys):')
T('C03', 'ag2-key-decrypt-star-reversed', PGP, '        alg, key = pkesk.decrypt_sk(self._key)\n\n        # now that we have the symmetric cipher used and the key, we can decrypt the actual message\n        decmsg = PGPMessage()\n        decmsg.parse(message.message.decrypt(key, alg))',
  '        unwrapped = pkesk.decrypt_sk(self._key)\n\n        # now that we have the symmetric cipher used and the key, we can decrypt the actual message\n        decmsg = PGPMessage()\n        decmsg.parse(message.message.decrypt(*reversed(unwrapped)))')
T('C03', 'ag2-key-decrypt-nested-def-predicate', PGP, '        pkesk = next(pk for pk in message._sessionkeys if isinstance(pk, PKESessionKey)\n                     and pk.pkalg == self.key_algorithm and pk.encrypter == self.fingerprint.keyid)',
  '        def _addressed_to_me(pk):\n            if not isinstance(pk, PKESessionKey):\n                return False\n            return pk.pkalg == self.key_algorithm and pk.encrypter == self.fingerprint.keyid\n\n        pkesk = next(pk for pk in message._sessionkeys if _addressed_to_me(pk))')
T('C03', 'ag2-seipd-default-arg-const', PK, "    def encrypt(self, key, alg, data):\n        iv = alg.gen_iv()\n        data = iv + iv[-2:] + data\n\n        mdc = MDC()\n        mdc.mdc = binascii.hexlify(hashlib.new('SHA1', data + b'\\xd3\\x14').digest())",
  "    def encrypt(self, key, alg, data, _mdc_header=b'\\xd3\\x14'):\n        iv = alg.gen_iv()\n        data = iv + iv[-2:] + data\n\n        mdc = MDC()\n        mdc.mdc = binascii.hexlify(hashlib.new('SHA1', data + _mdc_header).digest())")
T('C03', 'ag2-ecdh-closures-condexpr', FL, '        if km.oid == EllipticCurveOID.Curve25519:\n            v = x25519.X25519PrivateKey.generate()\n            x = v.public_key().public_bytes(encoding=serialization.Encoding.Raw, format=serialization.PublicFormat.Raw)\n            ct.p = ECPoint.from_values(km.oid.key_size, ECPointFormat.Native, x)\n            s = v.exchange(km.__pubkey__())\n        else:\n            v = ec.generate_private_key(km.oid.curve(), default_backend())\n            x = MPI(v.public_key().public_numbers().x)\n            y = MPI(v.public_key().public_numbers().y)\n            ct.p = ECPoint.from_values(km.oid.key_size, ECPointFormat.Standard, x, y)\n            s = v.exchange(ec.ECDH(), km.__pubkey__())',
  '        def _x25519():\n            v = x25519.X25519PrivateKey.generate()\n            x = v.public_key().public_bytes(encoding=serialization.Encoding.Raw, format=serialization.PublicFormat.Raw)\n            return ECPoint.from_values(km.oid.key_size, ECPointFormat.Native, x), v.exchange(km.__pubkey__())\n\n        def _weierstrass():\n            v = ec.generate_private_key(km.oid.curve(), default_backend())\n            x = MPI(v.public_key().public_numbers().x)\n            y = MPI(v.public_key().public_numbers().y)\n            return ECPoint.from_values(km.oid.key_size, ECPointFormat.Standard, x, y), v.exchange(ec.ECDH(), km.__pubkey__())\n\n        ct.p, s = _x25519() if km.oid == EllipticCurveOID.Curve25519 else _weierstrass()')
T('C13', 'ag2-ecdh-closures-condexpr', FL, '        if km.oid == EllipticCurveOID.Curve25519:\n            v = x25519.X25519PrivateKey.generate()\n            x = v.public_key().public_bytes(encoding=serialization.Encoding.Raw, format=serialization.PublicFormat.Raw)\n            ct.p = ECPoint.from_values(km.oid.key_size, ECPointFormat.Native, x)\n            s = v.exchange(km.__pubkey__())\n        else:\n            v = ec.generate_private_key(km.oid.curve(), default_backend())\n            x = MPI(v.public_key().public_numbers().x)\n            y = MPI(v.public_key().public_numbers().y)\n            ct.p = ECPoint.from_values(km.oid.key_size, ECPointFormat.Standard, x, y)\n            s = v.exchange(ec.ECDH(), km.__pubkey__())',
  '        def _x25519():\n            v = x25519.X25519PrivateKey.generate()\n            x = v.public_key().public_bytes(encoding=serialization.Encoding.Raw, format=serialization.PublicFormat.Raw)\n            return ECPoint.from_values(km.oid.key_size, ECPointFormat.Native, x), v.exchange(km.__pubkey__())\n\n        def _weierstrass():\n            v = ec.generate_private_key(km.oid.curve(), default_backend())\n            x = MPI(v.public_key().public_numbers().x)\n            y = MPI(v.public_key().public_numbers().y)\n            return ECPoint.from_values(km.oid.key_size, ECPointFormat.Standard, x, y), v.exchange(ec.ECDH(), km.__pubkey__())\n\n        ct.p, s = _x25519() if km.oid == EllipticCurveOID.Curve25519 else _weierstrass()')
T('C03', 'ag2-key-encrypt-partial-bound-method', PGP, '        pkesk.encrypt_sk(self._key, cipher_algo, sessionkey)',
  '        wrap = pkesk.encrypt_sk\n        wrap(self._key, cipher_algo, sessionkey)',
  more=[(PGP, '            skedata.encrypt(sessionkey, cipher_algo, message.__bytes__())', '            seal = functools.partial(skedata.encrypt, sessionkey, cipher_algo)\n            seal(message.__bytes__())')])
T('C13', 'ag2-key-encrypt-partial-bound-method', PGP, '        pkesk.encrypt_sk(self._key, cipher_algo, sessionkey)',
  '        wrap = pkesk.encrypt_sk\n        wrap(self._key, cipher_algo, sessionkey)',
  more=[(PGP, '            skedata.encrypt(sessionkey, cipher_algo, message.__bytes__())', '            seal = functools.partial(skedata.encrypt, sessionkey, cipher_algo)\n            seal(message.__bytes__())')])
T('C03', 'ag2-header-init-setattr-loop', TY, '    def __init__(self):\n        super(Header, self).__init__()\n        self._len = 1\n        self._llen = 1\n        self._lenfmt = 1\n        self._partial = False',
  "    def __init__(self, _newfmt=1):\n        super(Header, self).__init__()\n        for name, value in (('_len', 1), ('_llen', 1), ('_lenfmt', _newfmt), ('_partial', False)):\n            setattr(self, name, value)")
T('C03', 'ag2-symenc-zero-iv-to-bytes-ljust', SE, "        iv = b'\\x00' * (alg.block_size // 8)\n\n    if alg.is_insecure:",
  "        iv = (0).to_bytes(alg.block_size // 8, 'big')\n\n    if alg.is_insecure:",
  more=[(SE, "        iv = b'\\x00' * (alg.block_size // 8)", "        iv = b''.ljust(alg.block_size // 8, b'\\x00')")])
T('C03', 'ag2-pkesk-checksum-reduce-divmod', PK, 'import hashlib',
  'import functools\nimport hashlib\nimport operator',
  more=[(PK, '        m += self.int_to_bytes(sum(bytearray(symkey)) % 65536, 2)', '        _, checksum = divmod(functools.reduce(operator.add, bytearray(symkey), 0), 65536)\n        m += self.int_to_bytes(checksum, 2)')])
T('C13', 'ag2-pkesk-checksum-reduce-divmod', PK, 'import hashlib',
  'import functools\nimport hashlib\nimport operator',
  more=[(PK, '        m += self.int_to_bytes(sum(bytearray(symkey)) % 65536, 2)', '        _, checksum = divmod(functools.reduce(operator.add, bytearray(symkey), 0), 65536)\n        m += self.int_to_bytes(checksum, 2)')])
T('C03', 'ag2-decompress-partial-dispatch', CO, 'import hashlib',
  'import functools\nimport hashlib',
  more=[(CO, '        if self is CompressionAlgorithm.Uncompressed:\n            return data\n\n        if self is CompressionAlgorithm.ZIP:\n            return zlib.decompress(data, -15)\n\n        if self is CompressionAlgorithm.ZLIB:\n            return zlib.decompress(data)\n\n        if self is CompressionAlgorithm.BZ2:\n            return bz2.decompress(data)\n\n        raise NotImplementedError(self)', '        inflaters = {CompressionAlgorithm.ZIP: functools.partial(zlib.decompress, wbits=-15),\n                     CompressionAlgorithm.ZLIB: zlib.decompress,\n                     CompressionAlgorithm.BZ2: bz2.decompress}\n\n        if self is CompressionAlgorithm.Uncompressed:\n            return data\n\n        if self not in inflaters:\n            raise NotImplementedError(self)\n\n        return inflaters[self](data)')])
T('C03', 'ag2-header-operator-or', PT, '\nfrom ..constants import PacketTag',
  'import operator\n\nfrom ..constants import PacketTag',
  more=[(PT, '        tag = 0x80 | (self._lenfmt << 6)\n        tag |= (self.tag) if self._lenfmt else ((self.tag << 2) | {1: 0, 2: 1, 4: 2, 0: 3}[self.llen])', '        tag = operator.or_(0x80, self._lenfmt << 6)\n        tag = operator.or_(tag, (self.tag) if self._lenfmt else ((self.tag << 2) | {1: 0, 2: 1, 4: 2, 0: 3}[self.llen]))')])
T('C13', 'ag2-geniv-operator-floordiv', CO, 'import os',
  'import operator\nimport os',
  more=[(CO, '        return os.urandom(self.block_size // 8)\n\n    def gen_key(self):\n        return os.urandom(self.key_size // 8)', '        return bytes(os.urandom(operator.floordiv(self.block_size, 8)))\n\n    def gen_key(self):\n        return bytes(os.urandom(operator.floordiv(self.key_size, 8)))')])
T('C13', 'ag2-geniv-getattr-urandom', CO, '    def gen_iv(self):\n        return os.urandom(self.block_size // 8)\n\n    def gen_key(self):\n        return os.urandom(self.key_size // 8)',
  "    @staticmethod\n    def _octets(bits):\n        return bits // 8\n\n    def gen_iv(self):\n        return getattr(os, 'urandom')(self._octets(bits=self.block_size))\n\n    def gen_key(self):\n        return getattr(os, 'urandom')(self._octets(bits=self.key_size))")
T('C13', 'ag2-keyblob-urandom-alias', FL, '        self.s2k.iv = enc_alg.gen_iv()\n        self.s2k.halg = hash_alg\n        self.s2k.salt = bytearray(os.urandom(8))',
  '        rand = os.urandom\n        self.s2k.iv = enc_alg.gen_iv()\n        self.s2k.halg = hash_alg\n        salt = rand(8)\n        self.s2k.salt = bytearray(salt)')
T('C13', 'ag2-geniv-inline-blocksize', CO, '        return os.urandom(self.block_size // 8)\n\n    def gen_key(self):\n        return os.urandom(self.key_size // 8)',
  '        return os.urandom(self.cipher.block_size // 8)\n\n    def gen_key(self):\n        # every key size in the table is a whole number of octets\n        return os.urandom((self.key_size + 7) // 8)')
# ---- round 2 of the independent mutation agent: gaps closed (captured secrets, point coordinates, result object, re-addressing arm, parse order, ...)
M('C13', 'ag2-key-captured-in-closure', PK, '        self.update_hlen()\n\n    def decrypt(self, key, alg):',
  '        self.reseal = lambda body: _encrypt(body, key, alg)\n        self.update_hlen()\n\n    def decrypt(self, key, alg):', 'C13.3')
M('C13', 'ag2-ephemeral-captured-in-closure', FL, '        ct.c = aes_key_wrap(z, m, default_backend())',
  '        ct.c = aes_key_wrap(z, m, default_backend())\n        ct.shared_with = lambda other: v.exchange(ec.ECDH(), other) if km.oid != EllipticCurveOID.Curve25519 else v.exchange(other)', 'C13.2')
M('C13', 'ag2-key-in-stored-genexp', PK, '        self.update_hlen()\n\n    def decrypt(self, key, alg):',
  '        self._more = (_encrypt(chunk, key, alg) for chunk in ())\n        self.update_hlen()\n\n    def decrypt(self, key, alg):', 'C13.3')
M('C13', 'ag2-lambda-default-binds-key', PK, '        self.update_hlen()\n\n    def decrypt(self, key, alg):',
  '        self.reseal = lambda body, _k=key, _a=alg: _encrypt(body, _k, _a)\n        self.update_hlen()\n\n    def decrypt(self, key, alg):', 'C13.3')
M('C13', 'ag2-inner-class-captures-key', PK, '        self.update_hlen()\n\n    def decrypt(self, key, alg):',
  '\n        class _Params(object):\n            cipher = alg\n            secret = key\n        self.params = _Params\n        self.update_hlen()\n\n    def decrypt(self, key, alg):', 'C13.3')
M('C13', 'ag2-function-attr-closure', SE, '    if alg.is_insecure:',
  '    _encrypt.replay = lambda data: Cipher(alg.cipher(key), modes.CFB(iv), default_backend()).encryptor().update(data)\n\n    if alg.is_insecure:', 'C13.3')
M('C13', 'ag2-assert-message-key', PGP, '        # set up a new PKESessionKeyV3',
  '        assert len(sessionkey) == cipher_algo.key_size // 8, sessionkey\n\n        # set up a new PKESessionKeyV3', 'C13.3')
M('C13', 'ag2-locals-snapshot', PGP, '        return msg\n\n    def decrypt(self, passphrase):',
  '        msg._origin = dict(locals())\n        return msg\n\n    def decrypt(self, passphrase):', 'C13.3')
M('C13', 'ag2-genkey-alias-of-geniv', CO, '    def gen_key(self):\n        return os.urandom(self.key_size // 8)',
  '    gen_key = gen_iv', 'C13.1')
M('C03', 'ag2-ecdh-point-xy-swapped', FL, '            x = MPI(v.public_key().public_numbers().x)\n            y = MPI(v.public_key().public_numbers().y)\n            ct.p = ECPoint.from_values(km.oid.key_size, ECPointFormat.Standard, x, y)',
  '            pn = v.public_key().public_numbers()\n            px, py = MPI(pn.y), MPI(pn.x)\n            ct.p = ECPoint.from_values(km.oid.key_size, ECPointFormat.Standard, px, py)', 'C03.5')
M('C03', 'ag2-ecdh-decrypt-point-kwargs-swapped', FL, '            v = ec.EllipticCurvePublicNumbers(self.p.x, self.p.y, km.oid.curve()).public_key(default_backend())',
  '            v = ec.EllipticCurvePublicNumbers(x=self.p.y, y=self.p.x, curve=km.oid.curve()).public_key(default_backend())', 'C03.5')
M('C03', 'ag2-x25519-point-bytes-reversed', FL, '            ct.p = ECPoint.from_values(km.oid.key_size, ECPointFormat.Native, x)',
  '            ct.p = ECPoint.from_values(km.oid.key_size, ECPointFormat.Native, x[::-1])', 'C03.5')
M('C03', 'ag2-x25519-decrypt-point-reversed', FL, '            v = x25519.X25519PublicKey.from_public_bytes(self.p.x)',
  '            v = x25519.X25519PublicKey.from_public_bytes(bytes(self.p.x)[::-1])', 'C03.5')
M('C03', 'ag2-rsact-returns-empty-object', FL, '        ct = cls()\n        ct.me_mod_n = MPI(cls.bytes_to_int(encfn(*args)))',
  '        ct, out = cls(), cls()\n        out.me_mod_n = MPI(cls.bytes_to_int(encfn(*args)))', 'C03.1')
M('C03', 'ag2-ecdh-c-set-on-class', FL, '        ct.c = aes_key_wrap(z, m, default_backend())',
  '        cls.c = aes_key_wrap(z, m, default_backend())', 'C03.5')
M('C03', 'ag2-pkesk-only-in-else-arm', PGP, '\n        _m |= pkesk',
  '            _m |= pkesk', 'C03.7')
M('C03', 'ag2-skesk-only-in-plain-arm', PGP, '        msg = PGPMessage() | skesk\n\n        if not self.is_encrypted:\n            skedata = IntegrityProtectedSKEDataV1()\n            skedata.encrypt(sessionkey, cipher_algo, self.__bytes__())\n            msg |= skedata\n\n        else:\n            msg |= self',
  '        if not self.is_encrypted:\n            msg = PGPMessage() | skesk\n            skedata = IntegrityProtectedSKEDataV1()\n            skedata.encrypt(sessionkey, cipher_algo, self.__bytes__())\n            msg |= skedata\n\n        else:\n            msg = PGPMessage() | self', 'C03.7')
M('C03', 'ag2-skesk-parse-ctend-before-s2k', PK, '        self.s2k.parse(packet, iv=False)\n\n        ctend = self.header.length - len(self.s2k)',
  '        ctend = self.header.length - len(self.s2k)\n        self.s2k.parse(packet, iv=False)\n', 'C03.3')
M('C03', 'ag2-blocksize-table-missing-cast5', CO, '        return self.cipher.block_size',
  '        narrow = {SymmetricKeyAlgorithm.IDEA, SymmetricKeyAlgorithm.TripleDES, SymmetricKeyAlgorithm.Blowfish}\n        if not self.is_supported:\n            return self.cipher.block_size\n        return 64 if self in narrow else 128', 'C03.4')
M('C03', 'ag2-select-short-keyid', PGP, '                     and pk.pkalg == self.key_algorithm and pk.encrypter == self.fingerprint.keyid)',
  '                     and pk.pkalg == self.key_algorithm and pk.encrypter[-8:] == self.fingerprint.keyid[-8:])', 'C03.8')

# ---- wave 2 (held-out seeded mutants) and their kin: split try blocks, tolerated-exception lists, copies where identity matters,
#      state copied instead of shared, reordered hash input, caches
TRY1 = ("            try:\n                symalg, key = skesk.decrypt_sk(passphrase)\n                decmsg = PGPMessage()\n                decmsg.parse(self.message.decrypt(key, symalg))\n\n"
        "            except (TypeError, ValueError, NotImplementedError, PGPDecryptionError):\n                continue\n")
M('C03', 'decrypt-try-split-second-step-narrower', PGP, TRY1,
  "            try:\n                symalg, key = skesk.decrypt_sk(passphrase)\n\n            except (TypeError, ValueError, NotImplementedError):\n                continue\n\n"
  "            try:\n                decmsg = PGPMessage()\n                decmsg.parse(self.message.decrypt(key, symalg))\n\n            except (TypeError, ValueError, PGPDecryptionError):\n                continue\n", 'C03.8')
M('C03', 'decrypt-try-covers-first-step-only', PGP, TRY1 + "\n            else:\n                del passphrase\n                break\n",
  "            try:\n                symalg, key = skesk.decrypt_sk(passphrase)\n\n            except (TypeError, ValueError, NotImplementedError, PGPDecryptionError):\n                continue\n\n"
  "            decmsg = PGPMessage()\n            decmsg.parse(self.message.decrypt(key, symalg))\n            del passphrase\n            break\n", 'C03.8')
M('C03', 'decrypt-valueerror-no-longer-tolerated', PGP, "            except (TypeError, ValueError, NotImplementedError, PGPDecryptionError):\n                continue\n\n            else:\n                del passphrase",
  "            except (TypeError, NotImplementedError, PGPDecryptionError):\n                continue\n\n            else:\n                del passphrase", 'C03.8')
M('C03', 'decrypt-failure-reraised-as-decryption-error', PGP, "            except (TypeError, ValueError, NotImplementedError, PGPDecryptionError):\n                continue\n\n            else:\n                del passphrase",
  "            except (TypeError, ValueError, NotImplementedError):\n                continue\n\n            except PGPDecryptionError:\n                raise\n\n            else:\n                del passphrase", 'C03.8')
T('C03', 'twin-decrypt-try-split-same-tolerance', PGP, TRY1,
  "            wrong_candidate = (TypeError, ValueError, NotImplementedError, PGPDecryptionError)\n            try:\n                symalg, key = skesk.decrypt_sk(passphrase)\n\n            except wrong_candidate:\n                continue\n\n"
  "            try:\n                decmsg = PGPMessage()\n                decmsg.parse(self.message.decrypt(key, symalg))\n\n            except Exception:\n                continue\n")
M('C03', 'key-encrypt-readdress-on-a-copy', PGP, "        if message.is_encrypted:  # pragma: no cover\n            _m = message\n", "        if message.is_encrypted:  # pragma: no cover\n            _m = copy.copy(message)\n", 'C03.7')
M('C03', 'msg-encrypt-readdress-attaches-a-copy', PGP, "        else:\n            msg |= self\n\n        return msg\n\n    def decrypt(self, passphrase):", "        else:\n            msg |= copy.copy(self)\n\n        return msg\n\n    def decrypt(self, passphrase):", 'C03.7')
M('C03', 'msg-encrypt-skesk-copy-gets-the-key', PGP, "        skesk.encrypt_sk(passphrase, sessionkey)\n        del passphrase\n\n        msg = PGPMessage() | skesk", "        copy.copy(skesk).encrypt_sk(passphrase, sessionkey)\n        del passphrase\n\n        msg = PGPMessage() | skesk", 'C03.7')
M('C03', 'seipd-mdc-hash-trailer-first', PK, "        mdc.mdc = binascii.hexlify(hashlib.new('SHA1', data + b'\\xd3\\x14').digest())", "        _h = hashlib.new('SHA1', b'\\xd3\\x14')\n        _h.update(data)\n        mdc.mdc = binascii.hexlify(_h.digest())", 'C03.2')
M('C03', 'seipd-mdc-hash-forked-before-prefix', PK, "        iv = alg.gen_iv()\n        data = iv + iv[-2:] + data\n\n        mdc = MDC()\n        mdc.mdc = binascii.hexlify(hashlib.new('SHA1', data + b'\\xd3\\x14').digest())",
  "        iv = alg.gen_iv()\n        _base = hashlib.new('SHA1', data)\n        data = iv + iv[-2:] + data\n\n        mdc = MDC()\n        _h = _base.copy()\n        _h.update(iv + iv[-2:] + b'\\xd3\\x14')\n        mdc.mdc = binascii.hexlify(_h.digest())", 'C03.2')
T('C03', 'twin-seipd-mdc-hash-forked-state', PK, "        mdc.mdc = binascii.hexlify(hashlib.new('SHA1', data + b'\\xd3\\x14').digest())", "        _base = hashlib.new('SHA1', data)\n        _h = _base.copy()\n        _h.update(b'\\xd3\\x14')\n        mdc.mdc = binascii.hexlify(_h.digest())")
M('C03', 'kdf-param-cached-per-curve', FL, "        ckdf = ConcatKDFHash(algorithm=getattr(hashes, self.halg.name)(), length=self.encalg.key_size // 8, otherinfo=bytes(data), backend=default_backend())",
  "        data = self.__dict__.setdefault('_param_cache', {}).setdefault(curve, bytes(data))\n        ckdf = ConcatKDFHash(algorithm=getattr(hashes, self.halg.name)(), length=self.encalg.key_size // 8, otherinfo=data, backend=default_backend())", 'C03.5')
M('C13', 'keyblob-protection-state-taken-over', FL, "    def encrypt_keyblob(self, passphrase, enc_alg, hash_alg):\n        # PGPy will only ever use iterated and salted S2k mode\n        self.s2k.usage = 254",
  "    def encrypt_keyblob(self, passphrase, enc_alg, hash_alg, reuse=None):\n        # PGPy will only ever use iterated and salted S2k mode\n        self.s2k.usage = 254", 'C13.2',
  more=[(FL, "        self.s2k.iv = enc_alg.gen_iv()\n        self.s2k.halg = hash_alg\n        self.s2k.salt = bytearray(os.urandom(8))\n", "        self.s2k.iv = enc_alg.gen_iv() if reuse is None else reuse.iv\n        self.s2k.halg = hash_alg\n        self.s2k.salt = bytearray(os.urandom(8)) if reuse is None else reuse.salt\n"),
        (PK, "        self.keymaterial.encrypt_keyblob(passphrase, enc_alg, hash_alg)\n", "        self.keymaterial.encrypt_keyblob(passphrase, enc_alg, hash_alg, getattr(self, '_protect_like', None))\n")])
M('C13', 'session-key-cached-per-message', PGP, "        if sessionkey is None:\n            sessionkey = cipher_algo.gen_key()\n\n        # set up a new PKESessionKeyV3",
  "        if sessionkey is None:\n            sessionkey = message.__dict__.setdefault('_sk', cipher_algo.gen_key())\n\n        # set up a new PKESessionKeyV3", 'C13.2')
M('C13', 'skesk-salt-shared-with-copy', PK, "        self.s2k.salt = bytearray(os.urandom(8))\n        esk = self.s2k.derive_key(passphrase)", "        self.s2k = copy.copy(self.s2k)\n        self.s2k.salt = self.s2k.salt or bytearray(os.urandom(8))\n        esk = self.s2k.derive_key(passphrase)", 'C13.2')

M('C03', 'pkesk-wire-keyid-truncated', PK, "        _bytes += binascii.unhexlify(self.encrypter.encode())\n        _bytes += bytearray([self.pkalg])", "        _bytes += binascii.unhexlify(self.encrypter.encode()[:8])\n        _bytes += bytearray([self.pkalg])", 'C03.1')
T('C03', 'twin-pkesk-wire-single-expression', PK, "        _bytes = bytearray()\n        _bytes += super(PKESessionKeyV3, self).__bytearray__()\n        _bytes += binascii.unhexlify(self.encrypter.encode())\n        _bytes += bytearray([self.pkalg])\n        _bytes += self.ct.__bytearray__() if self.ct is not None else b'\\x00' * (self.header.length - 10)\n        return _bytes",
  "        keyid = binascii.a2b_hex(self.encrypter.encode('ascii'))\n        body = self.ct.__bytearray__() if self.ct is not None else bytes(self.header.length - 10)\n        return b''.join([super(PKESessionKeyV3, self).__bytearray__(), keyid, bytes([self.pkalg]), body])")

# ---- one curve test, two consecutive if/else blocks driven by the same local flag (held-out twin C13-ref8)
ECDH_ARMS = ("        if km.oid == EllipticCurveOID.Curve25519:\n            v = x25519.X25519PrivateKey.generate()\n            x = v.public_key().public_bytes(encoding=serialization.Encoding.Raw, format=serialization.PublicFormat.Raw)\n"
             "            ct.p = ECPoint.from_values(km.oid.key_size, ECPointFormat.Native, x)\n            s = v.exchange(km.__pubkey__())\n        else:\n"
             "            v = ec.generate_private_key(km.oid.curve(), default_backend())\n            x = MPI(v.public_key().public_numbers().x)\n            y = MPI(v.public_key().public_numbers().y)\n"
             "            ct.p = ECPoint.from_values(km.oid.key_size, ECPointFormat.Standard, x, y)\n            s = v.exchange(ec.ECDH(), km.__pubkey__())\n")
ECDH_SPLIT = ("        native = EllipticCurveOID.Curve25519 == km.oid\n        if not native:\n            v = ec.generate_private_key(km.oid.curve(), default_backend())\n        else:\n            v = x25519.X25519PrivateKey.generate()\n"
              "        vpub = v.public_key()\n\n        if %s:\n            vnum = vpub.public_numbers()\n            ct.p = ECPoint.from_values(km.oid.key_size, ECPointFormat.Standard, MPI(vnum.x), MPI(vnum.y))\n"
              "            s = v.exchange(ec.ECDH(), km.__pubkey__())\n        else:\n            x = vpub.public_bytes(format=serialization.PublicFormat.Raw, encoding=serialization.Encoding.Raw)\n"
              "            ct.p = ECPoint.from_values(km.oid.key_size, ECPointFormat.Native, x)\n            s = v.exchange(km.__pubkey__())\n")
T('C03', 'twin-ecdh-two-blocks-one-flag', FL, ECDH_ARMS, ECDH_SPLIT % 'not native')
T('C13', 'twin-ecdh-two-blocks-one-flag', FL, ECDH_ARMS, ECDH_SPLIT % 'not native')
M('C03', 'ecdh-two-blocks-second-inverted', FL, ECDH_ARMS, ECDH_SPLIT % 'native', 'C03.5')
M('C13', 'ecdh-two-blocks-second-draws-again', FL, ECDH_ARMS, (ECDH_SPLIT % 'not native').replace("            x = vpub.public_bytes(", "            v = x25519.X25519PrivateKey.generate()\n            x = vpub.public_bytes("), 'C13.2')
M('C03', 'ecdh-two-blocks-second-on-other-test', FL, ECDH_ARMS, ECDH_SPLIT % 'km.oid.key_size > 256', 'C03.5')

# ---- compression arms looked up in a table of (compress, decompress) callables built by a private method (held-out twin C20-ref14)
COMP_ARMS = '    def compress(self, data):\n        if self is CompressionAlgorithm.Uncompressed:\n            return data\n\n        if self is CompressionAlgorithm.ZIP:\n            return zlib.compress(data)[2:-4]\n\n        if self is CompressionAlgorithm.ZLIB:\n            return zlib.compress(data)\n\n        if self is CompressionAlgorithm.BZ2:\n            return bz2.compress(data)\n\n        raise NotImplementedError(self)\n\n    def decompress(self, data):\n        if self is CompressionAlgorithm.Uncompressed:\n            return data\n\n        if self is CompressionAlgorithm.ZIP:\n            return zlib.decompress(data, -15)\n\n        if self is CompressionAlgorithm.ZLIB:\n            return zlib.decompress(data)\n\n        if self is CompressionAlgorithm.BZ2:\n            return bz2.decompress(data)\n\n        raise NotImplementedError(self)\n\n\n'
T('C03', 'twin-compress-codec-table', CO, COMP_ARMS, '    @staticmethod\n    def _deflate_raw(data):\n        return zlib.compress(data)[2:-4]\n\n    @staticmethod\n    def _inflate_raw(data):\n        return zlib.decompress(data, -15)\n\n    def _codec(self):\n        codecs = {\n            CompressionAlgorithm.Uncompressed: None,\n            CompressionAlgorithm.ZIP: (self._deflate_raw, self._inflate_raw),\n            CompressionAlgorithm.ZLIB: (zlib.compress, zlib.decompress),\n            CompressionAlgorithm.BZ2: (bz2.compress, bz2.decompress),\n        }\n\n        if self not in codecs:  # pragma: no cover\n            raise NotImplementedError(self)\n\n        return codecs[self]\n\n    def compress(self, data):\n        codec = self._codec()\n        if codec is None:\n            return data\n\n        deflate, _ = codec\n        return deflate(data)\n\n    def decompress(self, data):\n        codec = self._codec()\n        if codec is None:\n            return data\n\n        _, inflate = codec\n        return inflate(data)\n\n\n')
M('C03', 'codec-table-zip-not-raw-on-compress', CO, COMP_ARMS, '    @staticmethod\n    def _deflate_raw(data):\n        return zlib.compress(data)[2:-4]\n\n    @staticmethod\n    def _inflate_raw(data):\n        return zlib.decompress(data, -15)\n\n    def _codec(self):\n        codecs = {\n            CompressionAlgorithm.Uncompressed: None,\n            CompressionAlgorithm.ZIP: (zlib.compress, self._inflate_raw),\n            CompressionAlgorithm.ZLIB: (zlib.compress, zlib.decompress),\n            CompressionAlgorithm.BZ2: (bz2.compress, bz2.decompress),\n        }\n\n        if self not in codecs:  # pragma: no cover\n            raise NotImplementedError(self)\n\n        return codecs[self]\n\n    def compress(self, data):\n        codec = self._codec()\n        if codec is None:\n            return data\n\n        deflate, _ = codec\n        return deflate(data)\n\n    def decompress(self, data):\n        codec = self._codec()\n        if codec is None:\n            return data\n\n        _, inflate = codec\n        return inflate(data)\n\n\n', 'C03.6')
M('C03', 'codec-table-bz2-pair-swapped', CO, COMP_ARMS, '    @staticmethod\n    def _deflate_raw(data):\n        return zlib.compress(data)[2:-4]\n\n    @staticmethod\n    def _inflate_raw(data):\n        return zlib.decompress(data, -15)\n\n    def _codec(self):\n        codecs = {\n            CompressionAlgorithm.Uncompressed: None,\n            CompressionAlgorithm.ZIP: (self._deflate_raw, self._inflate_raw),\n            CompressionAlgorithm.ZLIB: (zlib.compress, zlib.decompress),\n            CompressionAlgorithm.BZ2: (bz2.decompress, bz2.compress),\n        }\n\n        if self not in codecs:  # pragma: no cover\n            raise NotImplementedError(self)\n\n        return codecs[self]\n\n    def compress(self, data):\n        codec = self._codec()\n        if codec is None:\n            return data\n\n        deflate, _ = codec\n        return deflate(data)\n\n    def decompress(self, data):\n        codec = self._codec()\n        if codec is None:\n            return data\n\n        _, inflate = codec\n        return inflate(data)\n\n\n', 'C03.6')
M('C03', 'codec-table-inflate-helper-expects-zlib-header', CO, COMP_ARMS, '    @staticmethod\n    def _deflate_raw(data):\n        return zlib.compress(data)[2:-4]\n\n    @staticmethod\n    def _inflate_raw(data):\n        return zlib.decompress(data)\n\n    def _codec(self):\n        codecs = {\n            CompressionAlgorithm.Uncompressed: None,\n            CompressionAlgorithm.ZIP: (self._deflate_raw, self._inflate_raw),\n            CompressionAlgorithm.ZLIB: (zlib.compress, zlib.decompress),\n            CompressionAlgorithm.BZ2: (bz2.compress, bz2.decompress),\n        }\n\n        if self not in codecs:  # pragma: no cover\n            raise NotImplementedError(self)\n\n        return codecs[self]\n\n    def compress(self, data):\n        codec = self._codec()\n        if codec is None:\n            return data\n\n        deflate, _ = codec\n        return deflate(data)\n\n    def decompress(self, data):\n        codec = self._codec()\n        if codec is None:\n            return data\n\n        _, inflate = codec\n        return inflate(data)\n\n\n', 'C03.6')

# ---- wave 5 (held-out): memoised recipient set, cipher re-chosen per recipient, length codec of streamed containers
ENCR = "        return set(m.encrypter for m in self._sessionkeys if isinstance(m, PKESessionKey))"
ENCR_MEMO = ("        if self._encrypters is None:\n            self._encrypters = frozenset(m.encrypter for m in self._sessionkeys if isinstance(m, PKESessionKey))\n        return self._encrypters")
INIT_SK = "        self._signatures = SorteDeque()\n        self._sessionkeys = []\n\n    def __bytearray__(self):"
INIT_SK_MEMO = "        self._signatures = SorteDeque()\n        self._sessionkeys = []\n        self._encrypters = None\n\n    def __bytearray__(self):"
OR_ONE = "            self._sessionkeys.append(other)\n            return self\n"
OR_MANY = "            self._sessionkeys += other._sessionkeys\n            self._signatures += other._signatures\n"
M('C03', 'encrypters-memo-stale-after-append', PGP, ENCR, ENCR_MEMO, 'C03.8',
  more=[(PGP, INIT_SK, INIT_SK_MEMO), (PGP, OR_MANY, "            self._sessionkeys += other._sessionkeys\n            self._encrypters = None\n            self._signatures += other._signatures\n")])
M('C03', 'encrypters-memo-never-reset', PGP, ENCR, ENCR_MEMO, 'C03.8', more=[(PGP, INIT_SK, INIT_SK_MEMO)])
T('C03', 'twin-encrypters-memo-reset-at-every-change', PGP, ENCR, ENCR_MEMO,
  more=[(PGP, INIT_SK, INIT_SK_MEMO), (PGP, OR_ONE, "            self._sessionkeys.append(other)\n            self._encrypters = None\n            return self\n"),
        (PGP, OR_MANY, "            self._sessionkeys += other._sessionkeys\n            self._encrypters = None\n            self._signatures += other._signatures\n")])
WARN = "            warnings.warn(\"Selected symmetric algorithm not in key preferences\", stacklevel=3)\n\n        if message.is_compressed"
M('C03', 'cipher-rechosen-from-recipient-prefs', PGP, WARN, "            warnings.warn(\"Selected symmetric algorithm not in key preferences\", stacklevel=3)\n            cipher_algo = pref_cipher\n\n        if message.is_compressed", 'C03.7')
M('C03', 'cipher-ignores-callers-choice', PGP, "        cipher_algo = prefs.pop('cipher', pref_cipher)\n", "        prefs.pop('cipher', None)\n        cipher_algo = pref_cipher\n", 'C03.7')
T('C03', 'twin-cipher-choice-renamed-temp', PGP, "        cipher_algo = prefs.pop('cipher', pref_cipher)\n\n        if cipher_algo not in uid.selfsig.cipherprefs:",
  "        requested = prefs.pop('cipher', pref_cipher)\n        cipher_algo = requested\n\n        if requested not in uid.selfsig.cipherprefs:")
M('C03', 'length-two-octet-second-from-start', TY, "                    dlen = self.bytes_to_int(b[offset:offset + 2])\n                    return (((dlen - (192 << 8)) & 0xFF00) + ((dlen & 0xFF) + 192), 2, False)",
  "                    return (((fo - 192) << 8) + a[1] + 192, 2, False)", 'C03.9')

# =============================================================================================== C02
M('C02', 'hash2-last-two', PGP, "        sig._signature.hash2 = bytearray(h2.digest()[:2])", "        sig._signature.hash2 = bytearray(h2.digest()[-2:])", 'C02.2')
M('C02', 'signer-hashdata-none', PGP, "        _sig = self._key.sign(sigdata, getattr(hashes, sig.hash_algorithm.name)())", "        _sig = self._key.sign(sig.hashdata(None), getattr(hashes, sig.hash_algorithm.name)())", 'C02.2')
M('C02', 'addnew-unknown-keyword', PGP, "            sig._signature.subpackets.addnew('Policy', hashed=True, uri=policy_uri)", "            sig._signature.subpackets.addnew('Policy', hashed=True, url=policy_uri)", 'C02.3')
M('C02', 'hashed-addnew-after-hashdata', PGP, "        sigdata = sig.hashdata(subject)\n        h2 = sig.hash_algorithm.hasher", "        sigdata = sig.hashdata(subject)\n        sig._signature.subpackets.addnew('Features', hashed=True, flags=Features.pgpy_features)\n        h2 = sig.hash_algorithm.hasher", 'C02.2')
M('C02', 'eddsa-sig-width', FL, "        siglen = (EllipticCurveOID.Ed25519.key_size + 7) // 8\n        return self.int_to_bytes(self.r, siglen) + self.int_to_bytes(self.s, siglen)", "        return self.int_to_bytes(self.r, self.r.byte_length()) + self.int_to_bytes(self.s, self.s.byte_length())", 'C02.4')
M('C02', 'hash2-other-hash', PGP, "        h2 = sig.hash_algorithm.hasher\n        h2.update(sigdata)", "        h2 = HashAlgorithm.SHA256.hasher\n        h2.update(sigdata)", 'C02.2')
M('C02', 'signer-fixed-hash', PGP, "        _sig = self._key.sign(sigdata, getattr(hashes, sig.hash_algorithm.name)())", "        _sig = self._key.sign(sigdata, hashes.SHA256())", 'C02.2')
M('C02', 'expires-not-hashed', PGP, "            sig._signature.subpackets.addnew('SignatureExpirationTime', hashed=True, expires=expires)", "            sig._signature.subpackets.addnew('SignatureExpirationTime', expires=expires)", 'C02.3')
M('C02', 'revoke-subkey-as-key', PGP, "            else:\n                sig_type = SignatureType.SubkeyRevocation", "            else:\n                sig_type = SignatureType.KeyRevocation", 'C02.1c')
M('C02', 'certify-key-as-cert', PGP, "        if isinstance(subject, PGPKey):\n            sig_type = SignatureType.DirectlyOnKey\n\n        sig = PGPSignature.new", "        if isinstance(subject, PGPKey) and not subject.is_primary:\n            sig_type = SignatureType.DirectlyOnKey\n\n        sig = PGPSignature.new", 'C02.1c')
M('C02', 'issuer-from-parent', PGP, "        sig = PGPSignature.new(sig_type, self.key_algorithm, hash_algo, self.fingerprint.keyid, created=prefs.pop('created', None))\n\n        return self._sign(subject, sig, **prefs)",
  "        sig = PGPSignature.new(sig_type, self.key_algorithm, hash_algo, (self.parent or self).fingerprint.keyid, created=prefs.pop('created', None))\n\n        return self._sign(subject, sig, **prefs)", 'C02.1c')
M('C02', 'canonical-bytes-unhashed-kept', PK, "        _body += self.int_to_bytes(0, minlen=2)  # empty unhashed subpackets", "        _body += self.subpackets.__unhashbytearray__()", 'C02.5')
M('C02', 'canonical-bytes-len-2', PK, "        _hdr += self.int_to_bytes(len(_body), minlen=4)", "        _hdr += self.int_to_bytes(len(_body), minlen=2)", 'C02.5')
M('C02', 'sigv4-halg-before-pubalg', PK, "        _bytes += self.int_to_bytes(self.pubalg)\n        _bytes += self.int_to_bytes(self.halg)\n        _bytes += self.subpackets.__bytearray__()", "        _bytes += self.int_to_bytes(self.halg)\n        _bytes += self.int_to_bytes(self.pubalg)\n        _bytes += self.subpackets.__bytearray__()", 'C02.5')
M('C02', 'notation-len-chars', SS, "        _bytes += self.int_to_bytes(len(value), 2)", "        _bytes += self.int_to_bytes(len(self.value), 2)", 'C02.6')
M('C02', 'option-popped-unused', PGP, "        if policy_uri is not None:\n            sig._signature.subpackets.addnew('Policy', hashed=True, uri=policy_uri)\n", "", 'C02.3')
M('C02', 'no-update-hlen', PGP, "        sig._signature.signature.from_signer(_sig)\n        sig._signature.update_hlen()", "        sig._signature.signature.from_signer(_sig)", 'C02.2')
M('C02', 'ecdsa-rs-swapped', FL, "        self.r = MPI(seq[0])\n        self.s = MPI(seq[1])", "        self.r = MPI(seq[1])\n        self.s = MPI(seq[0])", 'C02.4')
M('C02', 'hashed-flag-ignored', FL, "        if hashed:\n            self['h_' + spname] = nsp\n\n        else:\n            self[spname] = nsp", "        self[spname] = nsp", 'C02.3')
T('C02', 'twin-digest-temp', PGP, "        sig._signature.hash2 = bytearray(h2.digest()[:2])", "        digest = h2.digest()\n        sig._signature.hash2 = bytearray(digest[0:2])")
T('C02', 'twin-kwargs-order', PGP, "            sig._signature.subpackets.addnew('Policy', hashed=True, uri=policy_uri)", "            sig._signature.subpackets.addnew('Policy', uri=policy_uri, hashed=True)")
T('C02', 'twin-sigtype-elif', PGP, "        if subject is None:\n            sig_type = SignatureType.Timestamp\n\n        if isinstance(subject, PGPMessage):", "        if subject is None:\n            sig_type = SignatureType.Timestamp\n\n        elif isinstance(subject, PGPMessage):")

# =============================================================================================== C05
M('C05', 'ignore-capture', FL, "        if self._hashed_raw is not None:\n            # signatures are computed over the octets that were received, not over a re-encoding of them\n            return bytearray(self._hashed_raw)\n\n", "", 'C05.2')
M('C05', 'capture-after-parse', FL, "        hashed_raw = packet[:2 + hl]\n        del packet[:2]", "        del packet[:2]\n        hashed_raw = packet[:2 + hl]", 'C05.1')
M('C05', 'capture-without-length', FL, "        hashed_raw = packet[:2 + hl]", "        hashed_raw = packet[2:2 + hl]", 'C05.1')
M('C05', 'capture-reserialised', FL, "        self._hashed_raw = hashed_raw\n", "        self._hashed_raw = self.__hashbytearray__()\n", 'C05.1')
M('C05', 'capture-stored-before-filing', FL, "        hashed_raw = packet[:2 + hl]\n        del packet[:2]", "        hashed_raw = packet[:2 + hl]\n        self._hashed_raw = hashed_raw\n        del packet[:2]", 'C05.1',
  more=[(FL, "            self['h_' + sp.__class__.__name__] = sp\n        self._hashed_raw = hashed_raw\n", "            self['h_' + sp.__class__.__name__] = sp\n")])
M('C05', 'no-invalidation', FL, "            d, key = self._hashed_sp, key[2:]\n            self._hashed_raw = None\n", "            d, key = self._hashed_sp, key[2:]\n", 'C05.3')
M('C05', 'copy-drops-capture', FL, "        sp._hashed_raw = copy.copy(self._hashed_raw)\n", "", 'C05.3')
M('C05', 'sigtype-masked', PK, "    def sigtype_int(self, val):\n        self._sigtype = SignatureType(val)\n\n    @sdproperty\n    def pubalg(self):\n        return self._pubalg\n\n    @pubalg.register(int)\n    @pubalg.register(PubKeyAlgorithm)\n    def pubalg_int(self, val):\n        self._pubalg = PubKeyAlgorithm(val)\n\n        sigs = {",
  "    def sigtype_int(self, val):\n        self._sigtype = SignatureType(val & 0x7f)\n\n    @sdproperty\n    def pubalg(self):\n        return self._pubalg\n\n    @pubalg.register(int)\n    @pubalg.register(PubKeyAlgorithm)\n    def pubalg_int(self, val):\n        self._pubalg = PubKeyAlgorithm(val)\n\n        sigs = {", 'C05.5')
M('C05', 'raw-when-small', FL, "        if self._hashed_raw is not None:\n            # signatures", "        if self._hashed_raw is not None and len(self._hashed_raw) < 4096:\n            # signatures", 'C05.2')
M('C05', 'hashdata-bypasses', PGP, "        hcontext += self._signature.subpackets.__hashbytearray__()", "        hcontext += self._signature.subpackets.__bytearray__()[:2 + sum(len(sp) for sp in self._signature.subpackets._hashed_sp.values())]", 'C05.4')
M('C05', 'hash-alg-getter-default', PGP, "        return self._signature.halg\n\n    def check_primitives(self):", "        return self._signature.halg or HashAlgorithm.SHA256\n\n    def check_primitives(self):", 'C05.5')
M('C05', 'aliases-capture', FL, "            return bytearray(self._hashed_raw)\n", "            return self._hashed_raw\n", 'C05.2')
T('C05', 'twin-hl-order', FL, "        hashed_raw = packet[:2 + hl]", "        hashed_raw = packet[:hl + 2]")
T('C05', 'twin-is-none-form', FL, "        if self._hashed_raw is not None:\n            # signatures are computed over the octets that were received, not over a re-encoding of them\n            return bytearray(self._hashed_raw)\n\n        _bytes = bytearray()\n        _bytes += self.int_to_bytes(sum(len(sp) for sp in self._hashed_sp.values()), 2)\n        for hsp in self._hashed_sp.values():\n            _bytes += hsp.__bytearray__()\n        return _bytes",
  "        if self._hashed_raw is None:\n            _bytes = bytearray()\n            _bytes += self.int_to_bytes(sum(len(sp) for sp in self._hashed_sp.values()), 2)\n            for hsp in self._hashed_sp.values():\n                _bytes += hsp.__bytearray__()\n            return _bytes\n        return bytearray(self._hashed_raw)")

# ----------------------------------------------------------------------------------------------- C02 / C05 hardening (value-based rules)
HBA = ("        _bytes = bytearray()\n        _bytes += self.int_to_bytes(sum(len(sp) for sp in self._hashed_sp.values()), 2)\n"
       "        for hsp in self._hashed_sp.values():\n            _bytes += hsp.__bytearray__()\n        return _bytes\n")
UHBA = ("        _bytes = bytearray()\n        _bytes += self.int_to_bytes(sum(len(sp) for sp in self._unhashed_sp.values()), 2)\n"
        "        for uhsp in self._unhashed_sp.values():\n            _bytes += uhsp.__bytearray__()\n        return _bytes\n")
EDFS = ("        lsig = len(sig)\n        if lsig % 2 != 0:\n            raise PGPError(\"malformed EdDSA signature\")\n        split = lsig // 2\n"
        "        self.r = MPI(self.bytes_to_int(sig[:split]))\n        self.s = MPI(self.bytes_to_int(sig[split:]))\n")
T('C02', 'twin-eddsa-divmod', FL, EDFS,
  "        half, odd = divmod(len(sig), 2)\n        if odd:\n            raise PGPError(\"malformed EdDSA signature\")\n"
  "        self.r = MPI(self.bytes_to_int(sig[:half]))\n        self.s = MPI(self.bytes_to_int(sig[half:]))\n")
T('C02', 'twin-eddsa-param-rename', FL, "class EdDSASignature(DSASignature):\n    def from_signer(self, sig):\n" + EDFS,
  "class EdDSASignature(DSASignature):\n    def from_signer(self, raw):\n        n = len(raw)\n        if n % 2:\n            raise PGPError(\"malformed EdDSA signature\")\n"
  "        r_octets, s_octets = raw[:n // 2], raw[n // 2:]\n        self.r = MPI(self.bytes_to_int(r_octets))\n        self.s = MPI(self.bytes_to_int(s_octets))\n")
T('C02', 'twin-area-helper', FL, HBA + "\n    def __unhashbytearray__(self):\n" + UHBA,
  "        return self._encode_area(self._hashed_sp)\n\n    def __unhashbytearray__(self):\n        return self._encode_area(self._unhashed_sp)\n\n"
  "    def _encode_area(self, area):\n        subpackets = list(area.values())\n        _bytes = bytearray(self.int_to_bytes(sum(len(sp) for sp in subpackets), 2))\n"
  "        for sp in subpackets:\n            _bytes += sp.__bytearray__()\n        return _bytes\n")
T('C02', 'twin-area-join-len-of-body', FL, UHBA,
  "        body = b''.join(sp.__bytearray__() for sp in self._unhashed_sp.values())\n        return bytearray(self.int_to_bytes(len(body), 2) + body)\n")
T('C02', 'twin-area-sum-map', FL, UHBA,
  "        members = self._unhashed_sp.values()\n        out = bytearray(self.int_to_bytes(sum([len(m) for m in members]), 2))\n        out += b''.join([m.__bytearray__() for m in members])\n        return out\n")
T('C02', 'twin-dsa-sig-genexp', FL, "        seq = Sequence(componentType=NamedTypes(*[NamedType(n, Integer()) for n in self.__mpis__]))\n        for n in self.__mpis__:\n            seq.setComponentByName(n, getattr(self, n))\n\n        return encoder.encode(seq)",
  "        components = NamedTypes(*(NamedType(name, Integer()) for name in self.__mpis__))\n        der = Sequence(componentType=components)\n        for name in reversed(self.__mpis__):\n            der.setComponentByName(name, getattr(self, name))\n        encoded = encoder.encode(der)\n        return encoded")
T('C02', 'twin-rsa-from-signer-rename', FL, "    def from_signer(self, sig):\n        self.md_mod_n = MPI(self.bytes_to_int(sig))", "    def from_signer(self, signer_output):\n        value = self.bytes_to_int(signer_output)\n        self.md_mod_n = MPI(value)")
T('C02', 'twin-keymaterial-sign-rename', FL, "    def sign(self, sigdata, hash_alg):\n        return self.__privkey__().sign(sigdata, padding.PKCS1v15(), hash_alg)",
  "    def sign(self, tbs, halg):\n        key = self.__privkey__()\n        scheme = padding.PKCS1v15()\n        return key.sign(tbs, scheme, halg)")
T('C02', 'twin-privkeyv4-sign-rename', PK, "    def sign(self, sigdata, hash_alg):\n        return self.keymaterial.sign(sigdata, hash_alg)", "    def sign(self, data, hasher):\n        km = self.keymaterial\n        return km.sign(data, hasher)")
T('C02', 'twin-eddsa-sign-no-rebind', FL, "        sigdata = digest.finalize()\n        return self.__privkey__().sign(sigdata)", "        prehashed = digest.finalize()\n        return self.__privkey__().sign(prehashed)")
T('C02', 'twin-can-sign-or-chain', CO, "        return self in {PubKeyAlgorithm.RSAEncryptOrSign, PubKeyAlgorithm.DSA, PubKeyAlgorithm.ECDSA, PubKeyAlgorithm.EdDSA}",
  "        return (self is PubKeyAlgorithm.RSAEncryptOrSign or self is PubKeyAlgorithm.DSA\n                or self == PubKeyAlgorithm.ECDSA or self == PubKeyAlgorithm.EdDSA)")
T('C02', 'twin-pubalg-if-chain', PK, "        sigs = {\n            PubKeyAlgorithm.RSAEncryptOrSign: RSASignature,\n            PubKeyAlgorithm.RSAEncrypt: RSASignature,\n            PubKeyAlgorithm.RSASign: RSASignature,\n            PubKeyAlgorithm.DSA: DSASignature,\n            PubKeyAlgorithm.ECDSA: ECDSASignature,\n            PubKeyAlgorithm.EdDSA: EdDSASignature,\n        }\n\n        self.signature = sigs.get(self.pubalg, OpaqueSignature)()",
  "        alg = self._pubalg\n        if alg in (PubKeyAlgorithm.RSAEncryptOrSign, PubKeyAlgorithm.RSAEncrypt, PubKeyAlgorithm.RSASign):\n            self.signature = RSASignature()\n        elif alg == PubKeyAlgorithm.DSA:\n            self.signature = DSASignature()\n        elif alg == PubKeyAlgorithm.ECDSA:\n            self.signature = ECDSASignature()\n        elif alg == PubKeyAlgorithm.EdDSA:\n            self.signature = EdDSASignature()\n        else:\n            self.signature = OpaqueSignature()")
T('C02', 'twin-pubalg-table-subscript', PK, "        self.signature = sigs.get(self.pubalg, OpaqueSignature)()", "        cls = sigs[self.pubalg] if self.pubalg in sigs else OpaqueSignature\n        self.signature = cls()")
T('C02', 'twin-addnew-hashed-positional', PGP, "            sig._signature.subpackets.addnew('Policy', hashed=True, uri=policy_uri)", "            sig._signature.subpackets.addnew('Policy', True, uri=policy_uri)")
T('C02', 'twin-addnew-options-dict', PGP, "            sig._signature.subpackets.addnew('Policy', hashed=True, uri=policy_uri)", "            sig._signature.subpackets.addnew('Policy', **{'hashed': True, 'uri': policy_uri})")
T('C02', 'twin-addnew-param-rename', FL, "    def addnew(self, spname, hashed=False, **kwargs):\n        nsp = getattr(self._spmodule, spname)()\n        for p, v in kwargs.items():\n            if hasattr(nsp, p):\n                setattr(nsp, p, v)\n        nsp.update_hlen()\n        if hashed:\n            self['h_' + spname] = nsp\n\n        else:\n            self[spname] = nsp",
  "    def addnew(self, name, hashed=False, **options):\n        new = getattr(self._spmodule, name)()\n        for attr, value in options.items():\n            if hasattr(new, attr):\n                setattr(new, attr, value)\n        new.update_hlen()\n        key = 'h_' + name if hashed else name\n        self[key] = new")
T('C02', 'twin-hash2-via-packet-field', PGP, "        h2 = sig.hash_algorithm.hasher\n        h2.update(sigdata)", "        h2 = sig._signature.halg.hasher\n        h2.update(sigdata)")
T('C02', 'twin-signer-hash-via-packet-field', PGP, "        _sig = self._key.sign(sigdata, getattr(hashes, sig.hash_algorithm.name)())", "        halg = sig._signature.halg\n        hash_object = getattr(hashes, halg.name)()\n        _sig = self._key.sign(sigdata, hash_object)")
T('C02', 'twin-pop-tuple-assign', PGP, "        expires = prefs.pop('expires', None)\n        notation = prefs.pop('notation', None)\n", "        expires, notation = prefs.pop('expires', None), prefs.pop('notation', None)\n")
T('C02', 'twin-trailer-len-arith', PGP, "        hlen = len(hcontext)\n", "        hlen = len(self._signature.subpackets.__hashbytearray__()) + 2 + 2\n")
T('C02', 'twin-canon-compiled-regex', PGP, "            _data += re.subn(br'\\r?\\n', b'\\r\\n', subject)[0]", "            line_ending = re.compile(br'\\r?\\n')\n            _data += line_ending.sub(b'\\r\\n', subject)")
T('C02', 'twin-revoke-guard-clauses', PGP, "            if target.is_primary:\n                sig_type = SignatureType.KeyRevocation\n\n            else:\n                sig_type = SignatureType.SubkeyRevocation",
  "            sig_type = SignatureType.KeyRevocation if target.is_primary else SignatureType.SubkeyRevocation")
M('C02', 'certify-signs-self', PGP, "                    sig._signature.subpackets.addnew('RegularExpression', hashed=True, regex=regex)\n\n        return self._sign(subject, sig, **prefs)",
  "                    sig._signature.subpackets.addnew('RegularExpression', hashed=True, regex=regex)\n\n        return self._sign(self, sig, **prefs)", 'C02.1c')
M('C02', 'update-hlen-before-from-signer', PGP, "        sig._signature.signature.from_signer(_sig)\n        sig._signature.update_hlen()", "        sig._signature.update_hlen()\n        sig._signature.signature.from_signer(_sig)", 'C02.2')
M('C02', 'hash2-over-subject', PGP, "        h2.update(sigdata)\n        sig._signature.hash2", "        h2.update(bytearray(subject))\n        sig._signature.hash2", 'C02.2')
M('C02', 'rsa-sign-fixed-hash', FL, "        return self.__privkey__().sign(sigdata, padding.PKCS1v15(), hash_alg)", "        return self.__privkey__().sign(sigdata, padding.PKCS1v15(), hashes.SHA256())", 'C02.2')
M('C02', 'ecdsa-sign-prehashed-twice', FL, "        return self.__privkey__().sign(sigdata, ec.ECDSA(hash_alg))", "        return self.__privkey__().sign(sigdata, ec.ECDSA(utils.Prehashed(hash_alg)))", 'C02.2')
M('C02', 'subpacket-filed-after-hashdata', PGP, "        sigdata = sig.hashdata(subject)\n        h2 = sig.hash_algorithm.hasher", "        sigdata = sig.hashdata(subject)\n        sig._signature.subpackets['h_Features'] = Features()\n        h2 = sig.hash_algorithm.hasher", 'C02.2')
M('C02', 'addnew-positional-unhashed', PGP, "            sig._signature.subpackets.addnew('Policy', hashed=True, uri=policy_uri)", "            sig._signature.subpackets.addnew('Policy', False, uri=policy_uri)", 'C02.3')
M('C02', 'addnew-dict-unknown-key', PGP, "            sig._signature.subpackets.addnew('Policy', hashed=True, uri=policy_uri)", "            sig._signature.subpackets.addnew('Policy', hashed=True, **{'url': policy_uri})", 'C02.3')
M('C02', 'addnew-files-unhashed-under-hashed-key', FL, "        if hashed:\n            self['h_' + spname] = nsp\n\n        else:\n            self[spname] = nsp", "        self['h_' + spname] = nsp", 'C02.3')
M('C02', 'pubalg-ecdsa-as-dsa', PK, "            PubKeyAlgorithm.ECDSA: ECDSASignature,\n            PubKeyAlgorithm.EdDSA: EdDSASignature,\n        }", "            PubKeyAlgorithm.ECDSA: DSASignature,\n            PubKeyAlgorithm.EdDSA: EdDSASignature,\n        }", 'C02.4')
M('C02', 'pubalg-eddsa-missing', PK, "            PubKeyAlgorithm.ECDSA: ECDSASignature,\n            PubKeyAlgorithm.EdDSA: EdDSASignature,\n        }", "            PubKeyAlgorithm.ECDSA: ECDSASignature,\n        }", 'C02.4')
M('C02', 'can-sign-drops-eddsa', CO, "        return self in {PubKeyAlgorithm.RSAEncryptOrSign, PubKeyAlgorithm.DSA, PubKeyAlgorithm.ECDSA, PubKeyAlgorithm.EdDSA}", "        return self in {PubKeyAlgorithm.RSAEncryptOrSign, PubKeyAlgorithm.DSA, PubKeyAlgorithm.ECDSA}", 'C02.4')
M('C02', 'eddsa-halves-unequal', FL, "        split = lsig // 2\n", "        split = lsig // 2 + 1\n", 'C02.4')
M('C02', 'eddsa-s-from-start', FL, "        self.s = MPI(self.bytes_to_int(sig[split:]))", "        self.s = MPI(self.bytes_to_int(sig[:split]))", 'C02.4')
M('C02', 'dsa-sig-both-from-r', FL, "            seq.setComponentByName(n, getattr(self, n))", "            seq.setComponentByName(n, getattr(self, 'r'))", 'C02.4')
M('C02', 'dsa-sig-not-der', FL, "        return encoder.encode(seq)", "        return bytes(seq)", 'C02.4')
M('C02', 'hashed-area-counts-unhashed', FL, "        _bytes += self.int_to_bytes(sum(len(sp) for sp in self._hashed_sp.values()), 2)", "        _bytes += self.int_to_bytes(sum(len(sp) for sp in self._unhashed_sp.values()), 2)", 'C02.5')
M('C02', 'unhashed-area-skips-first', FL, "        for uhsp in self._unhashed_sp.values():\n            _bytes += uhsp.__bytearray__()\n        return _bytes\n\n    def __len__(self):  # pragma: no cover\n        return sum(sp.header.length", "        for uhsp in list(self._unhashed_sp.values())[1:]:\n            _bytes += uhsp.__bytearray__()\n        return _bytes\n\n    def __len__(self):  # pragma: no cover\n        return sum(sp.header.length", 'C02.5')
M('C02', 'hashed-area-filtered', FL, "        for hsp in self._hashed_sp.values():\n            _bytes += hsp.__bytearray__()", "        for hsp in self._hashed_sp.values():\n            if hsp.header.critical:\n                continue\n            _bytes += hsp.__bytearray__()", 'C02.5')
M('C02', 'hashed-area-len-one-octet', FL, "        _bytes += self.int_to_bytes(sum(len(sp) for sp in self._hashed_sp.values()), 2)", "        _bytes += self.int_to_bytes(sum(len(sp) for sp in self._hashed_sp.values()), 1)", 'C02.5')
M('C02', 'trailer-len-plus-6', PGP, "        hlen = len(hcontext)\n", "        hlen = len(hcontext) + 6\n", 'C02.1')
M('C02', 'canon-lf-only', PGP, "            _data += re.subn(br'\\r?\\n', b'\\r\\n', subject)[0]", "            _data += re.subn(br'\\r\\n', b'\\n', subject)[0]", 'C02.1')

T('C05', 'twin-replay-slice-copy', FL, "            return bytearray(self._hashed_raw)\n", "            return self._hashed_raw[:]\n")
T('C05', 'twin-replay-local-and-else', FL, "        if self._hashed_raw is not None:\n            # signatures are computed over the octets that were received, not over a re-encoding of them\n            return bytearray(self._hashed_raw)\n\n" + HBA,
  "        received = self._hashed_raw\n        if received is None:\n            out = bytearray(self.int_to_bytes(sum(len(sp) for sp in self._hashed_sp.values()), 2))\n            for hsp in self._hashed_sp.values():\n                out += hsp.__bytearray__()\n        else:\n            out = bytearray(received)\n        return out\n")
T('C05', 'twin-replay-not-is-none', FL, "        if self._hashed_raw is not None:\n            # signatures", "        if not (self._hashed_raw is None):\n            # signatures")
T('C05', 'twin-copy-conditional', FL, "        sp._hashed_raw = copy.copy(self._hashed_raw)\n", "        sp._hashed_raw = None if self._hashed_raw is None else bytearray(self._hashed_raw)\n")
T('C05', 'twin-copy-renamed-local', FL, "        sp = SubPackets()\n        sp._hashed_sp = self._hashed_sp.copy()\n        sp._unhashed_sp = self._unhashed_sp.copy()\n        sp._hashed_raw = copy.copy(self._hashed_raw)\n\n        return sp",
  "        twin = SubPackets()\n        raw = self._hashed_raw\n        twin._hashed_sp = self._hashed_sp.copy()\n        twin._unhashed_sp = self._unhashed_sp.copy()\n        twin._hashed_raw = copy.copy(raw)\n        return twin")
T('C05', 'twin-setitem-slice-test', FL, "        if key.startswith('h_'):\n            d, key = self._hashed_sp, key[2:]\n            self._hashed_raw = None\n", "        if key[:2] == 'h_':\n            key = key[2:]\n            d = self._hashed_sp\n            self._hashed_raw = None\n")
T('C05', 'twin-setitem-guard-swapped', FL, "        d = self._unhashed_sp\n        if key.startswith('h_'):\n            d, key = self._hashed_sp, key[2:]\n            self._hashed_raw = None\n", "        if not key.startswith('h_'):\n            d = self._unhashed_sp\n        else:\n            self._hashed_raw = None\n            d, key = self._hashed_sp, key[2:]\n")
T('C05', 'twin-parse-renames', FL, "        hl = self.bytes_to_int(packet[:2])\n        hashed_raw = packet[:2 + hl]\n        del packet[:2]", "        hashed_len = self.bytes_to_int(packet[0:2])\n        end = hashed_len + 2\n        received = bytearray(packet[:end])\n        del packet[:2]",
  more=[(FL, "        while plen - len(packet) < hl:\n            sp = SignatureSP(packet)\n            self['h_' + sp.__class__.__name__] = sp\n        self._hashed_raw = hashed_raw\n",
         "        while plen - len(packet) < hashed_len:\n            hsp = SignatureSP(packet)\n            name = hsp.__class__.__name__\n            self['h_{}'.format(name)] = hsp\n        self._hashed_raw = received\n")])
T('C05', 'twin-sigv4-parse-index', PK, "        self.sigtype = packet[0]\n        del packet[0]\n\n        self.pubalg = packet[0]\n        del packet[0]\n\n        self.halg = packet[0]\n        del packet[0]\n",
  "        self.sigtype = packet[0]\n        self.pubalg = packet[1]\n        self.halg = packet[2]\n        del packet[:3]\n")
T('C05', 'twin-pgpsig-copy-temp', PGP, "        sig |= copy.copy(self._signature)\n        return sig", "        packet = copy.copy(self._signature)\n        sig |= packet\n        return sig")
T('C05', 'twin-sigv4-copy-renamed', PK, "        spkt.subpackets = copy.copy(self.subpackets)\n", "        subpackets = copy.copy(self.subpackets)\n        spkt.subpackets = subpackets\n")
T('C05', 'twin-setter-param-rename', PK, "    def sigtype_int(self, val):\n        self._sigtype = SignatureType(val)\n\n    @sdproperty\n    def pubalg(self):\n        return self._pubalg\n\n    @pubalg.register(int)\n    @pubalg.register(PubKeyAlgorithm)\n    def pubalg_int(self, val):\n        self._pubalg = PubKeyAlgorithm(val)\n\n        sigs = {",
  "    def sigtype_int(self, octet):\n        sigtype = SignatureType(octet)\n        self._sigtype = sigtype\n\n    @sdproperty\n    def pubalg(self):\n        return self._pubalg\n\n    @pubalg.register(int)\n    @pubalg.register(PubKeyAlgorithm)\n    def pubalg_int(self, val):\n        self._pubalg = PubKeyAlgorithm(val)\n\n        sigs = {")
T('C05', 'twin-canonical-bytes-temp', PK, "        _body += self.subpackets.__hashbytearray__()\n        _body += self.int_to_bytes(0, minlen=2)", "        hashed_area = self.subpackets.__hashbytearray__()\n        _body += hashed_area\n        _body += self.int_to_bytes(0, minlen=2)")
M('C05', 'capture-view', FL, "        hashed_raw = packet[:2 + hl]", "        hashed_raw = memoryview(packet)[:2 + hl]", 'C05.1')
M('C05', 'capture-off-by-one', FL, "        hashed_raw = packet[:2 + hl]", "        hashed_raw = packet[:1 + hl]", 'C05.1')
M('C05', 'capture-after-first-subpacket', FL, "        hashed_raw = packet[:2 + hl]\n        del packet[:2]", "        del packet[:2]", 'C05.1',
  more=[(FL, "        self._hashed_raw = hashed_raw\n", "        self._hashed_raw = self.int_to_bytes(hl, 2) + packet[:hl]\n")])
M('C05', 'replay-unless-unhashed-empty', FL, "        if self._hashed_raw is not None:\n            # signatures", "        if self._hashed_raw is not None and self._unhashed_sp:\n            # signatures", 'C05.2')
M('C05', 'replay-alias-via-local', FL, "        if self._hashed_raw is not None:\n            # signatures are computed over the octets that were received, not over a re-encoding of them\n            return bytearray(self._hashed_raw)\n",
  "        raw = self._hashed_raw\n        if raw is not None:\n            return raw\n", 'C05.2')
M('C05', 'replay-inverted', FL, "        if self._hashed_raw is not None:\n            # signatures", "        if self._hashed_raw is None:\n            # signatures", 'C05.2')
M('C05', 'replay-truncated', FL, "            return bytearray(self._hashed_raw)\n", "            return bytearray(self._hashed_raw[2:])\n", 'C05.2')
M('C05', 'copy-aliases-capture', FL, "        sp._hashed_raw = copy.copy(self._hashed_raw)\n", "        sp._hashed_raw = self._hashed_raw\n", 'C05.3')
M('C05', 'copy-capture-on-wrong-object', FL, "        sp._hashed_raw = copy.copy(self._hashed_raw)\n", "        self._hashed_raw = copy.copy(self._hashed_raw)\n", 'C05.3')
M('C05', 'setitem-invalidates-always', FL, "        d = self._unhashed_sp\n        if key.startswith('h_'):\n            d, key = self._hashed_sp, key[2:]\n            self._hashed_raw = None\n", "        d = self._unhashed_sp\n        self._hashed_raw = None\n        if key.startswith('h_'):\n            d, key = self._hashed_sp, key[2:]\n", 'C05.3')
M('C05', 'setitem-invalidates-on-unhashed', FL, "        if key.startswith('h_'):\n            d, key = self._hashed_sp, key[2:]\n            self._hashed_raw = None\n", "        if key.startswith('h_'):\n            d, key = self._hashed_sp, key[2:]\n        else:\n            self._hashed_raw = None\n", 'C05.3')
M('C05', 'init-empty-capture', FL, "        self._hashed_raw = None\n\n    def __bytearray__(self):", "        self._hashed_raw = bytearray()\n\n    def __bytearray__(self):", 'C05.3')
M('C05', 'update-hlen-rewrites-capture', FL, "    def update_hlen(self):\n        for sp in self:\n            sp.update_hlen()\n\n    def parse(self, packet):\n        hl =", "    def update_hlen(self):\n        for sp in self:\n            sp.update_hlen()\n        if self._hashed_raw is not None:\n            self._hashed_raw = self.int_to_bytes(len(self._hashed_raw) - 2, 2) + self._hashed_raw[2:]\n\n    def parse(self, packet):\n        hl =", 'C05.3')
M('C05', 'sigv4-copy-shares-subpackets', PK, "        spkt.subpackets = copy.copy(self.subpackets)\n", "        spkt.subpackets = self.subpackets\n", 'C05.3')
M('C05', 'pgpsig-copy-shares-packet', PGP, "        sig |= copy.copy(self._signature)\n        return sig", "        sig |= self._signature\n        return sig", 'C05.3')
M('C05', 'canonical-bytes-reserialises', PK, "        _body += self.subpackets.__hashbytearray__()\n        _body += self.int_to_bytes(0, minlen=2)",
  "        _body += self.int_to_bytes(sum(len(sp) for sp in self.subpackets._hashed_sp.values()), 2)\n        _body += b''.join(sp.__bytearray__() for sp in self.subpackets._hashed_sp.values())\n        _body += self.int_to_bytes(0, minlen=2)", 'C05.4')
M('C05', 'parse-halg-pubalg-swapped', PK, "        self.pubalg = packet[0]\n        del packet[0]\n\n        self.halg = packet[0]\n        del packet[0]\n", "        self.halg = packet[0]\n        del packet[0]\n\n        self.pubalg = packet[0]\n        del packet[0]\n", 'C05.5')
M('C05', 'halg-setter-maps-unknown', PK, "        except ValueError:  # pragma: no cover\n            self._halg = val\n\n    @property\n    def signature(self):", "        except ValueError:  # pragma: no cover\n            self._halg = HashAlgorithm.SHA256\n\n    @property\n    def signature(self):", 'C05.5')
M('C05', 'type-getter-masks', PGP, "        return self._signature.sigtype\n", "        return SignatureType(self._signature.sigtype & 0x7F)\n", 'C05.5')

SIGN_TAIL = ("        sigdata = sig.hashdata(subject)\n        h2 = sig.hash_algorithm.hasher\n        h2.update(sigdata)\n        sig._signature.hash2 = bytearray(h2.digest()[:2])\n\n"
             "        _sig = self._key.sign(sigdata, getattr(hashes, sig.hash_algorithm.name)())\n        if _sig is NotImplemented:\n            raise NotImplementedError(self.key_algorithm)\n\n"
             "        sig._signature.signature.from_signer(_sig)\n        sig._signature.update_hlen()\n\n        return sig\n")
T('C02', 'twin-sign-tail-aliases', PGP, SIGN_TAIL,
  "        packet = sig._signature\n        halg = sig.hash_algorithm\n        tbs = sig.hashdata(subject)\n        hasher = halg.hasher\n        hasher.update(tbs)\n        left16 = hasher.digest()[:2]\n        packet.hash2 = bytearray(left16)\n\n"
  "        hash_object = getattr(hashes, halg.name)()\n        raw_signature = self._key.sign(tbs, hash_object)\n        if raw_signature is NotImplemented:\n            raise NotImplementedError(self.key_algorithm)\n\n"
  "        packet.signature.from_signer(raw_signature)\n        packet.update_hlen()\n        return sig\n")
T('C02', 'twin-sign-tail-guard-inverted', PGP, "        if _sig is NotImplemented:\n            raise NotImplementedError(self.key_algorithm)\n\n        sig._signature.signature.from_signer(_sig)\n        sig._signature.update_hlen()\n\n        return sig\n",
  "        if _sig is not NotImplemented:\n            sig._signature.signature.from_signer(_sig)\n            sig._signature.update_hlen()\n            return sig\n        raise NotImplementedError(self.key_algorithm)\n")
T('C02', 'twin-sign-subpackets-alias', PGP, "        if policy_uri is not None:\n            sig._signature.subpackets.addnew('Policy', hashed=True, uri=policy_uri)\n", "        area = sig._signature.subpackets\n        if policy_uri is not None:\n            area.addnew('Policy', hashed=True, uri=policy_uri)\n")
T('C02', 'twin-sign-new-helper', PGP, "        sig = PGPSignature.new(sig_type, self.key_algorithm, hash_algo, self.fingerprint.keyid, created=prefs.pop('created', None))\n\n        return self._sign(subject, sig, **prefs)\n\n    @KeyAction(KeyFlags.Certify, is_unlocked=True, is_public=False)\n    def certify(",
  "        sig = self._blank_signature(sig_type, hash_algo, prefs.pop('created', None))\n\n        return self._sign(subject, sig, **prefs)\n\n    def _blank_signature(self, sigtype, halg, created):\n        keyid = self.fingerprint.keyid\n        return PGPSignature.new(sigtype, self.key_algorithm, halg, keyid, created=created)\n\n    @KeyAction(KeyFlags.Certify, is_unlocked=True, is_public=False)\n    def certify(")
T('C02', 'twin-sign-type-ifexp', PGP, "        sig_type = SignatureType.BinaryDocument\n        hash_algo = prefs.pop('hash', None)\n\n        if subject is None:\n            sig_type = SignatureType.Timestamp\n",
  "        hash_algo = prefs.pop('hash', None)\n        sig_type = SignatureType.Timestamp if subject is None else SignatureType.BinaryDocument\n")
T('C02', 'twin-new-keywords', PGP, "        sig = PGPSignature.new(SignatureType.DirectlyOnKey, self.key_algorithm, hash_algo, self.fingerprint.keyid, created=prefs.pop('created', None))",
  "        created = prefs.pop('created', None)\n        sig = PGPSignature.new(sigtype=SignatureType.DirectlyOnKey, pkalg=self.key_algorithm, halg=hash_algo, signer=self.fingerprint.keyid, created=created)")
T('C02', 'twin-bind-demorgan', PGP, "        if self.is_primary and not key.is_primary:\n            sig_type = SignatureType.Subkey_Binding\n\n        elif key.is_primary and not self.is_primary:\n            sig_type = SignatureType.PrimaryKey_Binding\n\n        else:  # pragma: no cover\n            raise PGPError\n",
  "        if self.is_primary == key.is_primary:  # pragma: no cover\n            raise PGPError\n        if self.is_primary:\n            sig_type = SignatureType.Subkey_Binding\n        else:\n            sig_type = SignatureType.PrimaryKey_Binding\n")
T('C02', 'twin-sigv4-writer-join', PK, "        _bytes = bytearray()\n        _bytes += super(Signature, self).__bytearray__()\n        _bytes += self.int_to_bytes(self.sigtype)\n        _bytes += self.int_to_bytes(self.pubalg)\n        _bytes += self.int_to_bytes(self.halg)\n        _bytes += self.subpackets.__bytearray__()\n        _bytes += self.hash2\n        _bytes += self.signature.__bytearray__()\n\n        return _bytes",
  "        header = super(Signature, self).__bytearray__()\n        algs = bytearray([self.sigtype, self.pubalg, self.halg])\n        return bytearray(b''.join([header, algs, self.subpackets.__bytearray__(), self.hash2, self.signature.__bytearray__()]))")
T('C02', 'twin-canonical-bytes-oneshot', PK, "        _hdr = bytearray()\n        _hdr += b'\\x88'\n        _hdr += self.int_to_bytes(len(_body), minlen=4)\n        return _hdr + _body", "        return bytearray(b'\\x88') + self.int_to_bytes(len(_body), 4) + _body")
T('C02', 'twin-eddsa-sig-loop', FL, "        siglen = (EllipticCurveOID.Ed25519.key_size + 7) // 8\n        return self.int_to_bytes(self.r, siglen) + self.int_to_bytes(self.s, siglen)",
  "        width = (EllipticCurveOID.Ed25519.key_size + 7) // 8\n        out = bytearray()\n        for value in (self.r, self.s):\n            out += self.int_to_bytes(value, width)\n        return out")
T('C02', 'twin-rsa-sig-strip-temp', FL, "        return self.md_mod_n.to_mpibytes()[2:]", "        mpi = self.md_mod_n.to_mpibytes()\n        del mpi[:2]\n        return mpi")
T('C02', 'twin-ecdsa-from-signer-index', FL, "        seq, _ = decoder.decode(sig)\n        self.r = MPI(seq[0])\n        self.s = MPI(seq[1])", "        decoded = decoder.decode(sig)[0]\n        r, s = decoded[0], decoded[1]\n        self.r, self.s = MPI(r), MPI(s)")
T('C02', 'twin-signature-writer-comprehension', FL, "        _bytes = bytearray()\n        for i in self:\n            _bytes += i.to_mpibytes()\n        return _bytes\n\n    @abc.abstractproperty\n    def __sig__(self):", "        return bytearray(b''.join(mpi.to_mpibytes() for mpi in self))\n\n    @abc.abstractproperty\n    def __sig__(self):")
T('C02', 'twin-hasher-getter-temp', CO, "    def hasher(self):\n        return hashlib.new(self.name)", "    def hasher(self):\n        name = self.name\n        return hashlib.new(name)")
T('C02', 'twin-key-hashdata-temp', PGP, "        pub = self._key if self.is_public else self._key.pubkey()\n", "        if self.is_public:\n            pub = self._key\n        else:\n            pub = self._key.pubkey()\n")
M('C02', 'bind-signs-self', PGP, "        return self._sign(key, sig, **prefs)\n\n    def is_considered_insecure", "        return self._sign(self, sig, **prefs)\n\n    def is_considered_insecure", 'C02.1c')
M('C02', 'sign-tail-hash2-before-subpackets-final', PGP, "        if prefs.pop('include_issuer_fingerprint', True):\n            if isinstance(self._key, PrivKeyV4):\n                sig._signature.subpackets.addnew('IssuerFingerprint', hashed=True, _version=4, _issuer_fpr=self.fingerprint)\n\n        sigdata = sig.hashdata(subject)\n",
  "        sigdata = sig.hashdata(subject)\n        if prefs.pop('include_issuer_fingerprint', True):\n            if isinstance(self._key, PrivKeyV4):\n                sig._signature.subpackets.addnew('IssuerFingerprint', hashed=True, _version=4, _issuer_fpr=self.fingerprint)\n\n", 'C02.2')
M('C02', 'eddsa-sig-r-width-short', FL, "        return self.int_to_bytes(self.r, siglen) + self.int_to_bytes(self.s, siglen)", "        return self.int_to_bytes(self.r) + self.int_to_bytes(self.s, siglen)", 'C02.4')
M('C02', 'sigv4-writer-drops-hash2', PK, "        _bytes += self.subpackets.__bytearray__()\n        _bytes += self.hash2\n        _bytes += self.signature.__bytearray__()\n\n        return _bytes", "        _bytes += self.subpackets.__bytearray__()\n        _bytes += self.signature.__bytearray__()\n\n        return _bytes", 'C02.5')

T('C05', 'twin-parse-area-helper', FL, "        plen = len(packet)\n        while plen - len(packet) < hl:\n            sp = SignatureSP(packet)\n            self['h_' + sp.__class__.__name__] = sp\n        self._hashed_raw = hashed_raw\n\n        uhl = self.bytes_to_int(packet[:2])\n        del packet[:2]\n\n        plen = len(packet)\n        while plen - len(packet) < uhl:\n            sp = SignatureSP(packet)\n            self[sp.__class__.__name__] = sp\n",
  "        self._parse_area(packet, hl, 'h_')\n        self._hashed_raw = hashed_raw\n\n        uhl = self.bytes_to_int(packet[:2])\n        del packet[:2]\n        self._parse_area(packet, uhl, '')\n\n    def _parse_area(self, buf, length, prefix):\n        start = len(buf)\n        while start - len(buf) < length:\n            sub = SignatureSP(buf)\n            self[prefix + sub.__class__.__name__] = sub\n")
T('C05', 'twin-replay-helper', FL, "        if self._hashed_raw is not None:\n            # signatures are computed over the octets that were received, not over a re-encoding of them\n            return bytearray(self._hashed_raw)\n\n" + HBA,
  "        if self._hashed_raw is not None:\n            return self._received_area()\n        return self._built_area()\n\n    def _received_area(self):\n        return bytearray(self._hashed_raw)\n\n    def _built_area(self):\n" + HBA)
T('C05', 'twin-init-order', FL, "        self._hashed_sp = collections.OrderedDict()\n        self._unhashed_sp = collections.OrderedDict()\n        # the hashed subpacket area exactly as it was received, if this was parsed and not modified since\n        self._hashed_raw = None\n",
  "        self._hashed_raw = None\n        self._hashed_sp, self._unhashed_sp = collections.OrderedDict(), collections.OrderedDict()\n")
M('C05', 'parse-area-helper-files-unhashed', FL, "        plen = len(packet)\n        while plen - len(packet) < hl:\n            sp = SignatureSP(packet)\n            self['h_' + sp.__class__.__name__] = sp\n        self._hashed_raw = hashed_raw\n",
  "        self._hashed_raw = hashed_raw\n        plen = len(packet)\n        while plen - len(packet) < hl:\n            sp = SignatureSP(packet)\n            self['h_' + sp.__class__.__name__] = sp\n", 'C05.1')

# families found by independent refactoring runs (24 patches by two sub-agents that never saw the rules)
SIGS_TABLE = ("        sigs = {\n            PubKeyAlgorithm.RSAEncryptOrSign: RSASignature,\n            PubKeyAlgorithm.RSAEncrypt: RSASignature,\n            PubKeyAlgorithm.RSASign: RSASignature,\n"
              "            PubKeyAlgorithm.DSA: DSASignature,\n            PubKeyAlgorithm.ECDSA: ECDSASignature,\n            PubKeyAlgorithm.EdDSA: EdDSASignature,\n        }\n\n"
              "        self.signature = sigs.get(self.pubalg, OpaqueSignature)()")
CLS_TABLE = ("    _sigfields = {\n        PubKeyAlgorithm.RSAEncryptOrSign: RSASignature,\n        PubKeyAlgorithm.RSAEncrypt: RSASignature,\n        PubKeyAlgorithm.RSASign: RSASignature,\n"
             "        PubKeyAlgorithm.DSA: DSASignature,\n        PubKeyAlgorithm.ECDSA: ECDSASignature,\n        PubKeyAlgorithm.EdDSA: EdDSASignature,\n    }\n\n")
T('C02', 'twin-pubalg-class-table-keyerror', PK, SIGS_TABLE, "        try:\n            fieldcls = self._sigfields[self.pubalg]\n\n        except KeyError:\n            fieldcls = OpaqueSignature\n\n        self.signature = fieldcls()",
  more=[(PK, "    __ver__ = 4\n\n    @sdproperty\n    def sigtype(self):", "    __ver__ = 4\n\n" + CLS_TABLE + "    @sdproperty\n    def sigtype(self):")])
T('C02', 'twin-pubalg-class-table-get', PK, SIGS_TABLE, "        pubalg = self._pubalg\n        sigcls = self._sigfields.get(pubalg, OpaqueSignature)\n        self.signature = sigcls()",
  more=[(PK, "    __ver__ = 4\n\n    @sdproperty\n    def sigtype(self):", "    __ver__ = 4\n\n" + CLS_TABLE + "    @sdproperty\n    def sigtype(self):")])
T('C02', 'twin-sigv4-writer-bound-method-alias', PK, "        _bytes = bytearray()\n        _bytes += super(Signature, self).__bytearray__()\n        _bytes += self.int_to_bytes(self.sigtype)\n        _bytes += self.int_to_bytes(self.pubalg)\n        _bytes += self.int_to_bytes(self.halg)\n        _bytes += self.subpackets.__bytearray__()\n        _bytes += self.hash2\n        _bytes += self.signature.__bytearray__()\n\n        return _bytes",
  "        to_bytes = self.int_to_bytes\n        return (bytearray(super(Signature, self).__bytearray__())\n                + to_bytes(self.sigtype)\n                + to_bytes(self.pubalg)\n                + to_bytes(self.halg)\n                + self.subpackets.__bytearray__()\n                + self.hash2\n                + self.signature.__bytearray__())")
T('C02', 'twin-canonical-bytes-field-loop', PK, "        _body += self.int_to_bytes(self.header.version)\n        _body += self.int_to_bytes(self.sigtype)\n        _body += self.int_to_bytes(self.pubalg)\n        _body += self.int_to_bytes(self.halg)\n        _body += self.subpackets.__hashbytearray__()\n        _body += self.int_to_bytes(0, minlen=2)  # empty unhashed subpackets",
  "        for field in (self.header.version, self.sigtype, self.pubalg, self.halg):\n            _body += self.int_to_bytes(field)\n        _body += self.subpackets.__hashbytearray__()\n        _body += b'\\x00\\x00'  # empty unhashed subpackets")
T('C02', 'twin-ecdsa-from-signer-zip-setattr', FL, "        seq, _ = decoder.decode(sig)\n        self.r = MPI(seq[0])\n        self.s = MPI(seq[1])", "        decoded = decoder.decode(sig)\n        seq, _ = decoded\n        for name, component in zip(self.__mpis__, (0, 1)):\n            setattr(self, name, MPI(seq[component]))")
T('C02', 'twin-eddsa-from-signer-negative-slice', FL, EDFS, "        split, odd = divmod(len(sig), 2)\n        if odd:\n            raise PGPError(\"malformed EdDSA signature\")\n        self.r = MPI(self.bytes_to_int(sig[:split]))\n        self.s = MPI(self.bytes_to_int(sig[-split:]))\n")
T('C02', 'twin-eddsa-sig-join', FL, "        return self.int_to_bytes(self.r, siglen) + self.int_to_bytes(self.s, siglen)", "        return b''.join(self.int_to_bytes(part, siglen) for part in (self.r, self.s))")
T('C02', 'twin-hasher-keyword', CO, "        return hashlib.new(self.name)", "        algname = self.name\n        context = hashlib.new(name=algname)\n        return context")
T('C02', 'twin-notation-writer-loop-and-sum', SS, "        name = self.name.encode()\n        value = self.value if isinstance(self.value, bytearray) else self.value.encode()\n        _bytes += self.int_to_bytes(sum(self.flags)) + b'\\x00\\x00\\x00'\n        _bytes += self.int_to_bytes(len(name), 2)\n        _bytes += self.int_to_bytes(len(value), 2)\n        _bytes += name\n        _bytes += value\n",
  "        name_octets = self.name.encode()\n        if isinstance(self.value, bytearray):\n            value_octets = self.value\n\n        else:\n            value_octets = self.value.encode()\n\n        _bytes += self.int_to_bytes(sum(self.flags))\n        _bytes += b'\\x00' * 3\n        for octets in (name_octets, value_octets):\n            _bytes += self.int_to_bytes(len(octets), 2)\n        _bytes += name_octets + value_octets\n")
M('C02', 'notation-writer-drops-value', SS, "        _bytes += name\n        _bytes += value\n", "        _bytes += name\n", 'C02.6')
M('C02', 'pubalg-class-table-keyerror-wrong-class', PK, SIGS_TABLE, "        try:\n            fieldcls = self._sigfields[self.pubalg]\n\n        except KeyError:\n            fieldcls = OpaqueSignature\n\n        self.signature = fieldcls()",
  'C02.4', more=[(PK, "    __ver__ = 4\n\n    @sdproperty\n    def sigtype(self):", "    __ver__ = 4\n\n" + CLS_TABLE.replace("PubKeyAlgorithm.EdDSA: EdDSASignature", "PubKeyAlgorithm.EdDSA: DSASignature") + "    @sdproperty\n    def sigtype(self):")])
M('C02', 'ecdsa-from-signer-zip-swapped', FL, "        seq, _ = decoder.decode(sig)\n        self.r = MPI(seq[0])\n        self.s = MPI(seq[1])", "        seq, _ = decoder.decode(sig)\n        for name, component in zip(self.__mpis__, (1, 0)):\n            setattr(self, name, MPI(seq[component]))", 'C02.4')
T('C05', 'twin-sigv4-parse-setattr-loop', PK, "        self.sigtype = packet[0]\n        del packet[0]\n\n        self.pubalg = packet[0]\n        del packet[0]\n\n        self.halg = packet[0]\n        del packet[0]\n",
  "        for field in ('sigtype', 'pubalg', 'halg'):\n            setattr(self, field, packet[0])\n            del packet[0]\n")
T('C05', 'twin-sigv4-copy-setattr-loop', PK, "        spkt.subpackets = copy.copy(self.subpackets)\n        spkt.hash2 = copy.copy(self.hash2)\n        spkt.signature = copy.copy(self.signature)\n",
  "        for attr in ('subpackets', 'hash2', 'signature'):\n            setattr(spkt, attr, copy.copy(getattr(self, attr)))\n")
T('C05', 'twin-pgpsig-copy-or', PGP, "        sig |= copy.copy(self._signature)\n        return sig", "        sigpkt = copy.copy(self._signature)\n        return sig | sigpkt")
T('C05', 'twin-halg-setter-single-store', PK, "        try:\n            self._halg = HashAlgorithm(val)\n\n        except ValueError:  # pragma: no cover\n            self._halg = val\n\n    @property\n    def signature(self):", "        try:\n            halg = HashAlgorithm(val)\n\n        except ValueError:  # pragma: no cover\n            halg = val\n\n        self._halg = halg\n\n    @property\n    def signature(self):")
M('C05', 'sigv4-parse-setattr-loop-wrong-order', PK, "        self.sigtype = packet[0]\n        del packet[0]\n\n        self.pubalg = packet[0]\n        del packet[0]\n\n        self.halg = packet[0]\n        del packet[0]\n",
  "        for field in ('sigtype', 'halg', 'pubalg'):\n            setattr(self, field, packet[0])\n            del packet[0]\n", 'C05.5')
M('C05', 'sigv4-copy-setattr-loop-skips-subpackets', PK, "        spkt.subpackets = copy.copy(self.subpackets)\n        spkt.hash2 = copy.copy(self.hash2)\n        spkt.signature = copy.copy(self.signature)\n",
  "        spkt.subpackets = self.subpackets\n        for attr in ('hash2', 'signature'):\n            setattr(spkt, attr, copy.copy(getattr(self, attr)))\n", 'C05.3')

# defects found by an independent mutant run that the pre-hardening rules missed as well
M('C02', 'bind-names-bound-keys-algorithm', PGP, "            raise PGPError\n\n        sig = PGPSignature.new(sig_type, self.key_algorithm, hash_algo, self.fingerprint.keyid, created=prefs.pop('created', None))",
  "            raise PGPError\n\n        sig = PGPSignature.new(sig_type, key.key_algorithm, hash_algo, self.fingerprint.keyid, created=prefs.pop('created', None))", 'C02.1c')
M('C05', 'update-hlen-drops-capture', FL, "    def update_hlen(self):\n        for sp in self:\n            sp.update_hlen()\n\n    def parse(self, packet):\n        hl =", "    def update_hlen(self):\n        for sp in self:\n            sp.update_hlen()\n        self._hashed_raw = None  # lengths were recomputed\n\n    def parse(self, packet):\n        hl =", 'C05.3')
M('C05', 'copy-refiles-hashed-after-capture', FL, "        sp._hashed_sp = self._hashed_sp.copy()\n        sp._unhashed_sp = self._unhashed_sp.copy()\n        sp._hashed_raw = copy.copy(self._hashed_raw)\n",
  "        sp._unhashed_sp = self._unhashed_sp.copy()\n        sp._hashed_raw = copy.copy(self._hashed_raw)\n        for (spname, _), hsp in self._hashed_sp.items():\n            sp['h_' + spname] = hsp\n", 'C05.3')
T('C05', 'twin-setitem-invalidate-helper', FL, "            d, key = self._hashed_sp, key[2:]\n            self._hashed_raw = None\n", "            d, key = self._hashed_sp, key[2:]\n            self._forget_received()\n",
  more=[(FL, "    def __getitem__(self, key):\n        if isinstance(key, tuple):  # pragma: no cover\n            return self._hashed_sp.get", "    def _forget_received(self):\n        self._hashed_raw = None\n\n    def __getitem__(self, key):\n        if isinstance(key, tuple):  # pragma: no cover\n            return self._hashed_sp.get")])
T('C05', 'twin-copy-refile-unhashed', FL, "        sp._unhashed_sp = self._unhashed_sp.copy()\n        sp._hashed_raw = copy.copy(self._hashed_raw)\n", "        sp._hashed_raw = copy.copy(self._hashed_raw)\n        sp._unhashed_sp = self._unhashed_sp.copy()\n")

# families from the second independent round (bolder refactorings) and the held-out twins
T('C02', 'twin-addnew-table-loop', PGP, "        if usage is not None:\n            sig._signature.subpackets.addnew('KeyFlags', hashed=True, flags=usage)\n\n        if exportable is not None:\n            sig._signature.subpackets.addnew('ExportableCertification', hashed=True, bflag=exportable)\n",
  "        for spname, field, value in (('KeyFlags', 'flags', usage), ('ExportableCertification', 'bflag', exportable)):\n            if value is not None:\n                sig._signature.subpackets.addnew(spname, hashed=True, **{field: value})\n")
M('C02', 'addnew-table-loop-unknown-field', PGP, "        if usage is not None:\n            sig._signature.subpackets.addnew('KeyFlags', hashed=True, flags=usage)\n\n        if exportable is not None:\n            sig._signature.subpackets.addnew('ExportableCertification', hashed=True, bflag=exportable)\n",
  "        for spname, field, value in (('KeyFlags', 'flags', usage), ('ExportableCertification', 'flag', exportable)):\n            if value is not None:\n                sig._signature.subpackets.addnew(spname, hashed=True, **{field: value})\n", 'C02.3')
M('C02', 'addnew-table-loop-unhashed-entry', PGP, "        if usage is not None:\n            sig._signature.subpackets.addnew('KeyFlags', hashed=True, flags=usage)\n\n        if exportable is not None:\n            sig._signature.subpackets.addnew('ExportableCertification', hashed=True, bflag=exportable)\n",
  "        for spname, hashed, field, value in (('KeyFlags', True, 'flags', usage), ('ExportableCertification', False, 'bflag', exportable)):\n            if value is not None:\n                sig._signature.subpackets.addnew(spname, hashed=hashed, **{field: value})\n", 'C02.3')
T('C02', 'twin-addnew-fields-dict-local', PGP, "        sig._signature.subpackets.addnew('ReasonForRevocation', hashed=True, code=reason, string=comment)", "        fields = {'code': reason, 'string': comment}\n        sig._signature.subpackets.addnew('ReasonForRevocation', hashed=True, **fields)")
M('C02', 'addnew-fields-dict-local-wrong-key', PGP, "        sig._signature.subpackets.addnew('ReasonForRevocation', hashed=True, code=reason, string=comment)", "        fields = {'code': reason, 'comment': comment}\n        sig._signature.subpackets.addnew('ReasonForRevocation', hashed=True, **fields)", 'C02.3')
T('C02', 'twin-bind-type-table', PGP, "        if self.is_primary and not key.is_primary:\n            sig_type = SignatureType.Subkey_Binding\n\n        elif key.is_primary and not self.is_primary:\n            sig_type = SignatureType.PrimaryKey_Binding\n\n        else:  # pragma: no cover\n            raise PGPError\n",
  "        sig_type = {(True, False): SignatureType.Subkey_Binding,\n                    (False, True): SignatureType.PrimaryKey_Binding}.get((self.is_primary, key.is_primary))\n        if sig_type is None:  # pragma: no cover\n            raise PGPError\n")
M('C02', 'bind-type-table-swapped', PGP, "        if self.is_primary and not key.is_primary:\n            sig_type = SignatureType.Subkey_Binding\n\n        elif key.is_primary and not self.is_primary:\n            sig_type = SignatureType.PrimaryKey_Binding\n\n        else:  # pragma: no cover\n            raise PGPError\n",
  "        sig_type = {(True, False): SignatureType.PrimaryKey_Binding,\n                    (False, True): SignatureType.Subkey_Binding}.get((self.is_primary, key.is_primary))\n        if sig_type is None:  # pragma: no cover\n            raise PGPError\n", 'C02.1c')
T('C02', 'twin-keymaterial-sign-star-call', FL, "        return self.__privkey__().sign(sigdata, padding.PKCS1v15(), hash_alg)", "        signer = self.__privkey__().sign\n        args = (sigdata, padding.PKCS1v15(), hash_alg)\n        return signer(*args)")
M('C02', 'keymaterial-sign-star-call-fixed-hash', FL, "        return self.__privkey__().sign(sigdata, padding.PKCS1v15(), hash_alg)", "        signer = self.__privkey__().sign\n        args = (sigdata, padding.PKCS1v15(), hashes.SHA1())\n        return signer(*args)", 'C02.2')
T('C02', 'twin-privkeyv4-sign-keywords', PK, "        return self.keymaterial.sign(sigdata, hash_alg)", "        return self.keymaterial.sign(hash_alg=hash_alg, sigdata=sigdata)")
M('C02', 'privkeyv4-sign-keywords-crossed', PK, "        return self.keymaterial.sign(sigdata, hash_alg)", "        return self.keymaterial.sign(hash_alg=sigdata, sigdata=hash_alg)", 'C02.2')
T('C02', 'twin-sign-hash-class-local', PGP, "        _sig = self._key.sign(sigdata, getattr(hashes, sig.hash_algorithm.name)())", "        signer = self._key.sign\n        hash_cls = getattr(hashes, sig.hash_algorithm.name)\n        _sig = signer(sigdata, hash_cls())")
T('C02', 'twin-addnew-explicit-setitem', FL, "        if hashed:\n            self['h_' + spname] = nsp\n\n        else:\n            self[spname] = nsp", "        self.__setitem__(('h_' if hashed else '') + spname, nsp)")
T('C02', 'twin-rsa-from-signer-int-from-bytes', FL, "        self.md_mod_n = MPI(self.bytes_to_int(sig))", "        self.md_mod_n = MPI(int.from_bytes(sig, 'big'))")
T('C02', 'twin-eddsa-from-signer-shift-and-len', FL, EDFS, "        lsig = len(sig)\n        if lsig & 1:\n            raise PGPError(\"malformed EdDSA signature\")\n        split = lsig >> 1\n        self.r = MPI(int.from_bytes(sig[:split], 'big'))\n        self.s = MPI(int.from_bytes(sig[split:lsig], 'big'))\n")
M('C02', 'revoker-class-octet-without-0x80', PGP, "        keyclass = RevocationKeyClass.Normal | (RevocationKeyClass.Sensitive if sensitive else 0x00)", "        keyclass = RevocationKeyClass.Sensitive if sensitive else RevocationKeyClass.Normal", 'C02.3')
T('C05', 'twin-parse-int-from-bytes', FL, "        hl = self.bytes_to_int(packet[:2])\n        hashed_raw = packet[:2 + hl]", "        hl = int.from_bytes(packet[:2], 'big')\n        hashed_raw = packet[:2 + hl]")
T('C05', 'twin-sigv4-copy-plan', PK, "        spkt._sigtype = self._sigtype\n        spkt._pubalg = self._pubalg\n        spkt._halg = self._halg\n\n        spkt.subpackets = copy.copy(self.subpackets)\n        spkt.hash2 = copy.copy(self.hash2)\n        spkt.signature = copy.copy(self.signature)\n",
  "        plan = (('_sigtype', None), ('_pubalg', None), ('_halg', None),\n                ('subpackets', copy.copy), ('hash2', copy.copy), ('signature', copy.copy))\n        for name, duplicate in plan:\n            value = getattr(self, name)\n            if duplicate is not None:\n                value = duplicate(value)\n            setattr(spkt, name, value)\n")
M('C05', 'sigv4-copy-plan-shares-subpackets', PK, "        spkt._sigtype = self._sigtype\n        spkt._pubalg = self._pubalg\n        spkt._halg = self._halg\n\n        spkt.subpackets = copy.copy(self.subpackets)\n        spkt.hash2 = copy.copy(self.hash2)\n        spkt.signature = copy.copy(self.signature)\n",
  "        plan = (('_sigtype', None), ('_pubalg', None), ('_halg', None),\n                ('subpackets', None), ('hash2', copy.copy), ('signature', copy.copy))\n        for name, duplicate in plan:\n            value = getattr(self, name)\n            if duplicate is not None:\n                value = duplicate(value)\n            setattr(spkt, name, value)\n", 'C05.3')
T('C05', 'twin-parse-loop-stop-form', FL, "        plen = len(packet)\n        while plen - len(packet) < hl:\n            sp = SignatureSP(packet)\n            self['h_' + sp.__class__.__name__] = sp\n        self._hashed_raw = hashed_raw\n",
  "        stop = len(packet) - hl\n        while len(packet) > stop:\n            sp = SignatureSP(packet)\n            self['h_' + type(sp).__name__] = sp\n        self._hashed_raw = hashed_raw\n")
# --- held-out refactorings / property-breaking edits written by independent sub-agents that did not see the rules (kept as
#     unified diffs under selftest/patches/); every hunk becomes one exact-text edit, widened until it matches exactly once
def _patch_edits(name, root='/repo'):
    import os
    import re as _re
    here = os.path.dirname(os.path.abspath(__file__)) if '__file__' in globals() else 'selftest'
    path = os.path.join(here, 'patches', name)
    if not os.path.exists(path):
        path = os.path.join('selftest', 'patches', name)
    edits, cur, lines = [], None, open(path).read().split('\n')
    i = 0
    while i < len(lines):
        l = lines[i]
        if l.startswith('+++ '):
            cur = l[4:].split('\t')[0].strip()
            cur = cur[2:] if cur[:2] in ('a/', 'b/') else cur
        m = _re.match(r'^@@ -(\d+)(?:,(\d+))? \+(\d+)(?:,(\d+))? @@', l)
        if m and cur:
            start = int(m.group(1))
            old, new = [], []
            i += 1
            while i < len(lines) and not lines[i].startswith(('@@', 'diff ', '--- ')):
                h = lines[i]
                if h.startswith('\\'):
                    pass
                elif h.startswith('-'):
                    old.append(h[1:])
                elif h.startswith('+'):
                    new.append(h[1:])
                elif h.startswith(' ') or h == '':
                    if h == '' and i == len(lines) - 1:
                        break
                    old.append(h[1:])
                    new.append(h[1:])
                i += 1
            src = open(os.path.join(root, cur)).read().split('\n')
            lo, hi = start - 1, start - 1 + len(old)
            if src[lo:hi] != old:
                # the reference tree moved on (a later fix: commit shifted the lines): take the nearest exact occurrence
                for k in sorted(range(-400, 401), key=abs):
                    if lo + k >= 0 and src[lo + k:hi + k] == old:
                        lo, hi = lo + k, hi + k
                        break
            assert src[lo:hi] == old, (name, cur, start)
            pre, post = [], []
            text = '\n'.join(src)
            while text.count('\n'.join(pre + old + post)) != 1:
                if lo > 0:
                    lo -= 1
                    pre.insert(0, src[lo])
                if hi < len(src):
                    post.append(src[hi])
                    hi += 1
            edits.append((cur, '\n'.join(pre + old + post), '\n'.join(pre + new + post)))
            continue
        i += 1
    return edits


def _patch_case(kind, prop, cid, name, rule=None):
    ed = _patch_edits(name)
    if kind == 'T':
        T(prop, cid, ed[0][0], ed[0][1], ed[0][2], more=ed[1:])
    else:
        M(prop, cid, ed[0][0], ed[0][1], ed[0][2], rule, more=ed[1:])



# =============================================================================================== C07
M('C07', 'pubkey-iterates-mpis', PK, "        for pm in self.keymaterial.__pubfields__:\n            setattr(pk.keymaterial, pm, copy.copy(getattr(self.keymaterial, pm)))", "        for pm in self.keymaterial.__mpis__:\n            setattr(pk.keymaterial, pm, copy.copy(getattr(self.keymaterial, pm)))", 'C07.1')
M('C07', 'pubkey-builds-private', PK, "        pk = PubKeyV4() if not isinstance(self, PrivSubKeyV4) else PubSubKeyV4()", "        pk = PrivKeyV4() if not isinstance(self, PrivSubKeyV4) else PrivSubKeyV4()", 'C07.1')
M('C07', 'pubkey-copies-s2k', PK, "        pk.update_hlen()\n        return pk\n\n    @property\n    def protected(self):", "        pk.keymaterial.s2k = self.keymaterial.s2k\n        pk.update_hlen()\n        return pk\n\n    @property\n    def protected(self):", 'C07.1')
M('C07', 'twin-key-is-copy', PGP, "            pub._key = self._key.pubkey()", "            pub._key = copy.copy(self._key)", 'C07.2')
M('C07', 'twin-attaches-private-subkey', PGP, "                pub |= subkey.pubkey\n", "                pub |= subkey\n", 'C07.2')
M('C07', 'table-public-gets-private', PK, "            (True, PubKeyAlgorithm.RSAEncryptOrSign): RSAPub,", "            (True, PubKeyAlgorithm.RSAEncryptOrSign): RSAPriv,", 'C07.4')
M('C07', 'table-private-mismatch', PK, "            (False, PubKeyAlgorithm.ECDH): ECDHPriv,", "            (False, PubKeyAlgorithm.ECDH): ECDSAPriv,", 'C07.4')
M('C07', 'sign-without-is-public', PGP, "    @KeyAction(KeyFlags.Sign, is_unlocked=True, is_public=False)", "    @KeyAction(KeyFlags.Sign, is_unlocked=True)", 'C07.5')
M('C07', 'decrypt-public-ok', PGP, "    @KeyAction(is_unlocked=True, is_public=False)\n    def decrypt(self, message):", "    @KeyAction(is_unlocked=True)\n    def decrypt(self, message):", 'C07.5')
M('C07', 'check-after-action', DE, "                self.check_attributes(key)\n\n                # do the thing\n                return action(_key, *args, **kwargs)", "                # do the thing\n                res = action(_key, *args, **kwargs)\n                self.check_attributes(key)\n                return res", 'C07.5')
M('C07', 'check-attributes-eq', DE, "            if getattr(key, attr) != expected:", "            if getattr(key, attr) == expected:", 'C07.5')
M('C07', 'hashdata-private-packet', PGP, "        pub = self._key if self.is_public else self._key.pubkey()\n", "        pub = self._key\n", 'C07.3')
M('C07', 'is-public-drops-private-test', PGP, "        return isinstance(self._key, Public) and not isinstance(self._key, Private)\n\n    @property\n    def is_unlocked(self):", "        return isinstance(self._key, Public)\n\n    @property\n    def is_unlocked(self):", 'C07.6')
M('C07', 'export-adds-keymaterial', PGP, "        # subkeys\n        for sk in self._children.values():\n            _bytes += sk.__bytearray__()\n", "        # subkeys\n        for sk in self._children.values():\n            _bytes += sk.__bytearray__()\n        _bytes += self._key.keymaterial.__bytearray__()\n", 'C07.6')
M('C07', 'or-accepts-other-kind', PGP, "        elif isinstance(other, PGPKey) and not other.is_primary and other.is_public == self.is_public:", "        elif isinstance(other, PGPKey) and not other.is_primary:", 'C07.2')
T('C07', 'twin-pubkey-local', PK, "        pk.created = self.created\n        pk.pkalg = self.pkalg\n\n        # copy over MPIs", "        created = self.created\n        pk.created = created\n        pk.pkalg = self.pkalg\n\n        # copy over MPIs")
T('C07', 'twin-is-public-parens', PGP, "        return isinstance(self._key, Public) and not isinstance(self._key, Private)\n\n    @property\n    def is_unlocked(self):", "        return (not isinstance(self._key, Private)) and isinstance(self._key, Public)\n\n    @property\n    def is_unlocked(self):")
# --- hardening: rules rewritten over interpreter paths / truth tables (twins T must stay silent, mutants M must be reported)
M('C07', 'call-check-errors-swallowed', DE, "                self.check_attributes(key)\n\n", "                try:\n                    self.check_attributes(key)\n                except PGPError as e:\n                    logging.warning(str(e))\n\n", 'C07.5')
T('C07', 'twin-attrs-guard-clause', DE, "            if getattr(key, attr) != expected:\n                raise PGPError(\"Expected: {attr:s} == {eval:s}. Got: {got:s}\"\n                               \"\".format(attr=attr, eval=str(expected), got=str(getattr(key, attr))))", "            actual = getattr(key, attr)\n            if actual == expected:\n                continue\n            raise PGPError(\"Expected: {attr:s} == {eval:s}. Got: {got:s}\"\n                           \"\".format(attr=attr, eval=str(expected), got=str(actual)))")
T('C07', 'twin-attrs-by-name', DE, "        for attr, expected in self.conditions.items():\n", "        for attr in self.conditions:\n            expected = self.conditions[attr]\n")
M('C07', 'attrs-only-is-unlocked', DE, "            if getattr(key, attr) != expected:", "            if attr == 'is_unlocked' and getattr(key, attr) != expected:", 'C07.5')
M('C07', 'attrs-mismatch-logged', DE, "                raise PGPError(\"Expected: {attr:s} == {eval:s}. Got: {got:s}\"\n                               \"\".format(", "                logging.warning(\"Expected: {attr:s} == {eval:s}. Got: {got:s}\"\n                               \"\".format(", 'C07.5')
M('C07', 'attrs-first-condition-only', DE, "                               \"\".format(attr=attr, eval=str(expected), got=str(getattr(key, attr))))\n", "                               \"\".format(attr=attr, eval=str(expected), got=str(getattr(key, attr))))\n            break\n", 'C07.5')
M('C07', 'attrs-compares-with-self', DE, "            if getattr(key, attr) != expected:", "            if getattr(self, attr, expected) != expected:", 'C07.5')
T('C07', 'twin-attrs-mismatch-list', DE, "        for attr, expected in self.conditions.items():\n            if getattr(key, attr) != expected:\n                raise PGPError(", "        failed = [(attr, expected) for attr, expected in self.conditions.items() if getattr(key, attr) != expected]\n        if failed:\n            attr, expected = failed[0]\n            if True:\n                raise PGPError(")
T('C07', 'twin-attrs-any', DE, "        for attr, expected in self.conditions.items():\n            if getattr(key, attr) != expected:\n                raise PGPError(\"Expected: {attr:s} == {eval:s}. Got: {got:s}\"\n                               \"\".format(attr=attr, eval=str(expected), got=str(getattr(key, attr))))", "        if any(getattr(key, attr) != expected for attr, expected in self.conditions.items()):\n            raise PGPError(\"Key does not meet the required conditions: {0!r}\".format(self.conditions))")
M('C07', 'attrs-any-equal', DE, "        for attr, expected in self.conditions.items():\n            if getattr(key, attr) != expected:\n                raise PGPError(\"Expected: {attr:s} == {eval:s}. Got: {got:s}\"\n                               \"\".format(attr=attr, eval=str(expected), got=str(getattr(key, attr))))", "        if not any(getattr(key, attr) == expected for attr, expected in self.conditions.items()):\n            raise PGPError(\"Key does not meet the required conditions: {0!r}\".format(self.conditions))", 'C07.5')
T('C07', 'twin-decorator-const', PGP, "    @KeyAction(KeyFlags.Sign, is_unlocked=True, is_public=False)", "    @KeyAction(KeyFlags.Sign, **_PRIVATE_OPERATION)", more=[(PGP, "class PGPKey(Armorable, ParentRef, PGPObject):\n", "_PRIVATE_OPERATION = {'is_unlocked': True, 'is_public': False}\n\n\nclass PGPKey(Armorable, ParentRef, PGPObject):\n")])
_C07_BUILD = """            # create a new key shell
            pub = PGPKey()
            pub.ascii_headers = self.ascii_headers.copy()

            # get the public half of the primary key
            pub._key = self._key.pubkey()

            # get the public half of each subkey
            for skid, subkey in self.subkeys.items():
                pub |= subkey.pubkey

            # copy user ids and user attributes
            for uid in self._uids:
                pub |= copy.copy(uid)

            # copy signatures that weren't copied with uids
            for sig in self._signatures:
                if sig.parent is None:
                    pub |= copy.copy(sig)
"""
_C07_BUILD_TWIN = """            # create a new key shell
            twin = PGPKey()
            twin.ascii_headers = self.ascii_headers.copy()

            # get the public half of the primary key
            twin._key = self._key.pubkey()

            # get the public half of each subkey
            for skid, subkey in self.subkeys.items():
                twin |= subkey.pubkey

            # copy user ids and user attributes
            for uid in self._uids:
                twin |= copy.copy(uid)

            # copy signatures that weren't copied with uids
            for sig in self._signatures:
                if sig.parent is None:
                    twin |= copy.copy(sig)
"""
_C07_HELPER = """    def _public_shell(self):
        twin = PGPKey()
        twin.ascii_headers = self.ascii_headers.copy()
        twin._key = self._key.pubkey()
        for subkey in self.subkeys.values():
            twin |= subkey.pubkey
        for uid in self._uids:
            twin |= copy.copy(uid)
        for sig in self._signatures:
            if sig.parent is None:
                twin |= copy.copy(sig)
        return twin

    @pubkey.setter
"""
T('C07', 'twin-pubkey-helper', PGP, _C07_BUILD, "            pub = self._public_shell()\n", more=[(PGP, "    @pubkey.setter\n", _C07_HELPER)])
T('C07', 'twin-pubkey-rename-values', PGP, _C07_BUILD, _C07_BUILD_TWIN.replace('for skid, subkey in self.subkeys.items()', 'for subkey in self._children.values()').replace('twin |= copy.copy(uid)', 'twin = twin | copy.copy(uid)') + "            pub = twin\n")
T('C07', 'twin-pubkey-return-local', PGP, "                pub._parent = weakref.ref(self.parent)\n\n        return self._sibling()", "                pub._parent = weakref.ref(self.parent)\n\n            return pub\n\n        return self._sibling()")
M('C07', 'twin-drops-signatures', PGP, "            for sig in self._signatures:\n                if sig.parent is None:\n                    pub |= copy.copy(sig)\n", "", 'C07.2')
M('C07', 'twin-attaches-subkey-copy', PGP, "                pub |= subkey.pubkey\n", "                pub |= copy.copy(subkey)\n", 'C07.2')
M('C07', 'twin-returns-self', PGP, "                pub._parent = weakref.ref(self.parent)\n\n        return self._sibling()", "                pub._parent = weakref.ref(self.parent)\n\n        return self._sibling() or self", 'C07.2')
_C07_ARM = "        elif isinstance(other, PGPKey) and not other.is_primary and other.is_public == self.is_public:"
T('C07', 'twin-or-order', PGP, _C07_ARM, "        elif isinstance(other, PGPKey) and self.is_public == other.is_public and not other.is_primary:")
T('C07', 'twin-or-not-ne', PGP, _C07_ARM, "        elif isinstance(other, PGPKey) and not (other.is_primary or other.is_public != self.is_public):")
T('C07', 'twin-or-nested', PGP, _C07_ARM + "\n            other._parent = self\n            self._children[other.fingerprint.keyid] = other\n",
  "        elif isinstance(other, PGPKey) and not other.is_primary:\n            if other.is_public != self.is_public:\n                raise TypeError(\"unsupported operand type(s) for |: '{:s}' and '{:s}'\"\n                                \"\".format(self.__class__.__name__, other.__class__.__name__))\n            other._parent = self\n            self._children[other.fingerprint.keyid] = other\n")
T('C07', 'twin-or-mirror-keyword', PGP, "                sib.__or__(copy.copy(other), True)", "                sib.__or__(copy.copy(other), from_sib=True)")
M('C07', 'or-accepts-primary', PGP, _C07_ARM, "        elif isinstance(other, PGPKey) and other.is_public == self.is_public:", 'C07.2')
M('C07', 'or-kind-check-skipped-for-sibling', PGP, _C07_ARM, "        elif isinstance(other, PGPKey) and not other.is_primary and (from_sib or other.is_public == self.is_public):", 'C07.2')
M('C07', 'or-opposite-kind', PGP, _C07_ARM, "        elif isinstance(other, PGPKey) and not other.is_primary and other.is_public != self.is_public:", 'C07.2')
M('C07', 'or-mirror-shares-object', PGP, "                sib.__or__(copy.copy(other), True)", "                sib.__or__(other, True)", 'C07.2')
# C07.4 selector
T('C07', 'twin-selector-inline', PK, "        k = (self.public, self.pkalg)\n        km = _c.get(k, None)\n\n        self.keymaterial = (km or (OpaquePubKey if self.public else OpaquePrivKey))()", "        km = _c.get((self.public, self.pkalg))\n        if km is None:\n            km = OpaquePubKey if self.public else OpaquePrivKey\n\n        self.keymaterial = km()")
T('C07', 'twin-selector-ifs', PK, "        self.keymaterial = (km or (OpaquePubKey if self.public else OpaquePrivKey))()", "        if km:\n            self.keymaterial = km()\n        elif self.public:\n            self.keymaterial = OpaquePubKey()\n        else:\n            self.keymaterial = OpaquePrivKey()")
M('C07', 'selector-always-public', PK, "        k = (self.public, self.pkalg)\n        km = _c.get(k, None)", "        k = (True, self.pkalg)\n        km = _c.get(k, None)", 'C07.4')
M('C07', 'selector-fallback-swapped', PK, "(OpaquePubKey if self.public else OpaquePrivKey)", "(OpaquePrivKey if self.public else OpaquePubKey)", 'C07.4')
M('C07', 'selector-fallback-private-only', PK, "(OpaquePubKey if self.public else OpaquePrivKey)", "OpaquePrivKey", 'C07.4')
# C07.6 magic
_C07_MAGIC = "        return '{:s} KEY BLOCK'.format('PUBLIC' if (isinstance(self._key, Public) and not isinstance(self._key, Private)) else\n                                       'PRIVATE' if isinstance(self._key, Private) else '')"
T('C07', 'twin-magic-percent', PGP, _C07_MAGIC, "        if isinstance(self._key, Private):\n            kind = 'PRIVATE'\n        elif isinstance(self._key, Public):\n            kind = 'PUBLIC'\n        else:\n            kind = ''\n        return '%s KEY BLOCK' % kind")
T('C07', 'twin-magic-concat', PGP, _C07_MAGIC, "        kind = 'PUBLIC' if (isinstance(self._key, Public) and not isinstance(self._key, Private)) else 'PRIVATE' if isinstance(self._key, Private) else ''\n        return kind + ' KEY BLOCK'")
M('C07', 'magic-public-for-any-public-class', PGP, _C07_MAGIC, "        return '{:s} KEY BLOCK'.format('PUBLIC' if isinstance(self._key, Public) else\n                                       'PRIVATE' if isinstance(self._key, Private) else '')", 'C07.6')
M('C07', 'export-uid-signatures-unfiltered-private', PGP, "        # subkeys\n        for sk in self._children.values():\n            _bytes += sk.__bytearray__()\n", "        # subkeys\n        for sk in self._children.values():\n            _bytes += sk._key.keymaterial.__bytearray__()\n", 'C07.6')
T('C07', 'twin-export-subkeys-prop', PGP, "        # subkeys\n        for sk in self._children.values():\n            _bytes += sk.__bytearray__()\n", "        # subkeys\n        for subkey in self.subkeys.values():\n            _bytes.extend(subkey.__bytearray__())\n")

_C07_TBL = '        _c = {\n            # True means public\n            (True, PubKeyAlgorithm.RSAEncryptOrSign): RSAPub,\n            (True, PubKeyAlgorithm.RSAEncrypt): RSAPub,\n            (True, PubKeyAlgorithm.RSASign): RSAPub,\n            (True, PubKeyAlgorithm.DSA): DSAPub,\n            (True, PubKeyAlgorithm.ElGamal): ElGPub,\n            (True, PubKeyAlgorithm.FormerlyElGamalEncryptOrSign): ElGPub,\n            (True, PubKeyAlgorithm.ECDSA): ECDSAPub,\n            (True, PubKeyAlgorithm.ECDH): ECDHPub,\n            (True, PubKeyAlgorithm.EdDSA): EdDSAPub,\n            # False means private\n            (False, PubKeyAlgorithm.RSAEncryptOrSign): RSAPriv,\n            (False, PubKeyAlgorithm.RSAEncrypt): RSAPriv,\n            (False, PubKeyAlgorithm.RSASign): RSAPriv,\n            (False, PubKeyAlgorithm.DSA): DSAPriv,\n            (False, PubKeyAlgorithm.ElGamal): ElGPriv,\n            (False, PubKeyAlgorithm.FormerlyElGamalEncryptOrSign): ElGPriv,\n            (False, PubKeyAlgorithm.ECDSA): ECDSAPriv,\n            (False, PubKeyAlgorithm.ECDH): ECDHPriv,\n            (False, PubKeyAlgorithm.EdDSA): EdDSAPriv,\n        }\n\n'
_C07_TBL_HOISTED = '    _KEYMATERIAL = {\n        # True means public\n        (True, PubKeyAlgorithm.RSAEncryptOrSign): RSAPub,\n        (True, PubKeyAlgorithm.RSAEncrypt): RSAPub,\n        (True, PubKeyAlgorithm.RSASign): RSAPub,\n        (True, PubKeyAlgorithm.DSA): DSAPub,\n        (True, PubKeyAlgorithm.ElGamal): ElGPub,\n        (True, PubKeyAlgorithm.FormerlyElGamalEncryptOrSign): ElGPub,\n        (True, PubKeyAlgorithm.ECDSA): ECDSAPub,\n        (True, PubKeyAlgorithm.ECDH): ECDHPub,\n        (True, PubKeyAlgorithm.EdDSA): EdDSAPub,\n        # False means private\n        (False, PubKeyAlgorithm.RSAEncryptOrSign): RSAPriv,\n        (False, PubKeyAlgorithm.RSAEncrypt): RSAPriv,\n        (False, PubKeyAlgorithm.RSASign): RSAPriv,\n        (False, PubKeyAlgorithm.DSA): DSAPriv,\n        (False, PubKeyAlgorithm.ElGamal): ElGPriv,\n        (False, PubKeyAlgorithm.FormerlyElGamalEncryptOrSign): ElGPriv,\n        (False, PubKeyAlgorithm.ECDSA): ECDSAPriv,\n        (False, PubKeyAlgorithm.ECDH): ECDHPriv,\n        (False, PubKeyAlgorithm.EdDSA): EdDSAPriv,\n    }\n\n'
T('C07', 'twin-table-class-constant', PK, _C07_TBL + "        k = (self.public, self.pkalg)\n        km = _c.get(k, None)", "        k = (self.public, self.pkalg)\n        km = self._KEYMATERIAL.get(k, None)",
  more=[(PK, "    @pkalg.register(int)\n    @pkalg.register(PubKeyAlgorithm)\n    def pkalg_int(self, val):\n        self._pkalg = PubKeyAlgorithm(val)\n\n        k = (self.public", _C07_TBL_HOISTED + "    @pkalg.register(int)\n    @pkalg.register(PubKeyAlgorithm)\n    def pkalg_int(self, val):\n        self._pkalg = PubKeyAlgorithm(val)\n\n        k = (self.public")])

_patch_case('T', 'C07', 'heldout-a-t01', 'G6-a-t01.diff')
_patch_case('T', 'C07', 'heldout-a-t02', 'G6-a-t02.diff')
_patch_case('T', 'C07', 'heldout-a-t03', 'G6-a-t03.diff')
_patch_case('T', 'C07', 'heldout-a-t04', 'G6-a-t04.diff')
_patch_case('T', 'C07', 'heldout-a-t12', 'G6-a-t12.diff')
_patch_case('T', 'C07', 'heldout-a-t14', 'G6-a-t14.diff')
_patch_case('T', 'C07', 'heldout-b-t01', 'G6-b-t01.diff')
_patch_case('T', 'C07', 'heldout-b-t02', 'G6-b-t02.diff')
_patch_case('T', 'C07', 'heldout-b-t03', 'G6-b-t03.diff')
_patch_case('T', 'C07', 'heldout-b-t04', 'G6-b-t04.diff')
_patch_case('T', 'C07', 'heldout-b-t05', 'G6-b-t05.diff')
_patch_case('T', 'C07', 'heldout-b-t06', 'G6-b-t06.diff')
_patch_case('T', 'C07', 'heldout-b-t07', 'G6-b-t07.diff')
_patch_case('T', 'C07', 'heldout-b-t08', 'G6-b-t08.diff')
_patch_case('T', 'C07', 'heldout-b-t09', 'G6-b-t09.diff')
_patch_case('T', 'C07', 'heldout-b-t10', 'G6-b-t10.diff')
_patch_case('T', 'C07', 'heldout-b-t11', 'G6-b-t11.diff')
_patch_case('T', 'C07', 'heldout-b-t12', 'G6-b-t12.diff')
_patch_case('M', 'C07', 'heldout-m06', 'G6-m06.diff', 'C07.5')
_patch_case('M', 'C07', 'heldout-m11', 'G6-m11.diff', 'C07.2')
_patch_case('M', 'C07', 'heldout-m12', 'G6-m12.diff', 'C07.2')
_patch_case('M', 'C07', 'heldout-m13', 'G6-m13.diff', 'C07.2')
_patch_case('M', 'C07', 'heldout-m14', 'G6-m14.diff', 'C07.2')
_patch_case('M', 'C07', 'heldout-m15', 'G6-m15.diff', 'C07.2')
_patch_case('M', 'C07', 'heldout-m18', 'G6-m18.diff', 'C07.4')
_patch_case('M', 'C07', 'heldout-m19', 'G6-m19.diff', 'C07.2')
_patch_case('T', 'C07', 'heldout-c-t02', 'G6-c-t02.diff')
_patch_case('T', 'C07', 'heldout-c-t04', 'G6-c-t04.diff')
_patch_case('T', 'C07', 'heldout-c-t08', 'G6-c-t08.diff')
_patch_case('T', 'C07', 'heldout-c-t09', 'G6-c-t09.diff')
_patch_case('T', 'C07', 'heldout-c-t11', 'G6-c-t11.diff')
# --- C07.7 copy fidelity (seeded C07-w2mut2 / w2mut3 families) and further precondition mutants
M('C07', 'copy-userattribute-through-signature-container', PK, "class UserAttribute(Packet):", "class UserAttribute(Packet):\n    def __copy__(self):\n        ua = UserAttribute()\n        ua.header = copy.copy(self.header)\n        ua.subpackets = copy.copy(self.subpackets)\n        return ua\n", 'C07.7')
M('C07', 'copy-subpackets-reencoded', FL, "        sp = SubPackets()\n        sp._hashed_sp = self._hashed_sp.copy()\n        sp._unhashed_sp = self._unhashed_sp.copy()\n", "        sp = self.__class__()\n        for (name, _), val in self._hashed_sp.items():\n            sp['h_' + name] = val\n        for (name, _), val in self._unhashed_sp.items():\n            sp[name] = val\n", 'C07.7')
M('C07', 'copy-keypacket-as-public-class', PK, "    def __copy__(self):\n        pk = self.__class__()\n        pk.header = copy.copy(self.header)\n        pk.created = self.created", "    def __copy__(self):\n        pk = PubKeyV4()\n        pk.header = copy.copy(self.header)\n        pk.created = self.created", 'C07.7')
M('C07', 'copy-signature-drops-subpackets', PK, "        spkt.subpackets = copy.copy(self.subpackets)\n", "", 'C07.7')
T('C07', 'twin-copy-subpackets-own-class', FL, "        sp = SubPackets()\n        sp._hashed_sp = self._hashed_sp.copy()", "        sp = self.__class__()\n        sp._hashed_sp = self._hashed_sp.copy()")
T('C07', 'twin-copy-userattribute-own-class', PK, "class UserAttribute(Packet):", "class UserAttribute(Packet):\n    def __copy__(self):\n        ua = self.__class__()\n        ua.header = copy.copy(self.header)\n        ua.subpackets = copy.copy(self.subpackets)\n        return ua\n", more=[(FL, "        sp = SubPackets()\n        sp._hashed_sp = self._hashed_sp.copy()", "        sp = type(self)()\n        sp._hashed_sp = self._hashed_sp.copy()")])
M('C07', 'attrs-enforced-only-when-true', DE, "            if getattr(key, attr) != expected:", "            if expected and getattr(key, attr) != expected:", 'C07.5')
M('C07', 'attrs-truthiness-compared', DE, "            if getattr(key, attr) != expected:", "            if expected and not getattr(key, attr):", 'C07.5')
M('C07', 'call-check-only-with-identity', DE, "                self.check_attributes(key)\n", "                if kwargs.get('user') is not None:\n                    self.check_attributes(key)\n", 'C07.5')
M('C07', 'call-check-only-when-subkey-selected', DE, "                self.check_attributes(key)\n", "                if _key is not key:\n                    self.check_attributes(key)\n", 'C07.5')
M('C07', 'call-unguarded-fast-path', DE, "    def __call__(self, action):\n", "    def __call__(self, action):\n        if not self.conditions:\n            return action\n\n", 'C07.5')
# --- wave 6: whatever is filed into the private key reaches the live public sibling (__or__ paths, add_uid)
_W6_EMB = "            if other.type == SignatureType.Subkey_Binding:\n                for es in iter(pkb for pkb in other._signature.subpackets['EmbeddedSignature']):\n                    esig = PGPSignature() | es\n                    esig._parent = other\n                    self._signatures.insort(esig)\n"
M('C07', 'or-early-return-skips-sibling', PGP, _W6_EMB, "            if other.type != SignatureType.Subkey_Binding:\n                return self\n\n            for es in other._signature.subpackets['EmbeddedSignature']:\n                esig = PGPSignature() | es\n                esig._parent = other\n                self._signatures.insort(esig)\n", 'C07.2')
M('C07', 'add-uid-files-directly', PGP, "        self |= uid\n\n    def get_uid(self, search):", "        self._uids.insort(uid)\n\n    def get_uid(self, search):", 'C07.2')
_W6_SIB = "        if isinstance(self._sibling, weakref.ref) and not from_sib:\n            sib = self._sibling()\n            if sib is None:\n                self._sibling = None\n\n            else:  # pragma: no cover\n                sib.__or__(copy.copy(other), True)\n"
M('C07', 'or-sibling-handover-dropped', PGP, _W6_SIB, "        if isinstance(self._sibling, weakref.ref) and not from_sib:\n            if self._sibling() is None:\n                self._sibling = None\n", 'C07.2')
M('C07', 'or-sibling-handover-uids-only', PGP, _W6_SIB, _W6_SIB.replace("            else:  # pragma: no cover\n", "            elif isinstance(other, PGPUID):\n"), 'C07.2')
M('C07', 'or-sibling-handover-polarity', PGP, _W6_SIB, _W6_SIB.replace("and not from_sib:", "and from_sib:"), 'C07.2')
M('C07', 'or-uid-arm-returns-early', PGP, "            other._parent = weakref.ref(self)\n            self._uids.insort(other)\n", "            other._parent = weakref.ref(self)\n            self._uids.insort(other)\n            return self\n", 'C07.2')
T('C07', 'twin-or-sibling-guard-clauses', PGP, _W6_SIB, "        if from_sib or not isinstance(self._sibling, weakref.ref):\n            return self\n\n        sib = self._sibling()\n        if sib is None:\n            self._sibling = None\n            return self\n\n        sib.__or__(copy.copy(other), True)\n")
T('C07', 'twin-add-uid-or-call', PGP, "        self |= uid\n\n    def get_uid(self, search):", "        self.__or__(uid)\n\n    def get_uid(self, search):")
# --- wave 5: export order produced by a generator helper (canon fuses the loop over it)
_W5_EXP = "        _bytes = bytearray()\n        # us\n        _bytes += self._key.__bytearray__()\n        # our signatures; ignore embedded signatures\n        for sig in iter(s for s in self._signatures if not s.embedded and s.exportable):\n            _bytes += sig.__bytearray__()\n        # one or more User IDs, followed by their signatures\n        for uid in self._uids:\n            _bytes += uid._uid.__bytearray__()\n            for s in [s for s in uid._signatures if s.exportable]:\n                _bytes += s.__bytearray__()\n        # subkeys\n        for sk in self._children.values():\n            _bytes += sk.__bytearray__()\n\n        return _bytes\n"
_W5_GEN = "        _bytes = bytearray()\n        for component in self._export_sequence():\n            _bytes += component.__bytearray__()\n        return _bytes\n\n    def _export_sequence(self):\n        yield self._key\n        for sig in self._signatures:\n            if not sig.embedded and sig.exportable:\n                yield sig\n        for uid in self._uids:\n            yield uid._uid\n            yield from [s for s in uid._signatures if s.exportable]\n        for subkey in self._children.values():\n            yield subkey\n"
T('C07', 'twin-export-generator-helper', PGP, _W5_EXP, _W5_GEN)
M('C07', 'export-generator-adds-keymaterial', PGP, _W5_EXP, _W5_GEN.replace("        yield self._key\n", "        yield self._key\n        yield self._key.keymaterial\n"), 'C07.6')
# --- wave 3: width recomputed on copy, opaque / wholesale copies into the public packet (C07.7 incl. the shared serialised-attribute rule)
_W3_ECP = "        pk = self.__class__()\n        pk.bytelen = self.bytelen\n        pk.format = self.format\n        pk.x = copy.copy(self.x)\n        pk.y = copy.copy(self.y)"
M('C07', 'ecpoint-copy-width-recomputed', FL, _W3_ECP, "        pk = self.__class__()\n        pk.bytelen = (max(self.x.bit_length(), self.y.bit_length()) + 7) // 8\n        pk.format = self.format\n        pk.x = copy.copy(self.x)\n        pk.y = copy.copy(self.y)", 'C07.7')
M('C07', 'ecpoint-copy-format-defaulted', FL, _W3_ECP, "        pk = self.__class__()\n        pk.bytelen = self.bytelen\n        pk.x = copy.copy(self.x)\n        pk.y = copy.copy(self.y)", 'C07.7')
M('C07', 'ecpoint-copy-drops-y', FL, _W3_ECP, "        pk = self.__class__()\n        pk.bytelen = self.bytelen\n        pk.format = self.format\n        pk.x = copy.copy(self.x)\n        pk.y = copy.copy(self.x)", 'C07.7')
T('C07', 'twin-ecpoint-copy-order', FL, _W3_ECP, "        point = type(self)()\n        point.x = copy.copy(self.x)\n        point.y = copy.copy(self.y)\n        point.format = self.format\n        point.bytelen = self.bytelen\n        pk = point")
_W3_PUBC = "        for pm in self.keymaterial.__pubfields__:\n            setattr(pk.keymaterial, pm, copy.copy(getattr(self.keymaterial, pm)))"
M('C07', 'pubkey-copies-all-instance-fields', PK, _W3_PUBC, "        for pm in vars(self.keymaterial):\n            setattr(pk.keymaterial, pm, copy.copy(getattr(self.keymaterial, pm)))", 'C07.1')
M('C07', 'pubkey-shares-keymaterial-object', PK, _W3_PUBC, "        pk.keymaterial = self.keymaterial", 'C07.1')
M('C07', 'pubkey-copies-private-fields-too', PK, _W3_PUBC, "        for pm in self.keymaterial.__pubfields__ + self.keymaterial.__privfields__:\n            if hasattr(pk.keymaterial, pm):\n                setattr(pk.keymaterial, pm, copy.copy(getattr(self.keymaterial, pm)))", 'C07.1')
M('C07', 'userid-copy-drops-header', PK, "        uid = UserID()\n        uid.header = copy.copy(self.header)\n        uid.uid = self.uid", "        uid = UserID()\n        uid.uid = self.uid", 'C07.7')
M('C07', 'sigpacket-copy-rehashes-subpackets', PK, "        spkt.subpackets = copy.copy(self.subpackets)\n", "        for sp in self.subpackets._hashed_sp.values():\n            spkt.subpackets['h_' + sp.__class__.__name__] = sp\n        for sp in self.subpackets._unhashed_sp.values():\n            spkt.subpackets[sp.__class__.__name__] = sp\n", 'C07.7')
# =============================================================================================== C16
M('C16', 'sign-drops-unlocked', PGP, "    @KeyAction(KeyFlags.Sign, is_unlocked=True, is_public=False)", "    @KeyAction(KeyFlags.Sign, is_public=False)", 'C16.1')
M('C16', 'encrypt-private', PGP, "    @KeyAction(KeyFlags.EncryptCommunications, KeyFlags.EncryptStorage, is_public=True)", "    @KeyAction(KeyFlags.EncryptCommunications, KeyFlags.EncryptStorage, is_public=False)", 'C16.1')
M('C16', 'revoke-needs-sign', PGP, "    @KeyAction(KeyFlags.Certify, is_unlocked=True, is_public=False)\n    def revoke(self, target, **prefs):", "    @KeyAction(KeyFlags.Sign, is_unlocked=True, is_public=False)\n    def revoke(self, target, **prefs):", 'C16.1')
M('C16', 'raise-when-not-required', DE, "                if key._require_usage_flags:\n                    raise PGPError(warning)\n                else:\n                    logging.warning(warning)", "                if not key._require_usage_flags:\n                    raise PGPError(warning)\n                else:\n                    logging.warning(warning)", 'C16.3')
M('C16', 'flags-subset-test', DE, "                if self.flags & set(_key._get_key_flags(user)):", "                if self.flags <= set(_key._get_key_flags(user)):", 'C16.3')
M('C16', 'scan-subkeys-only', DE, "            for _key in _preiter(key, key.subkeys.values()):", "            for _key in key.subkeys.values():", 'C16.3')
M('C16', 'selfsig-oldest', PGP, "            for sig in reversed(self._signatures):\n                if sig.signer_fingerprint:", "            for sig in self._signatures:\n                if sig.signer_fingerprint:", 'C16.5')
M('C16', 'subkey-flags-oldest', PGP, "        return next(reversed(list(self.self_signatures))).key_flags", "        return next(self.self_signatures).key_flags", 'C16.5')
M('C16', 'issuer-from-parent', PGP, "        sig = PGPSignature.new(sig_type, self.key_algorithm, hash_algo, self.fingerprint.keyid, created=prefs.pop('created', None))\n\n        # signature options that only make sense in certifications",
  "        sig = PGPSignature.new(sig_type, self.key_algorithm, hash_algo, (self.parent or self).fingerprint.keyid, created=prefs.pop('created', None))\n\n        # signature options that only make sense in certifications", 'C16.4')
M('C16', 'recipient-primary-id', PGP, "        pkesk.encrypter = bytearray(binascii.unhexlify(self.fingerprint.keyid.encode('latin-1')))", "        pkesk.encrypter = bytearray(binascii.unhexlify((self.parent or self).fingerprint.keyid.encode('latin-1')))", 'C16.4')
M('C16', 'action-on-addressed-key', DE, "                return action(_key, *args, **kwargs)", "                return action(key, *args, **kwargs)", 'C16.2')
M('C16', 'no-uid-check-dropped', DE, "            if len(key._uids) == 0 and key.is_primary and action is not key.certify.__wrapped__:\n                raise PGPError(\"Key is not complete - please add a User ID!\")\n", "", 'C16.2')
M('C16', 'unlocked-when-protected', PGP, "        if not self.is_protected:\n            return True\n\n        return self._key.unlocked", "        if not self.is_protected:\n            return True\n\n        return True", 'C16.2')
M('C16', 'keyflags-unhashed', PGP, "            return next(iter(self._signature.subpackets['h_KeyFlags'])).flags", "            return next(iter(self._signature.subpackets['KeyFlags'])).flags", 'C16.5')
T('C16', 'twin-selfsig-slice', PGP, "            for sig in reversed(self._signatures):\n                if sig.signer_fingerprint:", "            for sig in reversed(list(self._signatures)):\n                if sig.signer_fingerprint:")
T('C16', 'twin-subkey-flags-index', PGP, "        return next(reversed(list(self.self_signatures))).key_flags", "        return list(self.self_signatures)[-1].key_flags")
# --- hardening: rules rewritten over interpreter paths / scenarios / truth tables
_C16_LOOP = "            for _key in _preiter(key, key.subkeys.values()):\n                if self.flags & set(_key._get_key_flags(user)):\n                    break\n"
T('C16', 'twin-usage-chain', DE, "            for _key in _preiter(key, key.subkeys.values()):", "            for _key in itertools.chain((key,), key.subkeys.values()):", more=[(DE, "import functools\n", "import functools\nimport itertools\n")])
T('C16', 'twin-usage-list-concat', DE, "            for _key in _preiter(key, key.subkeys.values()):", "            for _key in [key] + list(key.subkeys.values()):")
T('C16', 'twin-usage-candidates-list', DE, _C16_LOOP, "            candidates = [key]\n            candidates.extend(key.subkeys.values())\n            for candidate in candidates:\n                _key = candidate\n                effective = set(candidate._get_key_flags(user))\n                if effective & self.flags:\n                    break\n")
T('C16', 'twin-usage-intersection-call', DE, "                if self.flags & set(_key._get_key_flags(user)):", "                if self.flags.intersection(_key._get_key_flags(user)):")
T('C16', 'twin-usage-isdisjoint', DE, "                if self.flags & set(_key._get_key_flags(user)):", "                if not self.flags.isdisjoint(_key._get_key_flags(user)):")
T('C16', 'twin-usage-len-test', DE, "                if self.flags & set(_key._get_key_flags(user)):", "                if len(self.flags & set(_key._get_key_flags(user))) > 0:")
T('C16', 'twin-usage-flags-truth', DE, "        if len(self.flags):\n", "        if self.flags:\n")
T('C16', 'twin-usage-noflags-first', DE, "        if len(self.flags):\n" + _C16_LOOP, "        if not self.flags:\n            _key = key\n\n        else:\n" + _C16_LOOP.replace('            ', '            ', 1), more=[(DE, "                    logging.warning(warning)\n\n        else:\n            _key = key\n", "                    logging.warning(warning)\n")])
T('C16', 'twin-usage-warn-first', DE, "                if key._require_usage_flags:\n                    raise PGPError(warning)\n                else:\n                    logging.warning(warning)", "                if not key._require_usage_flags:\n                    logging.warning(warning)\n                else:\n                    raise PGPError(warning)")
T('C16', 'twin-usage-rename', DE, "            for _key in _preiter(key, key.subkeys.values()):\n                if self.flags & set(_key._get_key_flags(user)):\n                    break\n", "            for component in _preiter(key, key.subkeys.values()):\n                _key = component\n                if self.flags & set(component._get_key_flags(user)):\n                    break\n")
M('C16', 'usage-subkeys-before-key', DE, "            yield first\n            for item in iterable:\n                yield item\n", "            for item in iterable:\n                yield item\n            yield first\n", 'C16.3')
M('C16', 'usage-flags-of-default-identity', DE, "                if self.flags & set(_key._get_key_flags(user)):", "                if self.flags & set(_key._get_key_flags()):", 'C16.3')
M('C16', 'usage-yields-addressed-key', DE, "        yield _key\n", "        yield key\n", 'C16.3')
M('C16', 'usage-break-when-unenforced', DE, "                if self.flags & set(_key._get_key_flags(user)):", "                if self.flags & set(_key._get_key_flags(user)) or not key._require_usage_flags:", 'C16.3')
M('C16', 'usage-single-flag-skips-scan', DE, "        if len(self.flags):\n", "        if len(self.flags) > 1:\n", 'C16.3')
M('C16', 'usage-superset-test', DE, "                if self.flags & set(_key._get_key_flags(user)):", "                if self.flags >= set(_key._get_key_flags(user)):", 'C16.3')
M('C16', 'usage-unenforced-only-when-subkeys', DE, "                if key._require_usage_flags:\n                    raise PGPError(warning)", "                if key._require_usage_flags and not key.subkeys:\n                    raise PGPError(warning)", 'C16.3')
T('C16', 'twin-call-user-temp', DE, "            with self.usage(key, kwargs.get('user', None)) as _key:\n                self.check_attributes(key)\n", "            user = kwargs.get('user')\n            self.check_attributes(key)\n            with self.usage(key, user) as component:\n                _key = component\n")
T('C16', 'twin-call-result-temp', DE, "                return action(_key, *args, **kwargs)", "                result = action(_key, *args, **kwargs)\n            return result")
T('C16', 'twin-call-wrapper-name', DE, "        @functools.wraps(action)\n        def _action(key, *args, **kwargs):", "        def guarded(key, *args, **kwargs):", more=[(DE, "        return _action\n", "        return functools.wraps(action)(guarded)\n")])
T('C16', 'twin-call-demorgan', DE, "            if len(key._uids) == 0 and key.is_primary and action is not key.certify.__wrapped__:", "            if not (len(key._uids) > 0 or not key.is_primary or action is key.certify.__wrapped__):")
T('C16', 'twin-call-nested-ifs', DE, "            if len(key._uids) == 0 and key.is_primary and action is not key.certify.__wrapped__:\n                raise PGPError(\"Key is not complete - please add a User ID!\")\n", "            if not key._uids:\n                if key.is_primary:\n                    if action is not key.certify.__wrapped__:\n                        raise PGPError(\"Key is not complete - please add a User ID!\")\n")
M('C16', 'call-no-key-check-dropped', DE, "            if key._key is None:\n                raise PGPError(\"No key!\")\n", "", 'C16.2')
M('C16', 'call-exemption-any-key', DE, "            if len(key._uids) == 0 and key.is_primary and action is not key.certify.__wrapped__:", "            if len(key._uids) == 0 and key.is_primary and action is key.certify.__wrapped__:", 'C16.2')
M('C16', 'call-exemption-or', DE, "            if len(key._uids) == 0 and key.is_primary and action is not key.certify.__wrapped__:", "            if len(key._uids) == 0 and (not key.is_primary or action is not key.certify.__wrapped__):", 'C16.2')
M('C16', 'call-uid-check-force-kw', DE, "            if len(key._uids) == 0 and key.is_primary and action is not key.certify.__wrapped__:", "            if len(key._uids) == 0 and key.is_primary and action is not key.certify.__wrapped__ and not kwargs.get('force'):", 'C16.2')
M('C16', 'call-usage-ignores-identity', DE, "            with self.usage(key, kwargs.get('user', None)) as _key:", "            with self.usage(key, None) as _key:", 'C16.2')
M('C16', 'call-checks-selected-component', DE, "                self.check_attributes(key)\n", "                self.check_attributes(_key)\n", 'C16.2')
M('C16', 'call-no-key-returns-none', DE, "            if key._key is None:\n                raise PGPError(\"No key!\")\n", "            if key._key is None:\n                return None\n", 'C16.2')
T('C16', 'twin-usage-candidates-method', DE, "            for _key in _preiter(key, key.subkeys.values()):", "            for _key in self._candidates(key):", more=[(DE, "    def check_attributes(self, key):\n", "    @staticmethod\n    def _candidates(key):\n        yield key\n        for sub in key.subkeys.values():\n            yield sub\n\n    def check_attributes(self, key):\n")])
T('C16', 'twin-usage-children', DE, "            for _key in _preiter(key, key.subkeys.values()):", "            for _key in _preiter(key, key._children.values()):")
T('C16', 'twin-decorator-dict-splat', PGP, "    @KeyAction(KeyFlags.Sign, is_unlocked=True, is_public=False)", "    @KeyAction(KeyFlags.Sign, **{'is_unlocked': True, 'is_public': False})")
T('C16', 'twin-decorator-order', PGP, "    @KeyAction(KeyFlags.Sign, is_unlocked=True, is_public=False)", "    @KeyAction(KeyFlags.Sign, is_public=False, is_unlocked=True)")
T('C16', 'twin-decorator-const', PGP, "    @KeyAction(KeyFlags.Sign, is_unlocked=True, is_public=False)", "    @KeyAction(KeyFlags.Sign, **_PRIVATE_OPERATION)", more=[(PGP, "class PGPKey(Armorable, ParentRef, PGPObject):\n", "_PRIVATE_OPERATION = {'is_unlocked': True, 'is_public': False}\n\n\nclass PGPKey(Armorable, ParentRef, PGPObject):\n")])
M('C16', 'decorator-const-public', PGP, "    @KeyAction(KeyFlags.Sign, is_unlocked=True, is_public=False)", "    @KeyAction(KeyFlags.Sign, **_PRIVATE_OPERATION)", 'C16.1', more=[(PGP, "class PGPKey(Armorable, ParentRef, PGPObject):\n", "_PRIVATE_OPERATION = {'is_unlocked': True}\n\n\nclass PGPKey(Armorable, ParentRef, PGPObject):\n")])
M('C16', 'init-drops-conditions', DE, "        self.conditions = conditions\n", "        self.conditions = {}\n", 'C16.1')
M('C16', 'init-first-flag-only', DE, "        self.flags = set(usage)\n", "        self.flags = set(usage[:1])\n", 'C16.1')
T('C16', 'twin-init-frozenset', DE, "        self.flags = set(usage)\n", "        self.flags = frozenset(usage)\n")
T('C16', 'twin-init-dict-copy', DE, "        self.conditions = conditions\n", "        self.conditions = dict(conditions)\n")
_C16_SUB = "        return next(reversed(list(self.self_signatures))).key_flags"
T('C16', 'twin-subkey-flags-slice-rev', PGP, _C16_SUB, "        newest_first = list(self.self_signatures)[::-1]\n        return next(iter(newest_first)).key_flags")
T('C16', 'twin-subkey-flags-pop', PGP, _C16_SUB, "        return list(self.self_signatures).pop().key_flags")
T('C16', 'twin-subkey-flags-max', PGP, _C16_SUB, "        return max(self.self_signatures).key_flags")
T('C16', 'twin-subkey-flags-sorted-rev', PGP, _C16_SUB, "        return sorted(self.self_signatures, reverse=True)[0].key_flags")
M('C16', 'subkey-flags-first-of-list', PGP, _C16_SUB, "        return list(self.self_signatures)[0].key_flags", 'C16.5')
M('C16', 'subkey-flags-double-reverse', PGP, _C16_SUB, "        return next(reversed(list(reversed(list(self.self_signatures))))).key_flags", 'C16.5')
M('C16', 'subkey-flags-min', PGP, _C16_SUB, "        return min(self.self_signatures).key_flags", 'C16.5')
_C16_PRIM = """        if self.is_primary:
            if user is not None:
                user = self.get_uid(user)

            elif len(self._uids) == 0:
                return {KeyFlags.Certify}

            else:
                user = next(iter(self.userids))

            # RFC 4880 says that primary keys *must* be capable of certification
            return {KeyFlags.Certify} | (user.selfsig.key_flags if user.selfsig else set())

        # the most recent self-signature is the one in effect
"""
T('C16', 'twin-key-flags-subkey-first', PGP, _C16_PRIM + _C16_SUB, """        if not self.is_primary:
            # the most recent self-signature is the one in effect
            return next(reversed(list(self.self_signatures))).key_flags

        if user is not None:
            uid = self.get_uid(user)

        elif len(self._uids) == 0:
            return {KeyFlags.Certify}

        else:
            uid = next(iter(self.userids))

        if uid.selfsig:
            granted = uid.selfsig.key_flags

        else:
            granted = set()

        return {KeyFlags.Certify} | granted""")
T('C16', 'twin-key-flags-union-call', PGP, "            return {KeyFlags.Certify} | (user.selfsig.key_flags if user.selfsig else set())", "            selfsig = user.selfsig\n            flags = {KeyFlags.Certify}\n            if selfsig:\n                flags = flags | selfsig.key_flags\n            return flags")
M('C16', 'primary-flags-ignore-chosen-identity', PGP, "            if user is not None:\n                user = self.get_uid(user)\n\n            elif len(self._uids) == 0:", "            if user is not None and len(self._uids) == 1:\n                user = self.get_uid(user)\n\n            elif len(self._uids) == 0:", 'C16.5')
M('C16', 'primary-flags-certify-only', PGP, "            return {KeyFlags.Certify} | (user.selfsig.key_flags if user.selfsig else set())", "            return {KeyFlags.Certify}", 'C16.5')
M('C16', 'primary-flags-all-when-no-selfsig', PGP, "            return {KeyFlags.Certify} | (user.selfsig.key_flags if user.selfsig else set())", "            return {KeyFlags.Certify} | (user.selfsig.key_flags if user.selfsig else set(KeyFlags))", 'C16.5')
# selfsig
_C16_SS = "            for sig in reversed(self._signatures):\n                if sig.signer_fingerprint:"
T('C16', 'twin-selfsig-slice-rev', PGP, _C16_SS, "            for candidate in list(self._signatures)[::-1]:\n                sig = candidate\n                if sig.signer_fingerprint:")
T('C16', 'twin-selfsig-issuer-temp', PGP, "                if sig.signer_fingerprint:\n                    if self.parent.fingerprint == sig.signer_fingerprint:\n                        return sig\n                elif sig.signer:\n                    if self.parent.fingerprint == sig.signer:\n                        return sig", "                owner = self.parent.fingerprint\n                if sig.signer_fingerprint:\n                    if sig.signer_fingerprint == owner:\n                        return sig\n                elif sig.signer and owner == sig.signer:\n                    return sig")
M('C16', 'selfsig-sorted-ascending', PGP, _C16_SS, "            for sig in sorted(self._signatures):\n                if sig.signer_fingerprint:", 'C16.5')
M('C16', 'selfsig-any-issuer', PGP, "                    if self.parent.fingerprint == sig.signer_fingerprint:\n                        return sig\n                elif", "                    if sig.signer_fingerprint:\n                        return sig\n                elif", 'C16.5')
M('C16', 'selfsig-issuer-ne', PGP, "                    if self.parent.fingerprint == sig.signer:\n                        return sig", "                    if self.parent.fingerprint != sig.signer:\n                        return sig", 'C16.5')
# self_signatures
_C16_FIL = "        for sig in iter(sig for sig in self._signatures\n                        if all([sig.type == keytype, sig.signer == keyid, not sig.is_expired])):\n            yield sig\n\n    @property\n    def signers(self):\n        \"\"\"A ``set`` of key ids of keys that were used to sign this key\"\"\""
_C16_TAIL = "\n\n    @property\n    def signers(self):\n        \"\"\"A ``set`` of key ids of keys that were used to sign this key\"\"\""
T('C16', 'twin-self-signatures-and', PGP, _C16_FIL, "        for s in (s for s in self._signatures if s.type == keytype and keyid == s.signer and not s.is_expired):\n            yield s" + _C16_TAIL)
T('C16', 'twin-self-signatures-yield-from', PGP, _C16_FIL, "        yield from (s for s in self._signatures if all((s.type == keytype, s.signer == keyid, not s.is_expired)))" + _C16_TAIL)
M('C16', 'self-signatures-any-issuer', PGP, _C16_FIL, "        for sig in iter(sig for sig in self._signatures\n                        if all([sig.type == keytype, not sig.is_expired])):\n            yield sig" + _C16_TAIL, 'C16.5')
M('C16', 'self-signatures-reversed', PGP, _C16_FIL, "        for sig in iter(sig for sig in reversed(self._signatures)\n                        if all([sig.type == keytype, sig.signer == keyid, not sig.is_expired])):\n            yield sig" + _C16_TAIL, 'C16.5')
M('C16', 'self-signatures-expired-kept', PGP, _C16_FIL, "        for sig in iter(sig for sig in self._signatures\n                        if all([sig.type == keytype, sig.signer == keyid])):\n            yield sig" + _C16_TAIL, 'C16.5')
# key_flags
_C16_KF = "            return next(iter(self._signature.subpackets['h_KeyFlags'])).flags"
T('C16', 'twin-keyflags-temp', PGP, _C16_KF, "            hashed = self._signature.subpackets['h_KeyFlags']\n            return next(iter(hashed)).flags")
# premise
T('C16', 'twin-lt-flipped', PGP, "    def __lt__(self, other):\n        return self.created < other.created", "    def __lt__(self, other):\n        return other.created > self.created")
M('C16', 'lt-by-type', PGP, "    def __lt__(self, other):\n        return self.created < other.created", "    def __lt__(self, other):\n        return self.type < other.type", 'C16.5')
T('C16', 'twin-insort-insert', TY, "        i = bisect.bisect_left(self, item)\n        self.rotate(- i)\n        self.appendleft(item)\n        self.rotate(i)", "        position = bisect.bisect_left(self, item)\n        self.insert(position, item)")
M('C16', 'insort-appends', TY, "        i = bisect.bisect_left(self, item)\n        self.rotate(- i)\n        self.appendleft(item)\n        self.rotate(i)", "        self.append(item)", 'C16.5')
M('C16', 'insort-rotate-back-missing', TY, "        self.appendleft(item)\n        self.rotate(i)", "        self.appendleft(item)", 'C16.5')
# --- wave 6: self_signatures through a returned generator helper; short-circuit predicates
_W6_SS = "        keyid, keytype = (self.fingerprint.keyid, SignatureType.DirectlyOnKey) if self.is_primary \\\n            else (self.parent.fingerprint.keyid, SignatureType.Subkey_Binding)\n\n        ##TODO: filter out revoked signatures as well\n        for sig in iter(sig for sig in self._signatures\n                        if all([sig.type == keytype, sig.signer == keyid, not sig.is_expired])):\n            yield sig\n"
_W6_HLP = "        return self._own_signatures(SignatureType.DirectlyOnKey, SignatureType.Subkey_Binding)\n\n    def _own_signatures(self, primary_type, subkey_type):\n        if self.is_primary:\n            keyid, keytype = self.fingerprint.keyid, primary_type\n        else:\n            keyid, keytype = self.parent.fingerprint.keyid, subkey_type\n\n        for sig in self._signatures:\n            if all([sig.type == keytype, sig.signer == keyid, not sig.is_expired]):\n                yield sig\n"
T('C16', 'twin-self-signatures-returned-helper', PGP, _W6_SS, _W6_HLP)
M('C16', 'self-signatures-helper-any-issuer', PGP, _W6_SS, _W6_HLP.replace("sig.signer == keyid, ", ""), 'C16.5')
M('C16', 'self-signatures-helper-types-swapped', PGP, _W6_SS, _W6_HLP.replace("self._own_signatures(SignatureType.DirectlyOnKey, SignatureType.Subkey_Binding)", "self._own_signatures(SignatureType.Subkey_Binding, SignatureType.DirectlyOnKey)"), 'C16.5')
T('C16', 'twin-unlocked-short-circuit', PK, "        if self.protected:\n            return 0 not in list(self.keymaterial)\n        return True  # pragma: no cover", "        return not self.protected or all(c != 0 for c in self.keymaterial)")
# --- wave 5: context-manager helper around the wrapper body (canon inlines it), yield from, filtered delegation candidates
_W5_WRAP = "            if key._key is None:\n                raise PGPError(\"No key!\")\n\n            # if a key is in the process of being created, it needs to be allowed to certify its own user id\n            if len(key._uids) == 0 and key.is_primary and action is not key.certify.__wrapped__:\n                raise PGPError(\"Key is not complete - please add a User ID!\")\n\n            with self.usage(key, kwargs.get('user', None)) as _key:\n                self.check_attributes(key)\n\n                # do the thing\n                return action(_key, *args, **kwargs)\n"
_W5_CALLW = "            with self._component_for(action, key, kwargs.get('user', None)) as _key:\n                return action(_key, *args, **kwargs)\n"
_W5_HELP = "    @contextlib.contextmanager\n    def _component_for(self, action, key, user):\n        if key._key is None:\n            raise PGPError(\"No key!\")\n\n        if len(key._uids) == 0 and key.is_primary and action is not key.certify.__wrapped__:\n            raise PGPError(\"Key is not complete - please add a User ID!\")\n\n        with self.usage(key, user) as _key:\n            self.check_attributes(key)\n            yield _key\n\n    def __call__(self, action):\n"
for P in ('C16', 'C07'):
    T(P, 'twin-call-context-helper', DE, _W5_WRAP, _W5_CALLW, more=[(DE, "    def __call__(self, action):\n", _W5_HELP)])
M('C16', 'context-helper-yields-before-check', DE, _W5_WRAP, _W5_CALLW, 'C16.2', more=[(DE, "    def __call__(self, action):\n", _W5_HELP.replace("            self.check_attributes(key)\n            yield _key\n", "            yield _key\n            self.check_attributes(key)\n"))])
M('C07', 'context-helper-drops-check', DE, _W5_WRAP, _W5_CALLW, 'C07.5', more=[(DE, "    def __call__(self, action):\n", _W5_HELP.replace("            self.check_attributes(key)\n", ""))])
M('C16', 'context-helper-no-key-refusal-lost', DE, _W5_WRAP, _W5_CALLW, 'C16.2', more=[(DE, "    def __call__(self, action):\n", _W5_HELP.replace("        if key._key is None:\n            raise PGPError(\"No key!\")\n\n", ""))])
M('C16', 'context-helper-yields-addressed-key', DE, _W5_WRAP, _W5_CALLW, 'C16.2', more=[(DE, "    def __call__(self, action):\n", _W5_HELP.replace("            yield _key\n", "            yield key\n"))])
T('C16', 'twin-preiter-yield-from', DE, "            for item in iterable:\n                yield item\n", "            yield from iterable\n")
_W5_DEL = "            sks = set(self.subkeys)\n            mis = set(message.encrypters)\n            if sks & mis:\n                skid = list(sks & mis)[0]\n                return self.subkeys[skid].decrypt(message)\n"
M('C16', 'delegate-only-encryption-subkeys', PGP, _W5_DEL, "            sks = set(kid for kid, sk in self.subkeys.items() if {KeyFlags.EncryptCommunications, KeyFlags.EncryptStorage} & set(sk._get_key_flags()))\n            mis = set(message.encrypters)\n            if sks & mis:\n                skid = list(sks & mis)[0]\n                return self.subkeys[skid].decrypt(message)\n", 'C16.6')
M('C16', 'delegate-loop-flag-gated', PGP, _W5_DEL, "            for skid, sk in self.subkeys.items():\n                if skid in message.encrypters and KeyFlags.EncryptCommunications in sk._get_key_flags():\n                    return sk.decrypt(message)\n", 'C16.6')
M('C16', 'delegate-loop-unexpired-only', PGP, _W5_DEL, "            for skid in self.subkeys:\n                if skid in message.encrypters and not self.subkeys[skid].is_expired:\n                    return self.subkeys[skid].decrypt(message)\n", 'C16.6')
# --- insort evaluated on concrete collections: fast paths that are identities stay silent, wrong ones are reported
_C16_INS = "        i = bisect.bisect_left(self, item)\n        self.rotate(- i)\n        self.appendleft(item)\n        self.rotate(i)"
_C16_FAST = "        i = bisect.bisect_left(self, item)\n        if self.maxlen is None:\n            if i == 0:\n                self.appendleft(item)\n                return\n\n            if i == len(self):\n                self.append(item)\n                return\n\n        self.rotate(- i)\n        self.appendleft(item)\n        self.rotate(i)"
T('C16', 'twin-insort-fast-paths-unbounded', TY, _C16_INS, _C16_FAST)
T('C16', 'twin-insort-append-when-newest', TY, _C16_INS, "        if not self or self[-1] < item:\n            # strictly newer than everything held: it goes last\n            self.append(item)\n            return\n" + _C16_INS)
M('C16', 'insort-fast-append-on-tie', TY, _C16_INS, "        if self.maxlen is None and self and not item < self[-1]:\n            # already in order: the new item goes last\n            self.append(item)\n            return\n" + _C16_INS, 'C16.5')
T('C16', 'twin-insort-fast-paths-any-deque', TY, _C16_INS, _C16_FAST.replace("        if self.maxlen is None:\n", "        if True:\n"))
M('C16', 'insort-bisect-right', TY, _C16_INS, _C16_INS.replace('bisect_left', 'bisect_right'), 'C16.5')
M('C16', 'insort-fast-appendleft-off-by-one', TY, _C16_INS, _C16_FAST.replace("if i == 0:", "if i <= 1:"), 'C16.5')
M('C16', 'insort-rotation-sign', TY, _C16_INS, "        i = bisect.bisect_left(self, item)\n        self.rotate(i)\n        self.appendleft(item)\n        self.rotate(- i)", 'C16.5')
M('C16', 'insort-fast-append-skips-last-check', TY, _C16_INS, _C16_FAST.replace("if i == len(self):", "if i >= len(self) - 1:"), 'C16.5')
# predicates
T('C16', 'twin-s2k-bool-tuple', FL, "        return self.usage in [254, 255]", "        return self.usage in self._PROTECTED", more=[(FL, "    def __bool__(self):\n        return", "    _PROTECTED = (254, 255)\n\n    def __bool__(self):\n        return")])
T('C16', 'twin-s2k-bool-ge', FL, "        return self.usage in [254, 255]", "        return self.usage >= 254")
T('C16', 'twin-s2k-bool-or', FL, "        return self.usage in [254, 255]", "        return self.usage == 254 or self.usage == 255")
M('C16', 's2k-bool-only-254', FL, "        return self.usage in [254, 255]", "        return self.usage == 254", 'C16.2')
M('C16', 's2k-bool-nonzero', FL, "        return self.usage in [254, 255]", "        return self.usage != 0", 'C16.2')
T('C16', 'twin-protected-if', PK, "        return bool(self.keymaterial.s2k)", "        if self.keymaterial.s2k:\n            return True\n        return False")
M('C16', 'protected-inverted', PK, "        return bool(self.keymaterial.s2k)", "        return not self.keymaterial.s2k", 'C16.2')
T('C16', 'twin-unlocked-all', PK, "            return 0 not in list(self.keymaterial)", "            return all(i != 0 for i in self.keymaterial)")
M('C16', 'unlocked-always', PK, "            return 0 not in list(self.keymaterial)", "            return True", 'C16.2')
M('C16', 'unlocked-inverted', PK, "            return 0 not in list(self.keymaterial)", "            return 0 in list(self.keymaterial)", 'C16.2')
# delegation
_C16_DEL = "            sks = set(self.subkeys)\n            mis = set(message.encrypters)\n            if sks & mis:\n                skid = list(sks & mis)[0]\n                return self.subkeys[skid].decrypt(message)\n"
T('C16', 'twin-delegate-once', PGP, _C16_DEL, "            addressed = set(self.subkeys) & set(message.encrypters)\n            if addressed:\n                return self.subkeys[next(iter(addressed))].decrypt(message)\n")
T('C16', 'twin-delegate-loop', PGP, _C16_DEL, "            for skid in self.subkeys:\n                if skid in message.encrypters:\n                    return self.subkeys[skid].decrypt(message)\n")
T('C16', 'twin-delegate-items', PGP, _C16_DEL, "            for skid, subkey in self.subkeys.items():\n                if skid in message.encrypters:\n                    return subkey.decrypt(message)\n")
M('C16', 'delegate-first-subkey', PGP, _C16_DEL, "            sks = list(self.subkeys)\n            if sks:\n                return self.subkeys[sks[0]].decrypt(message)\n", 'C16.6')
M('C16', 'delegate-unaddressed', PGP, _C16_DEL, "            for skid in self.subkeys:\n                if skid not in message.encrypters:\n                    return self.subkeys[skid].decrypt(message)\n", 'C16.6')
T('C16', 'twin-encrypters-setcomp', PGP, "        return set(m.encrypter for m in self._sessionkeys if isinstance(m, PKESessionKey))", "        return {pk.encrypter for pk in self._sessionkeys if isinstance(pk, PKESessionKey)}")
T('C16', 'twin-self-signatures-plain-loop', PGP, _C16_FIL, "        for sig in self._signatures:\n            if sig.type == keytype and sig.signer == keyid and not sig.is_expired:\n                yield sig" + _C16_TAIL)
T('C16', 'twin-self-signatures-loop-continue', PGP, _C16_FIL, "        for sig in self._signatures:\n            if sig.type != keytype or sig.is_expired:\n                continue\n            if sig.signer == keyid:\n                yield sig" + _C16_TAIL)
M('C16', 'self-signatures-loop-expired-kept', PGP, _C16_FIL, "        for sig in self._signatures:\n            if sig.type == keytype and sig.signer == keyid:\n                yield sig" + _C16_TAIL, 'C16.5')
M('C16', 'self-signatures-loop-or', PGP, _C16_FIL, "        for sig in self._signatures:\n            if sig.type == keytype and (sig.signer == keyid or not sig.is_expired):\n                yield sig" + _C16_TAIL, 'C16.5')
T('C16', 'twin-usage-frozen-required', DE, "                if self.flags & set(_key._get_key_flags(user)):", "                if frozenset(self.flags) & frozenset(_key._get_key_flags(user)):")
T('C16', 'twin-key-flags-first-uid-index', PGP, "                user = next(iter(self.userids))", "                user = self.userids[0]")
_patch_case('T', 'C16', 'heldout-a-t01', 'G6-a-t01.diff')
_patch_case('T', 'C16', 'heldout-a-t02', 'G6-a-t02.diff')
_patch_case('T', 'C16', 'heldout-a-t03', 'G6-a-t03.diff')
_patch_case('T', 'C16', 'heldout-a-t04', 'G6-a-t04.diff')
_patch_case('T', 'C16', 'heldout-a-t05', 'G6-a-t05.diff')
_patch_case('T', 'C16', 'heldout-a-t06', 'G6-a-t06.diff')
_patch_case('T', 'C16', 'heldout-a-t07', 'G6-a-t07.diff')
_patch_case('T', 'C16', 'heldout-a-t09', 'G6-a-t09.diff')
_patch_case('T', 'C16', 'heldout-a-t10', 'G6-a-t10.diff')
_patch_case('T', 'C16', 'heldout-a-t11', 'G6-a-t11.diff')
_patch_case('T', 'C16', 'heldout-a-t12', 'G6-a-t12.diff')
_patch_case('T', 'C16', 'heldout-a-t13', 'G6-a-t13.diff')
_patch_case('T', 'C16', 'heldout-a-t14', 'G6-a-t14.diff')
_patch_case('M', 'C16', 'heldout-m01', 'G6-m01.diff', 'C16.5')
_patch_case('M', 'C16', 'heldout-m02', 'G6-m02.diff', 'C16.5')
_patch_case('M', 'C16', 'heldout-m03', 'G6-m03.diff', 'C16.5')
_patch_case('M', 'C16', 'heldout-m04', 'G6-m04.diff', 'C16.3')
_patch_case('M', 'C16', 'heldout-m05', 'G6-m05.diff', 'C16.3')
_patch_case('M', 'C16', 'heldout-m06', 'G6-m06.diff', 'C16.2')
_patch_case('M', 'C16', 'heldout-m07', 'G6-m07.diff', 'C16.1')
_patch_case('M', 'C16', 'heldout-m08', 'G6-m08.diff', 'C16.2')
_patch_case('M', 'C16', 'heldout-m09', 'G6-m09.diff', 'C16.2')
_patch_case('M', 'C16', 'heldout-m10', 'G6-m10.diff', 'C16.6')
_patch_case('T', 'C16', 'heldout-a-t08', 'G6-a-t08.diff')
_patch_case('T', 'C16', 'heldout-c-t02', 'G6-c-t02.diff')
_patch_case('T', 'C16', 'heldout-c-t04', 'G6-c-t04.diff')
_patch_case('T', 'C16', 'heldout-c-t08', 'G6-c-t08.diff')
_patch_case('T', 'C16', 'heldout-c-t09', 'G6-c-t09.diff')
_patch_case('T', 'C16', 'heldout-c-t11', 'G6-c-t11.diff')
# --- C16.6 session-key rules (own, semantic versions of the shared family functions)
_C16_SEL = "        pkesk = next(pk for pk in message._sessionkeys if isinstance(pk, PKESessionKey)\n                     and pk.pkalg == self.key_algorithm and pk.encrypter == self.fingerprint.keyid)"
M('C16', 'pkesk-any-of-algorithm-or-id', PGP, _C16_SEL, "        pkesk = next(pk for pk in message._sessionkeys if isinstance(pk, PKESessionKey)\n                     and (pk.pkalg == self.key_algorithm or pk.encrypter == self.fingerprint.keyid))", 'C16.6')
M('C16', 'pkesk-no-class-filter', PGP, _C16_SEL, "        pkesk = next(pk for pk in message._sessionkeys\n                     if pk.pkalg == self.key_algorithm and pk.encrypter == self.fingerprint.keyid)", 'C16.6')
M('C16', 'pkesk-other-recipient', PGP, _C16_SEL, "        pkesk = next(pk for pk in message._sessionkeys if isinstance(pk, PKESessionKey)\n                     and pk.pkalg == self.key_algorithm and pk.encrypter != self.fingerprint.keyid)", 'C16.6')
T('C16', 'twin-pkesk-own-id-local', PGP, _C16_SEL, "        own_id = self.fingerprint.keyid\n        mine = (pk for pk in message._sessionkeys\n                if isinstance(pk, PKESessionKey) and own_id == pk.encrypter and self.key_algorithm == pk.pkalg)\n        pkesk = next(mine)")
T('C16', 'twin-pkesk-all-filter', PGP, _C16_SEL, "        pkesk = next(pk for pk in message._sessionkeys if isinstance(pk, PKESessionKey)\n                     if all([pk.pkalg == self.key_algorithm, pk.encrypter == self.fingerprint.keyid]))")
M('C16', 'encrypters-loop-unguarded', PGP, "        return set(m.encrypter for m in self._sessionkeys if isinstance(m, PKESessionKey))", "        keyids = set()\n        for m in self._sessionkeys:\n            keyids.add(m.encrypter)\n        return keyids", 'C16.6')
T('C16', 'twin-encrypters-loop-guarded', PGP, "        return set(m.encrypter for m in self._sessionkeys if isinstance(m, PKESessionKey))", "        keyids = set()\n        for m in self._sessionkeys:\n            if not isinstance(m, PKESessionKey):\n                continue\n            keyids.add(m.encrypter)\n        return keyids")
T('C16', 'twin-decrypt-addressed-first', PGP, "        if self.fingerprint.keyid not in message.encrypters:\n            sks = set(self.subkeys)\n            mis = set(message.encrypters)\n            if sks & mis:\n                skid = list(sks & mis)[0]\n                return self.subkeys[skid].decrypt(message)\n\n            raise PGPError(\"Cannot decrypt the provided message with this key\")\n\n" + _C16_SEL + "\n        alg, key = pkesk.decrypt_sk(self._key)\n\n        # now that we have the symmetric cipher used and the key, we can decrypt the actual message\n        decmsg = PGPMessage()\n        decmsg.parse(message.message.decrypt(key, alg))\n\n        return decmsg",
  "        keyid = self.fingerprint.keyid\n        if keyid in message.encrypters:\n            pkesk = next(pk for pk in message._sessionkeys if isinstance(pk, PKESessionKey)\n                         and pk.pkalg == self.key_algorithm and pk.encrypter == keyid)\n            alg, key = pkesk.decrypt_sk(self._key)\n            decmsg = PGPMessage()\n            decmsg.parse(message.message.decrypt(key, alg))\n            return decmsg\n\n        addressed = set(self.subkeys) & set(message.encrypters)\n        if addressed:\n            return self.subkeys[list(addressed)[0]].decrypt(message)\n\n        raise PGPError(\"Cannot decrypt the provided message with this key\")")
M('C16', 'call-refusals-only-for-flagged-actions', DE, "            if len(key._uids) == 0 and key.is_primary and action is not key.certify.__wrapped__:", "            if self.flags and len(key._uids) == 0 and key.is_primary and action is not key.certify.__wrapped__:", 'C16.2')
M('C16', 'call-no-key-check-after-usage', DE, "            if key._key is None:\n                raise PGPError(\"No key!\")\n", "", 'C16.2', more=[(DE, "                self.check_attributes(key)\n\n", "                self.check_attributes(key)\n                if _key._key is None:\n                    raise PGPError(\"No key!\")\n\n")])
M('C16', 'usage-scan-stops-at-first-subkey', DE, "                if self.flags & set(_key._get_key_flags(user)):\n                    break\n", "                if self.flags & set(_key._get_key_flags(user)) or _key is not key:\n                    break\n", 'C16.3')
M('C16', 'usage-refusal-only-for-primary', DE, "                if key._require_usage_flags:\n                    raise PGPError(warning)", "                if key._require_usage_flags and key.is_primary:\n                    raise PGPError(warning)", 'C16.3')
M('C16', 'call-unguarded-fast-path', DE, "    def __call__(self, action):\n", "    def __call__(self, action):\n        if not self.flags and not self.conditions:\n            return action\n\n", 'C16.2')
# --- wave 3: identity selection by exact match (get_uid evaluated on concrete strings), remembered flags, inner elements
_W3_GU = "            return next((u for u in self._uids if search in filter(lambda a: a is not None, (u.name, u.comment, u.email))), None)"
M('C16', 'getuid-substring', PGP, _W3_GU, "            return next((u for u in self._uids\n                         if any(search in a for a in (u.name, u.comment, u.email) if a is not None)), None)", 'C16.5')
M('C16', 'getuid-case-insensitive', PGP, _W3_GU, "            return next((u for u in self._uids if search.lower() in [a.lower() for a in (u.name, u.comment, u.email) if a is not None]), None)", 'C16.5')
M('C16', 'getuid-prefix', PGP, _W3_GU, "            return next((u for u in self._uids if any(a.startswith(search) for a in (u.name, u.comment, u.email) if a)), None)", 'C16.5')
M('C16', 'getuid-stripped', PGP, _W3_GU, "            return next((u for u in self._uids if search.strip() in filter(lambda a: a is not None, (u.name, u.comment, u.email))), None)", 'C16.5')
M('C16', 'getuid-falls-back-to-first', PGP, _W3_GU, "            return next((u for u in self._uids if search in filter(lambda a: a is not None, (u.name, u.comment, u.email))),\n                        next(iter(self._uids), None))", 'C16.5')
M('C16', 'getuid-name-only-substring-of-joined', PGP, _W3_GU, "            return next((u for u in self._uids if search in ' '.join(a for a in (u.name, u.comment, u.email) if a)), None)", 'C16.5')
T('C16', 'twin-getuid-loop', PGP, _W3_GU, "            for uid in self._uids:\n                fields = [a for a in (uid.name, uid.comment, uid.email) if a is not None]\n                if search in fields:\n                    return uid\n            return None")
T('C16', 'twin-getuid-equality', PGP, _W3_GU, "            return next((u for u in self._uids if any(a == search for a in (u.name, u.comment, u.email) if a is not None)), None)")
_W3_SUBK = "        return next(reversed(list(self.self_signatures))).key_flags"
M('C16', 'subkey-flags-cached-on-object', PGP, _W3_SUBK, "        if getattr(self, '_flags_cache', None) is None:\n            self._flags_cache = next(reversed(list(self.self_signatures))).key_flags\n        return self._flags_cache", 'C16.5')
M('C16', 'subkey-flags-second-newest', PGP, _W3_SUBK, "        return list(self.self_signatures)[-2:][0].key_flags", 'C16.5')
M('C16', 'unlocked-public-short-circuit-lost', PGP, "        if not self.is_protected:\n            return True\n\n        return self._key.unlocked", "        return True", 'C16.2')
T('C16', 'twin-delegate-loop-skip', PGP, _C16_DEL, "            for skid in self.subkeys:\n                if skid not in message.encrypters:\n                    continue\n                return self.subkeys[skid].decrypt(message)\n")

# =============================================================================================== C18 (additions)
M('C18', 'pubkey-kdf-recomputed', PK, "            pk.keymaterial.kdf = copy.copy(self.keymaterial.kdf)", "            pk.keymaterial.kdf.halg = self.keymaterial.oid.kdf_halg\n            pk.keymaterial.kdf.encalg = self.keymaterial.oid.kek_alg", 'C18.6')
M('C18', 'issuer-fpr-from-parent', PGP, "_version=4, _issuer_fpr=self.fingerprint)", "_version=4, _issuer_fpr=(self.parent or self).fingerprint)", 'C18.7')
M('C18', 'pubkey-created-now', PK, "        pk.created = self.created\n        pk.pkalg = self.pkalg\n\n        # copy over MPIs", "        pk.pkalg = self.pkalg\n\n        # copy over MPIs", 'C18.6')

# =============================================================================================== C06
M('C06', 'no-finally', PGP, "        try:\n            for sk in itertools.chain([self], self.subkeys.values()):\n                sk._key.unprotect(passphrase)\n            del passphrase\n            yield self\n\n        finally:\n            # clean up here by deleting the previously decrypted secret key material\n            for sk in itertools.chain([self], self.subkeys.values()):\n                sk._key.keymaterial.clear()",
  "        for sk in itertools.chain([self], self.subkeys.values()):\n            sk._key.unprotect(passphrase)\n        del passphrase\n        yield self\n        for sk in itertools.chain([self], self.subkeys.values()):\n            sk._key.keymaterial.clear()", 'C06.1')
M('C06', 'clear-primary-only', PGP, "            # clean up here by deleting the previously decrypted secret key material\n            for sk in itertools.chain([self], self.subkeys.values()):\n                sk._key.keymaterial.clear()", "            # clean up here by deleting the previously decrypted secret key material\n            for sk in [self]:\n                sk._key.keymaterial.clear()", 'C06.1')
M('C06', 'yield-outside-try', PGP, "            del passphrase\n            yield self\n\n        finally:", "            del passphrase\n\n        finally:", 'C06.1',
  more=[(PGP, "                sk._key.keymaterial.clear()\n\n    def add_uid", "                sk._key.keymaterial.clear()\n        yield self\n\n    def add_uid")])
M('C06', 'clear-skips-u', FL, "        for field in self.__privfields__:\n            delattr(self, field)\n            setattr(self, field, MPI(0))", "        for field in self.__privfields__[:-1]:\n            delattr(self, field)\n            setattr(self, field, MPI(0))", 'C06.2')
M('C06', 'drop-sha1-guard', FL, "        if self.s2k.usage == 254 and not pt[-20:] == hashlib.new('sha1', pt[:-20]).digest():\n            # if the usage byte is 254, key material is followed by a 20-octet sha-1 hash of the rest\n            # of the key material block\n            raise PGPDecryptionError(\"Passphrase was incorrect!\")\n", "", 'C06.4')
M('C06', 'store-before-check', FL, "        kb = super(RSAPriv, self).decrypt_keyblob(passphrase)\n        del passphrase\n\n        self.d = MPI(kb)", "        self.d = MPI(bytearray(self.encbytes))\n        kb = super(RSAPriv, self).decrypt_keyblob(passphrase)\n        del passphrase\n\n        self.d = MPI(kb)", 'C06.4')
M('C06', 'emit-private-when-protected', FL, "        if self.s2k:\n            _bytes += self.encbytes\n\n        else:\n            for field in self.__privfields__:\n                _bytes += getattr(self, field).to_mpibytes()", "        if self.s2k:\n            _bytes += self.encbytes\n\n        for field in self.__privfields__:\n            _bytes += getattr(self, field).to_mpibytes()", 'C06.5')
M('C06', 'keyblob-no-clear', FL, "        # delete pt and clear self\n        del pt\n        self.clear()", "        # delete pt\n        del pt", 'C06.3')
M('C06', 'keyblob-usage-255', FL, "        self.s2k.usage = 254\n        self.s2k.encalg = enc_alg", "        self.s2k.usage = 255\n        self.s2k.encalg = enc_alg", 'C06.3')
M('C06', 'keyblob-hash-not-appended', FL, "        pt += hashlib.new('sha1', pt).digest()\n", "", 'C06.3')
M('C06', 'sign-no-unlocked', PGP, "    @KeyAction(KeyFlags.Sign, is_unlocked=True, is_public=False)", "    @KeyAction(KeyFlags.Sign, is_public=False)", 'C06.6')
M('C06', 'dsa-alias-consume', FL, "        if not self.s2k:\n            self.x = MPI(packet)\n\n            if self.s2k.usage == 0:\n                self.chksum = packet[:2]\n                del packet[:2]\n\n        else:\n            self.encbytes = packet\n\n    def decrypt_keyblob(self, passphrase):\n        kb = super(DSAPriv, self).decrypt_keyblob(passphrase)",
  "        if not self.s2k:\n            self.x = MPI(packet)\n\n        else:\n            self.encbytes = packet\n\n        if self.s2k.usage in [0, 255]:\n            self.chksum = packet[:2]\n            del packet[:2]\n\n    def decrypt_keyblob(self, passphrase):\n        kb = super(DSAPriv, self).decrypt_keyblob(passphrase)", 'C06.7')
M('C06', 'ecdsa-privkey-cached', FL, "    def __privkey__(self):\n        ecp = ec.EllipticCurvePublicNumbers(self.p.x, self.p.y, self.oid.curve())\n        return ec.EllipticCurvePrivateNumbers(self.s, ecp).private_key(default_backend())",
  "    def __privkey__(self):\n        if getattr(self, '_pk', None) is None:\n            ecp = ec.EllipticCurvePublicNumbers(self.p.x, self.p.y, self.oid.curve())\n            self._pk = ec.EllipticCurvePrivateNumbers(self.s, ecp).private_key(default_backend())\n        return self._pk", 'C06.2')
M('C06', 'unprotect-outside-try', PGP, "        try:\n            for sk in itertools.chain([self], self.subkeys.values()):\n                sk._key.unprotect(passphrase)\n            del passphrase\n            yield self",
  "        for sk in itertools.chain([self], self.subkeys.values()):\n            sk._key.unprotect(passphrase)\n        try:\n            del passphrase\n            yield self", 'C06.1')
T('C06', 'twin-clear-helper-var', PGP, "            for sk in itertools.chain([self], self.subkeys.values()):\n                sk._key.keymaterial.clear()", "            for k in itertools.chain([self], self.subkeys.values()):\n                k._key.keymaterial.clear()")
T('C06', 'twin-keyblob-pt-join', FL, "        pt += hashlib.new('sha1', pt).digest()\n", "        digest = hashlib.new('sha1', pt).digest()\n        pt += digest\n")
# --- hardening G5: C06 rules on interpreter values / def-use instead of source text
_UNL_TRY = "        try:\n            for sk in itertools.chain([self], self.subkeys.values()):\n                sk._key.unprotect(passphrase)\n            del passphrase\n            yield self\n\n        finally:\n            # clean up here by deleting the previously decrypted secret key material\n            for sk in itertools.chain([self], self.subkeys.values()):\n                sk._key.keymaterial.clear()"
T('C06', 'twin-unlock-keys-list', PGP, _UNL_TRY, "        keys = [self] + list(self.subkeys.values())\n        try:\n            for sk in keys:\n                sk._key.unprotect(passphrase)\n            del passphrase\n            yield self\n\n        finally:\n            for sk in keys:\n                sk._key.keymaterial.clear()")
T('C06', 'twin-unlock-split-primary', PGP, _UNL_TRY, "        try:\n            self._key.unprotect(passphrase)\n            for sk in self.subkeys.values():\n                sk._key.unprotect(passphrase)\n            del passphrase\n            yield self\n\n        finally:\n            self._key.keymaterial.clear()\n            for sub in self._children.values():\n                sub._key.keymaterial.clear()")
T('C06', 'twin-unlock-clear-temp-kw', PGP, _UNL_TRY, "        try:\n            for sk in (self, *self.subkeys.values()):\n                pkt = sk._key\n                pkt.unprotect(passphrase=passphrase)\n            del passphrase\n            yield self\n\n        finally:\n            for sk in (self, *self.subkeys.values()):\n                km = sk._key.keymaterial\n                km.clear()")
T('C06', 'twin-unlock-nested-try', PGP, _UNL_TRY, "        try:\n            for sk in itertools.chain([self], self.subkeys.values()):\n                sk._key.unprotect(passphrase)\n            del passphrase\n            try:\n                yield self\n            finally:\n                pass\n\n        finally:\n            for sk in list(itertools.chain([self], self.subkeys.values())):\n                sk._key.keymaterial.clear()")
T('C06', 'twin-unlock-helpers', PGP, _UNL_TRY, "        try:\n            self._unprotect_all(passphrase)\n            del passphrase\n            yield self\n\n        finally:\n            self._relock()",
  more=[(PGP, "    @contextlib.contextmanager\n    def unlock(self, passphrase):\n", "    def _unprotect_all(self, passphrase):\n        for sk in itertools.chain([self], self.subkeys.values()):\n            sk._key.unprotect(passphrase)\n\n    def _relock(self):\n        for sk in itertools.chain([self], self.subkeys.values()):\n            sk._key.keymaterial.clear()\n\n    @contextlib.contextmanager\n    def unlock(self, passphrase):\n")])
M('C06', 'unlock-helper-relocks-subkeys-only', PGP, _UNL_TRY, "        try:\n            for sk in itertools.chain([self], self.subkeys.values()):\n                sk._key.unprotect(passphrase)\n            del passphrase\n            yield self\n\n        finally:\n            self._relock()", 'C06.1',
  more=[(PGP, "    @contextlib.contextmanager\n    def unlock(self, passphrase):\n", "    def _relock(self):\n        for sk in self.subkeys.values():\n            sk._key.keymaterial.clear()\n\n    @contextlib.contextmanager\n    def unlock(self, passphrase):\n")])
M('C06', 'unlock-chain-reused', PGP, _UNL_TRY, "        keys = itertools.chain([self], self.subkeys.values())\n        try:\n            for sk in keys:\n                sk._key.unprotect(passphrase)\n            del passphrase\n            yield self\n\n        finally:\n            for sk in keys:\n                sk._key.keymaterial.clear()", 'C06.1')
M('C06', 'unlock-subkeys-cleared-on-success-only', PGP, _UNL_TRY, "        try:\n            for sk in itertools.chain([self], self.subkeys.values()):\n                sk._key.unprotect(passphrase)\n            del passphrase\n            yield self\n            for sk in self.subkeys.values():\n                sk._key.keymaterial.clear()\n\n        finally:\n            self._key.keymaterial.clear()", 'C06.1')
M('C06', 'unlock-clear-subkeys-only', PGP, "            for sk in itertools.chain([self], self.subkeys.values()):\n                sk._key.keymaterial.clear()", "            for sk in self.subkeys.values():\n                sk._key.keymaterial.clear()", 'C06.1')
M('C06', 'unlock-except-pgperror-only', PGP, _UNL_TRY, "        try:\n            for sk in itertools.chain([self], self.subkeys.values()):\n                sk._key.unprotect(passphrase)\n            del passphrase\n            yield self\n\n        except PGPError:\n            for sk in itertools.chain([self], self.subkeys.values()):\n                sk._key.keymaterial.clear()\n            raise\n\n        for sk in itertools.chain([self], self.subkeys.values()):\n            sk._key.keymaterial.clear()", 'C06.1')
M('C06', 'unlock-unprotect-not-delegating', PK, "    def unprotect(self, passphrase):\n        self.keymaterial.decrypt_keyblob(passphrase)\n", "    def unprotect(self, passphrase):\n        if self.keymaterial.s2k.usage == 255:\n            self.keymaterial.decrypt_keyblob(passphrase)\n", 'C06.1')
_CLEAR = "        for field in self.__privfields__:\n            delattr(self, field)\n            setattr(self, field, MPI(0))\n\n\nclass OpaquePrivKey"
T('C06', 'twin-clear-no-delattr', FL, _CLEAR, "        zero = MPI(0)\n        for name in self.__privfields__:\n            setattr(self, name, zero)\n\n\nclass OpaquePrivKey")
T('C06', 'twin-clear-comprehension', FL, _CLEAR, "        [setattr(self, f, MPI(0)) for f in self.__privfields__]\n\n\nclass OpaquePrivKey")
M('C06', 'clear-only-when-protected', FL, _CLEAR, "        if not self.s2k:\n            return\n        for field in self.__privfields__:\n            delattr(self, field)\n            setattr(self, field, MPI(0))\n\n\nclass OpaquePrivKey", 'C06.2')
M('C06', 'clear-pubfields', FL, _CLEAR, "        for field in self.__pubfields__:\n            delattr(self, field)\n            setattr(self, field, MPI(0))\n\n\nclass OpaquePrivKey", 'C06.2')
M('C06', 'blob-kept-renamed-local', FL, "        kb = super(DSAPriv, self).decrypt_keyblob(passphrase)\n        del passphrase\n\n        self.x = MPI(kb)\n",
  "        blob = super(DSAPriv, self).decrypt_keyblob(passphrase)\n        del passphrase\n        kb = blob\n        self._plain = bytes(blob)\n\n        self.x = MPI(kb)\n", 'C06.2')
M('C06', 'secret-int-kept-via-temp', FL, "    def _compute_chksum(self):\n        chs = sum(bytearray(self.x.to_mpibytes())) % 65536\n        self.chksum = bytearray(self.int_to_bytes(chs, 2))\n\n    def _generate(self, key_size):\n        if any(c != 0 for c in self):  # pragma: no cover\n            raise PGPError(\"key is already populated\")\n",
  "    def _compute_chksum(self):\n        raw = self.x.to_mpibytes()\n        self._mpicache = raw\n        chs = sum(bytearray(raw)) % 65536\n        self.chksum = bytearray(self.int_to_bytes(chs, 2))\n\n    def _generate(self, key_size):\n        if any(c != 0 for c in self):  # pragma: no cover\n            raise PGPError(\"key is already populated\")\n", 'C06.2')
M('C06', 'privkey-cached-in-dict', FL, "        s = self.int_to_bytes(self.s, (self.oid.key_size + 7) // 8)\n        return ed25519.Ed25519PrivateKey.from_private_bytes(s)",
  "        if '_pk' not in self.__dict__:\n            s = self.int_to_bytes(self.s, (self.oid.key_size + 7) // 8)\n            self.__dict__['_pk'] = ed25519.Ed25519PrivateKey.from_private_bytes(s)\n        return self.__dict__['_pk']", 'C06.2')
_KB_PT = "        pt = bytearray()\n        for pf in self.__privfields__:\n            pt += getattr(self, pf).to_mpibytes()\n\n        # append a SHA-1 hash of the plaintext so far to the plaintext\n        pt += hashlib.new('sha1', pt).digest()\n\n        # encrypt\n        self.encbytes = bytearray(_encrypt(bytes(pt), bytes(sessionkey), enc_alg, bytes(self.s2k.iv)))\n\n        # delete pt and clear self\n        del pt\n        self.clear()"
T('C06', 'twin-keyblob-join-temps', FL, _KB_PT, "        secret = bytearray().join([getattr(self, name).to_mpibytes() for name in self.__privfields__])\n        trailer = hashlib.new('sha1', secret).digest()\n        plaintext = secret + trailer\n        ciphertext = _encrypt(bytes(plaintext), key=bytes(sessionkey), alg=enc_alg, iv=bytes(self.s2k.iv))\n        self.encbytes = bytearray(ciphertext)\n        del secret, trailer, plaintext\n        self.clear()")
T('C06', 'twin-keyblob-sha1-update', FL, "        pt += hashlib.new('sha1', pt).digest()\n", "        sha = hashlib.new('sha1')\n        sha.update(pt)\n        pt += sha.digest()\n")
T('C06', 'twin-keyblob-iv-temp', FL, "        self.s2k.iv = enc_alg.gen_iv()\n", "        iv = enc_alg.gen_iv()\n        self.s2k.iv = iv\n",
  more=[(FL, "bytearray(_encrypt(bytes(pt), bytes(sessionkey), enc_alg, bytes(self.s2k.iv)))", "bytearray(_encrypt(bytes(pt), bytes(sessionkey), enc_alg, bytes(iv)))")])
T('C06', 'twin-keyblob-s2k-alias', FL, "        self.s2k.usage = 254\n        self.s2k.encalg = enc_alg\n        self.s2k.specifier = String2KeyType.Iterated\n        self.s2k.iv = enc_alg.gen_iv()\n        self.s2k.halg = hash_alg\n        self.s2k.salt = bytearray(os.urandom(8))\n        self.s2k.count = hash_alg.tuned_count\n",
  "        s2k = self.s2k\n        s2k.usage = 254\n        s2k.encalg = enc_alg\n        s2k.specifier = String2KeyType.Iterated\n        s2k.iv = enc_alg.gen_iv()\n        s2k.halg = hash_alg\n        s2k.salt = bytearray(os.urandom(8))\n        s2k.count = hash_alg.tuned_count\n",
  more=[(FL, "        sessionkey = self.s2k.derive_key(passphrase)\n        del passphrase\n\n        pt = bytearray()\n        for pf in self.__privfields__:\n            pt += getattr(self, pf).to_mpibytes()\n", "        sessionkey = s2k.derive_key(passphrase)\n        del passphrase\n\n        pt = bytearray(b''.join(getattr(self, pf).to_mpibytes() for pf in self.__privfields__))\n")])
T('C06', 'twin-decrypt-nested-checks', FL, "        if self.s2k.usage == 254 and not pt[-20:] == hashlib.new('sha1', pt[:-20]).digest():\n            # if the usage byte is 254, key material is followed by a 20-octet sha-1 hash of the rest\n            # of the key material block\n            raise PGPDecryptionError(\"Passphrase was incorrect!\")\n",
  "        if self.s2k.usage == 254:\n            body, trailer = pt[:-20], pt[-20:]\n            if trailer != hashlib.new('sha1', body).digest():\n                raise PGPDecryptionError(\"Passphrase was incorrect!\")\n")
T('C06', 'twin-keyset-helper', PGP, "        for sk in itertools.chain([self], self.subkeys.values()):\n            sk._key.protect(passphrase, enc_alg, hash_alg)\n\n        del passphrase\n",
  "        for sk in self._primary_and_subkeys():\n            sk._key.protect(passphrase, enc_alg, hash_alg)\n\n        del passphrase\n\n    def _primary_and_subkeys(self):\n        return itertools.chain([self], self.subkeys.values())\n",
  more=[(PGP, "            for sk in itertools.chain([self], self.subkeys.values()):\n                sk._key.unprotect(passphrase)\n", "            for sk in self._primary_and_subkeys():\n                sk._key.unprotect(passphrase)\n"),
        (PGP, "            for sk in itertools.chain([self], self.subkeys.values()):\n                sk._key.keymaterial.clear()", "            for sk in self._primary_and_subkeys():\n                sk._key.keymaterial.clear()")])
M('C06', 'keyblob-fresh-iv-not-stored', FL, "bytearray(_encrypt(bytes(pt), bytes(sessionkey), enc_alg, bytes(self.s2k.iv)))", "bytearray(_encrypt(bytes(pt), bytes(sessionkey), enc_alg, bytes(enc_alg.gen_iv())))", 'C06.3')
M('C06', 'keyblob-salt-after-derive', FL, "        self.s2k.salt = bytearray(os.urandom(8))\n        self.s2k.count = hash_alg.tuned_count\n", "        self.s2k.count = hash_alg.tuned_count\n", 'C06.3',
  more=[(FL, "        sessionkey = self.s2k.derive_key(passphrase)\n        del passphrase\n\n        pt = bytearray()", "        sessionkey = self.s2k.derive_key(passphrase)\n        self.s2k.salt = bytearray(os.urandom(8))\n        del passphrase\n\n        pt = bytearray()")])
M('C06', 'keyblob-sha1-of-first-field', FL, "            pt += getattr(self, pf).to_mpibytes()\n\n        # append a SHA-1 hash of the plaintext so far to the plaintext\n        pt += hashlib.new('sha1', pt).digest()\n",
  "            pt += getattr(self, pf).to_mpibytes()\n\n        pt += hashlib.new('sha1', getattr(self, self.__privfields__[0]).to_mpibytes()).digest()\n", 'C06.3')
_PKT_PROTECT = "        self.keymaterial.encrypt_keyblob(passphrase, enc_alg, hash_alg)\n        del passphrase\n        self.update_hlen()\n"
T('C06', 'twin-pkt-protect-kw', PK, _PKT_PROTECT, "        km = self.keymaterial\n        km.encrypt_keyblob(passphrase, hash_alg=hash_alg, enc_alg=enc_alg)\n        del passphrase\n        self.update_hlen()\n")
M('C06', 'pkt-protect-no-hlen', PK, _PKT_PROTECT, "        self.keymaterial.encrypt_keyblob(passphrase, enc_alg, hash_alg)\n        del passphrase\n", 'C06.3')
M('C06', 'pkt-protect-hlen-first', PK, _PKT_PROTECT, "        self.update_hlen()\n        self.keymaterial.encrypt_keyblob(passphrase, enc_alg, hash_alg)\n        del passphrase\n", 'C06.3')
M('C06', 'pkt-protect-algs-swapped', PK, _PKT_PROTECT, "        self.keymaterial.encrypt_keyblob(passphrase, hash_alg, enc_alg)\n        del passphrase\n        self.update_hlen()\n", 'C06.3')
_KEY_PROTECT = "        for sk in itertools.chain([self], self.subkeys.values()):\n            sk._key.protect(passphrase, enc_alg, hash_alg)\n"
T('C06', 'twin-key-protect-list', PGP, _KEY_PROTECT, "        self._key.protect(passphrase, enc_alg, hash_alg)\n        for sub in list(self.subkeys.values()):\n            sub._key.protect(passphrase, enc_alg=enc_alg, hash_alg=hash_alg)\n")
M('C06', 'key-protect-primary-only', PGP, _KEY_PROTECT, "        self._key.protect(passphrase, enc_alg, hash_alg)\n", 'C06.3')
M('C06', 'key-protect-subkeys-only', PGP, _KEY_PROTECT, "        for sk in self.subkeys.values():\n            sk._key.protect(passphrase, enc_alg, hash_alg)\n", 'C06.3')
T('C06', 'twin-decrypt-chk-mask', FL, "(sum(bytearray(pt[:-2])) % 65536):  # pragma: no cover", "(sum(bytearray(pt[:-2])) & 0xFFFF):  # pragma: no cover")
T('C06', 'twin-decrypt-s2k-bool', FL, "        if not self.s2k:  # pragma: no cover\n            # not encrypted\n            return\n", "        if bool(self.s2k) is False:  # pragma: no cover\n            return\n".replace('bool(self.s2k) is False', 'not bool(self.s2k)'))
T('C06', 'twin-subclass-super-kw', FL, "        kb = super(DSAPriv, self).decrypt_keyblob(passphrase)\n        del passphrase\n\n        self.x = MPI(kb)\n", "        blob = super().decrypt_keyblob(passphrase=passphrase)\n        del passphrase\n\n        x = MPI(blob)\n        self.x = x\n        kb = blob\n")
M('C06', 'sha1-guard-warns', FL, "        if self.s2k.usage == 254 and not pt[-20:] == hashlib.new('sha1', pt[:-20]).digest():\n            # if the usage byte is 254, key material is followed by a 20-octet sha-1 hash of the rest\n            # of the key material block\n            raise PGPDecryptionError(\"Passphrase was incorrect!\")\n",
  "        if self.s2k.usage == 254 and not pt[-20:] == hashlib.new('sha1', pt[:-20]).digest():\n            warnings.warn(\"Passphrase was incorrect!\")\n", 'C06.4')
M('C06', 'sha1-guard-19', FL, "not pt[-20:] == hashlib.new('sha1', pt[:-20]).digest():", "not pt[-19:] == hashlib.new('sha1', pt[:-20]).digest()[1:]:", 'C06.4')
M('C06', 'subclass-store-from-ciphertext', FL, "        kb = super(ElGPriv, self).decrypt_keyblob(passphrase)\n        del passphrase\n\n        self.x = MPI(kb)\n", "        kb = super(ElGPriv, self).decrypt_keyblob(passphrase)\n        del passphrase\n\n        self.x = MPI(bytearray(self.encbytes))\n", 'C06.4')
T('C06', 'twin-export-swapped-arms', FL, "        if self.s2k:\n            _bytes += self.encbytes\n\n        else:\n            for field in self.__privfields__:\n                _bytes += getattr(self, field).to_mpibytes()",
  "        if not self.s2k:\n            _bytes += b''.join(getattr(self, field).to_mpibytes() for field in self.__privfields__)\n\n        else:\n            _bytes += self.encbytes")
M('C06', 'export-private-on-usage', FL, "        if self.s2k:\n            _bytes += self.encbytes\n\n        else:\n            for field in self.__privfields__:\n                _bytes += getattr(self, field).to_mpibytes()",
  "        if self.s2k and self.encbytes:\n            _bytes += self.encbytes\n\n        else:\n            for field in self.__privfields__:\n                _bytes += getattr(self, field).to_mpibytes()", 'C06.5')
# --- follow-up (held-out wave 3): decrypted-buffer reader sequence (C06.4), exits of any exception class (C06.1)
_RSA_RD = "        self.d = MPI(kb)\n        self.p = MPI(kb)\n        self.q = MPI(kb)\n        self.u = MPI(kb)\n"
M('C06', 'rsa-u-recomputed-after-read', FL, _RSA_RD, _RSA_RD + "        self.u = MPI(rsa.rsa_crt_iqmp(self.p, self.q))\n", 'C06.4')
M('C06', 'rsa-u-recomputed-not-read', FL, _RSA_RD, "        self.d = MPI(kb)\n        self.p = MPI(kb)\n        self.q = MPI(kb)\n        self.u = MPI(rsa.rsa_crt_iqmp(self.q, self.p))\n", 'C06.4')
M('C06', 'rsa-p-q-read-swapped', FL, _RSA_RD, "        self.d = MPI(kb)\n        self.q = MPI(kb)\n        self.p = MPI(kb)\n        self.u = MPI(kb)\n", 'C06.4')
M('C06', 'rsa-u-left-unread', FL, _RSA_RD, "        self.d = MPI(kb)\n        self.p = MPI(kb)\n        self.q = MPI(kb)\n", 'C06.4')
M('C06', 'elg-first-mpi-discarded', FL, "        kb = super(ElGPriv, self).decrypt_keyblob(passphrase)\n        del passphrase\n\n        self.x = MPI(kb)\n",
  "        kb = super(ElGPriv, self).decrypt_keyblob(passphrase)\n        del passphrase\n\n        MPI(kb)\n        self.x = MPI(kb)\n", 'C06.4')
M('C06', 'dsa-x-reduced-mod-q', FL, "        kb = super(DSAPriv, self).decrypt_keyblob(passphrase)\n        del passphrase\n\n        self.x = MPI(kb)\n",
  "        kb = super(DSAPriv, self).decrypt_keyblob(passphrase)\n        del passphrase\n\n        self.x = MPI(MPI(kb) % self.q)\n", 'C06.4')
M('C06', 'eddsa-s-raw-int', FL, "        kb = super(EdDSAPriv, self).decrypt_keyblob(passphrase)\n        del passphrase\n        self.s = MPI(kb)\n",
  "        kb = super(EdDSAPriv, self).decrypt_keyblob(passphrase)\n        del passphrase\n        self.s = MPI(self.bytes_to_int(kb[2:]))\n", 'C06.4')
T('C06', 'twin-rsa-read-loop', FL, _RSA_RD, "        for name in ('d', 'p', 'q', 'u'):\n            setattr(self, name, MPI(kb))\n")
T('C06', 'twin-rsa-read-temps', FL, _RSA_RD, "        blob = kb\n        d = MPI(blob)\n        p = MPI(blob)\n        q = MPI(blob)\n        u = MPI(blob)\n        self.d, self.p = d, p\n        self.q = q\n        self.u = u\n")
_UNL_CLR = "            for sk in itertools.chain([self], self.subkeys.values()):\n                sk._key.keymaterial.clear()"
_UNL_BODY = "        try:\n            for sk in itertools.chain([self], self.subkeys.values()):\n                sk._key.unprotect(passphrase)\n            del passphrase\n            yield self\n\n"
M('C06', 'unlock-cleanup-under-except-exception', PGP, _UNL_TRY, _UNL_BODY + "        except Exception:\n" + _UNL_CLR + "\n            raise\n\n        else:\n" + _UNL_CLR, 'C06.1')
M('C06', 'unlock-closure-under-except-exception', PGP, _UNL_TRY, "        def _relock():\n" + _UNL_CLR + "\n\n" + _UNL_BODY + "        except Exception:\n            _relock()\n            raise\n\n        else:\n            _relock()", 'C06.1')
M('C06', 'unlock-subkeys-skipped-on-base-exception', PGP, _UNL_TRY, _UNL_BODY + "        except Exception:\n" + _UNL_CLR + "\n            raise\n\n        else:\n" + _UNL_CLR + "\n\n        finally:\n            self._key.keymaterial.clear()", 'C06.1')
M('C06', 'unlock-relock-skips-subkeys-on-error', PGP, _UNL_TRY, _UNL_BODY + "        finally:\n            self._key.keymaterial.clear()\n            if sys.exc_info()[0] is None:\n                for sk in self.subkeys.values():\n                    sk._key.keymaterial.clear()", 'C06.1',
  more=[(PGP, "import re\nimport warnings\n", "import re\nimport sys\nimport warnings\n")])
M('C06', 'unlock-cleanup-in-else-only', PGP, _UNL_TRY, _UNL_BODY + "        except PGPDecryptionError:\n            raise\n\n        else:\n" + _UNL_CLR, 'C06.1')
M('C06', 'unlock-except-exception-and-generatorexit', PGP, _UNL_TRY, _UNL_BODY + "        except (Exception, GeneratorExit):\n" + _UNL_CLR + "\n            raise\n\n        else:\n" + _UNL_CLR, 'C06.1')
T('C06', 'twin-unlock-except-baseexception', PGP, _UNL_TRY, _UNL_BODY + "        except BaseException:\n" + _UNL_CLR + "\n            raise\n\n        else:\n" + _UNL_CLR)
T('C06', 'twin-unlock-bare-except-closure', PGP, _UNL_TRY, "        def _relock():\n" + _UNL_CLR + "\n\n" + _UNL_BODY + "        except:  # noqa: E722\n            _relock()\n            raise\n\n        else:\n            _relock()")
# --- wave 5: the coded count rule under a C06 id (protect() stores a coded count), extra derive_key argument at the call site
M('C06', 'count-clamped-2-25', FL, "        return (16 + (self._count & 15)) << ((self._count >> 4) + 6)", "        return min((16 + (self._count & 15)) << ((self._count >> 4) + 6), 1 << 25)", 'C06.9')
M('C06', 'count-or-default', FL, "        return (16 + (self._count & 15)) << ((self._count >> 4) + 6)", "        c = self._count or 96\n        return (16 + (c & 15)) << ((c >> 4) + 6)", 'C06.9')
M('C06', 'count-setter-254', FL, "        if val < 0 or val > 255:  # pragma: no cover", "        if val < 0 or val >= 255:  # pragma: no cover", 'C06.9')
T('C06', 'twin-keyblob-derive-keylen-kw', FL, "    def derive_key(self, passphrase):\n        ##TODO: raise an exception if self.usage is not 254 or 255\n        keylen = self.encalg.key_size\n",
  "    def derive_key(self, passphrase, *, keylen=None):\n        ##TODO: raise an exception if self.usage is not 254 or 255\n        if keylen is None:\n            keylen = self.encalg.key_size\n",
  more=[(FL, "        sessionkey = self.s2k.derive_key(passphrase)\n        del passphrase\n\n        pt = bytearray()", "        sessionkey = self.s2k.derive_key(passphrase, keylen=self.s2k.encalg.key_size)\n        del passphrase\n\n        pt = bytearray()")])
M('C06', 'keyblob-derive-keylen-of-caller-arg', FL, "    def derive_key(self, passphrase):\n        ##TODO: raise an exception if self.usage is not 254 or 255\n        keylen = self.encalg.key_size\n",
  "    def derive_key(self, passphrase, *, keylen=None):\n        ##TODO: raise an exception if self.usage is not 254 or 255\n        if keylen is None:\n            keylen = self.encalg.key_size\n", 'C06.8',
  more=[(FL, "        sessionkey = self.s2k.derive_key(passphrase)\n        del passphrase\n\n        pt = bytearray()", "        sessionkey = self.s2k.derive_key(passphrase, keylen=192)\n        del passphrase\n\n        pt = bytearray()")])
# --- wave 6: exception paths of protect may not lower the protection state; unlocked is read from the key material
_ENC_LINE = "        self.encbytes = bytearray(_encrypt(bytes(pt), bytes(sessionkey), enc_alg, bytes(self.s2k.iv)))\n"
M('C06', 'keyblob-failure-resets-s2k', FL, _ENC_LINE, "        try:\n    " + _ENC_LINE + "        except Exception:\n            self.s2k = String2Key()\n            raise\n", 'C06.3')
M('C06', 'keyblob-failure-usage-0', FL, _ENC_LINE, "        try:\n    " + _ENC_LINE + "        except PGPError:\n            self.s2k.usage = 0\n            raise\n", 'C06.3')
M('C06', 'pkt-protect-failure-drops-ciphertext', PK, "        self.keymaterial.encrypt_keyblob(passphrase, enc_alg, hash_alg)\n        del passphrase\n        self.update_hlen()\n",
  "        try:\n            self.keymaterial.encrypt_keyblob(passphrase, enc_alg, hash_alg)\n        except Exception:\n            self.keymaterial.s2k = String2Key()\n            self.keymaterial.encbytes = bytearray()\n            raise\n        del passphrase\n        self.update_hlen()\n", 'C06.3')
T('C06', 'twin-keyblob-failure-logged', FL, _ENC_LINE, "        try:\n    " + _ENC_LINE + "        except Exception:\n            del pt\n            raise\n")
_UNLOCKED = "        if self.protected:\n            return 0 not in list(self.keymaterial)\n        return True  # pragma: no cover\n"
M('C06', 'unlocked-cached-flag', PK, _UNLOCKED, "        if self.protected:\n            return getattr(self, '_unlocked', False)\n        return True  # pragma: no cover\n", 'C06.6',
  more=[(PK, "    def unprotect(self, passphrase):\n        self.keymaterial.decrypt_keyblob(passphrase)\n", "    def unprotect(self, passphrase):\n        self.keymaterial.decrypt_keyblob(passphrase)\n        self._unlocked = True\n")])
M('C06', 'unlocked-from-encbytes', PK, _UNLOCKED, "        if self.protected:\n            return bool(self.keymaterial.encbytes) and self._decrypted\n        return True  # pragma: no cover\n", 'C06.6')
T('C06', 'twin-unlocked-all-nonzero', PK, _UNLOCKED, "        if not self.protected:\n            return True  # pragma: no cover\n        fields = list(self.keymaterial)\n        return all(f != 0 for f in fields)\n")
M('C06', 'keyblob-clear-first', FL, "        sessionkey = self.s2k.derive_key(passphrase)\n        del passphrase\n\n        pt = bytearray()\n", "        sessionkey = self.s2k.derive_key(passphrase)\n        del passphrase\n        self.clear()\n\n        pt = bytearray()\n", 'C06.3',
  more=[(FL, "        # delete pt and clear self\n        del pt\n        self.clear()", "        # delete pt\n        del pt")])
M('C06', 'privkey-cached-module-dict', FL, "        params = dsa.DSAParameterNumbers(self.p, self.q, self.g)\n        pn = dsa.DSAPublicNumbers(self.y, params)\n        return dsa.DSAPrivateNumbers(self.x, pn).private_key(default_backend())",
  "        if id(self) not in _DSA_KEYS:\n            params = dsa.DSAParameterNumbers(self.p, self.q, self.g)\n            pn = dsa.DSAPublicNumbers(self.y, params)\n            _DSA_KEYS[id(self)] = dsa.DSAPrivateNumbers(self.x, pn).private_key(default_backend())\n        return _DSA_KEYS[id(self)]", 'C06.2',
  more=[(FL, "class DSAPriv(PrivKey, DSAPub):\n", "_DSA_KEYS = {}\n\n\nclass DSAPriv(PrivKey, DSAPub):\n")])

# =============================================================================================== C10
M('C10', 'crc-init', TY, "    __crc24_init = 0x0B704CE", "    __crc24_init = 0x0B704CF", 'C10.1')
M('C10', 'crc-poly', TY, "    __crc24_poly = 0x1864CFB", "    __crc24_poly = 0x864CFB", 'C10.1')
M('C10', 'crc-shift-8', TY, "            crc ^= b << 16", "            crc ^= b << 8", 'C10.1')
M('C10', 'crc-rounds-7', TY, "            for i in range(8):\n                crc <<= 1", "            for i in range(7):\n                crc <<= 1", 'C10.1')
M('C10', 'crc-mask', TY, "        return crc & 0xFFFFFF", "        return crc & 0xFFFF", 'C10.1')
M('C10', 'crc-of-text', TY, "            crc=base64.b64encode(PGPObject.int_to_bytes(self.crc24(self.__bytes__()), 3)).decode('latin-1')", "            crc=base64.b64encode(PGPObject.int_to_bytes(self.crc24(payload.encode()), 3)).decode('latin-1')", 'C10.2')
M('C10', 'crc-width-4', TY, "            crc=base64.b64encode(PGPObject.int_to_bytes(self.crc24(self.__bytes__()), 3)).decode('latin-1')", "            crc=base64.b64encode(PGPObject.int_to_bytes(self.crc24(self.__bytes__()), 4)).decode('latin-1')", 'C10.2')
M('C10', 'wrap-80', TY, "        payload = '\\n'.join(payload[i:(i + 64)] for i in range(0, len(payload), 64))", "        payload = '\\n'.join(payload[i:(i + 80)] for i in range(0, len(payload), 80))", 'C10.3')
M('C10', 'wrap-step-mismatch', TY, "        payload = '\\n'.join(payload[i:(i + 64)] for i in range(0, len(payload), 64))", "        payload = '\\n'.join(payload[i:(i + 64)] for i in range(0, len(payload), 76))", 'C10.3')
M('C10', 'label-pgp-key', PGP, "        return '{:s} KEY BLOCK'.format(", "        return '{:s} KEY'.format(", 'C10.4')
M('C10', 'end-label-differs', TY, "                  '-----END PGP {block_type}-----\\n'", "                  '-----END PGP MESSAGE-----\\n'", 'C10.2')
M('C10', 'sig-kind-check-inverted', PGP, "        if unarmored['magic'] is not None and unarmored['magic'] != 'SIGNATURE':", "        if unarmored['magic'] is not None and unarmored['magic'] == 'SIGNATURE':", 'C10.5')
M('C10', 'key-kind-check-dropped', PGP, "        if unarmored['magic'] is not None and 'KEY' not in unarmored['magic']:\n            raise ValueError('Expected: KEY. Got: {}'.format(str(unarmored['magic'])))\n", "", 'C10.5')
M('C10', 'msg-accepts-key', PGP, "        if unarmored['magic'] is not None and unarmored['magic'] not in ['MESSAGE', 'SIGNATURE']:", "        if unarmored['magic'] is not None and unarmored['magic'] not in ['MESSAGE', 'SIGNATURE', 'PUBLIC KEY BLOCK']:", 'C10.5')
M('C10', 'crc-mismatch-ignored', TY, "            if Armorable.crc24(m['body']) != m['crc']:\n                warnings.warn('Incorrect crc24', stacklevel=3)", "            if Armorable.crc24(m['body']) != m['crc']:\n                pass", 'C10.6')
M('C10', 'crc-compare-eq', TY, "            if Armorable.crc24(m['body']) != m['crc']:", "            if Armorable.crc24(m['body']) == m['crc']:", 'C10.6')
M('C10', 'message-cleartext-label', PGP, "        if self.type == 'cleartext':\n            return \"SIGNATURE\"\n        return \"MESSAGE\"", "        if self.type == 'cleartext':\n            return \"SIGNED MESSAGE\"\n        return \"MESSAGE\"", 'C10.4')
M('C10', 'header-sep', TY, "headers=''.join('{key}: {val}\\n'.format(key=key, val=val)", "headers=''.join('{key}:{val}\\n'.format(key=key, val=val)", 'C10.7')
T('C10', 'twin-crc-hex', TY, "        return crc & 0xFFFFFF", "        return crc & 16777215")
T('C10', 'twin-payload-var', TY, "        payload = base64.b64encode(self.__bytes__()).decode('latin-1')\n        payload = '\\n'.join(payload[i:(i + 64)] for i in range(0, len(payload), 64))", "        b64 = base64.b64encode(self.__bytes__()).decode('latin-1')\n        payload = '\\n'.join(b64[i:(i + 64)] for i in range(0, len(b64), 64))")

# ---- C10 hardening: twins (every family a rule was made blind to) and new mutants (one or more per rewritten rule)
_CRC_BODY = """        crc = Armorable.__crc24_init

        if not isinstance(data, bytearray):
            data = iter(data)

        for b in data:
            crc ^= b << 16

            for i in range(8):
                crc <<= 1
                if crc & 0x1000000:
                    crc ^= Armorable.__crc24_poly

        return crc & 0xFFFFFF
"""
T('C10', 'twin-crc-renamed-hoisted', TY, _CRC_BODY, """        poly = Armorable.__crc24_poly
        carry = 0x1000000
        mask = 0xFFFFFF

        if isinstance(data, bytearray):
            octets = data
        else:
            octets = iter(data)

        register = Armorable.__crc24_init
        for octet in octets:
            register = register ^ (octet << 16)

            for _ in range(8):
                register = register << 1
                if (register & carry) != 0:
                    register = register ^ poly

        return register & mask
""")
T('C10', 'twin-crc-literals-inline', TY, _CRC_BODY, """        acc = 0xB704CE
        for octet in bytearray(data):
            acc ^= octet << 16
            for _round in range(0, 8):
                acc <<= 1
                if acc & (1 << 24):
                    acc ^= 0x1864CFB
        return acc & ((1 << 24) - 1)
""")
T('C10', 'twin-crc-test-before-shift', TY, _CRC_BODY, """        crc = Armorable.__crc24_init
        for b in (data if isinstance(data, bytearray) else iter(data)):
            crc ^= b << 16
            for i in range(8):
                # bit 23 before the shift is bit 24 after it
                crc = (crc << 1) ^ (Armorable.__crc24_poly if crc & 0x800000 else 0)
        return crc & 0xFFFFFF
""")
T('C10', 'twin-crc-mask-each-round', TY, _CRC_BODY, """        crc = Armorable.__crc24_init

        if not isinstance(data, bytearray):
            data = iter(data)

        for b in data:
            crc ^= b << 16

            for i in range(8):
                crc <<= 1
                if crc & 0x1000000:
                    crc ^= Armorable.__crc24_poly
                crc &= 0xFFFFFF

        return crc
""")
M('C10', 'crc-wrong-overflow-bit', TY, "                if crc & 0x1000000:", "                if crc & 0x800000:", 'C10.1')
M('C10', 'crc-xor-always', TY, "                if crc & 0x1000000:\n                    crc ^= Armorable.__crc24_poly", "                crc ^= Armorable.__crc24_poly", 'C10.1')
M('C10', 'crc-or-instead-of-xor', TY, "            crc ^= b << 16", "            crc |= b << 16", 'C10.1')
M('C10', 'crc-rounds-9', TY, "            for i in range(8):\n                crc <<= 1", "            for i in range(9):\n                crc <<= 1", 'C10.1')
M('C10', 'crc-mask-23-bits', TY, "        return crc & 0xFFFFFF", "        return crc & 0x7FFFFF", 'C10.1')
M('C10', 'crc-poly-is-init', TY, "                    crc ^= Armorable.__crc24_poly", "                    crc ^= Armorable.__crc24_init", 'C10.1')
M('C10', 'crc-shift-after-test', TY, "                crc <<= 1\n                if crc & 0x1000000:\n                    crc ^= Armorable.__crc24_poly", "                if crc & 0x1000000:\n                    crc ^= Armorable.__crc24_poly\n                crc <<= 1", 'C10.1')
M('C10', 'crc-skips-first-octet-of-bytes', TY, "            data = iter(data)", "            data = iter(data[1:])", 'C10.1')

_STR_BODY = """        payload = base64.b64encode(self.__bytes__()).decode('latin-1')
        payload = '\\n'.join(payload[i:(i + 64)] for i in range(0, len(payload), 64))

        return self.__armor_fmt.format(
            block_type=self.magic,
            headers=''.join('{key}: {val}\\n'.format(key=key, val=val) for key, val in self.ascii_headers.items()),
            packet=payload,
            crc=base64.b64encode(PGPObject.int_to_bytes(self.crc24(self.__bytes__()), 3)).decode('latin-1')
        )
"""
T('C10', 'twin-str-helpers-locals', TY, "    def __str__(self):\n" + _STR_BODY, """    @staticmethod
    def _radix64(octets):
        return base64.b64encode(octets).decode('latin-1')

    def _armor_header_lines(self):
        lines = []
        for key, val in self.ascii_headers.items():
            lines.append('{key}: {val}\\n'.format(key=key, val=val))
        return ''.join(lines)

    def __str__(self):
        width = 64
        encoded = self._radix64(self.__bytes__())
        rows = [encoded[start:(start + width)] for start in range(0, len(encoded), width)]
        payload = '\\n'.join(rows)

        block_type = self.magic
        headers = self._armor_header_lines()
        checksum = PGPObject.int_to_bytes(self.crc24(self.__bytes__()), 3)

        return self.__armor_fmt.format(
            block_type=block_type,
            headers=headers,
            packet=payload,
            crc=self._radix64(checksum)
        )
""")
T('C10', 'twin-str-concatenation', TY, _STR_BODY, """        octets = self.__bytes__()
        text = str(base64.b64encode(octets), 'ascii')
        lines = []
        for off in range(0, len(text), 64):
            lines.append(text[off:off + 64])
        out = '-----BEGIN PGP ' + self.magic + '-----\\n'
        out += ''.join(key + ': ' + val + '\\n' for key, val in self.ascii_headers.items())
        out += '\\n' + '\\n'.join(lines) + '\\n'
        out += '=' + base64.b64encode(PGPObject.int_to_bytes(Armorable.crc24(self.__bytes__()), minlen=3)).decode('ascii') + '\\n'
        out += '-----END PGP ' + self.magic + '-----\\n'
        return out
""")
T('C10', 'twin-str-fstring-percent', TY, _STR_BODY, """        payload = base64.b64encode(self.__bytes__()).decode()
        payload = '\\n'.join([payload[i:i + 64] for i in range(0, len(payload), 64)])
        headers = ''.join(['%s: %s\\n' % (k, v) for k, v in self.ascii_headers.items()])
        crc = base64.b64encode(PGPObject.int_to_bytes(self.crc24(self.__bytes__()), 3)).decode()
        return f'-----BEGIN PGP {self.magic}-----\\n{headers}\\n{payload}\\n={crc}\\n-----END PGP {self.magic}-----\\n'
""")
T('C10', 'twin-str-fstring-header-line', TY, "headers=''.join('{key}: {val}\\n'.format(key=key, val=val) for key, val in self.ascii_headers.items()),",
  "headers=''.join(f'{name}: {value}\\n' for name, value in self.ascii_headers.items()),")
M('C10', 'crc-over-all-but-last-octet', TY, "self.crc24(self.__bytes__()), 3)", "self.crc24(self.__bytes__()[:-1]), 3)", 'C10.2')
M('C10', 'crc-equals-sign-dropped', TY, "                  '={crc}\\n' \\\n", "                  '{crc}\\n' \\\n", 'C10.2')
M('C10', 'payload-of-other-export', TY, "        payload = base64.b64encode(self.__bytes__()).decode('latin-1')", "        payload = base64.b64encode(self.__bytes__()[1:]).decode('latin-1')", 'C10.2')
M('C10', 'label-class-name', TY, "            block_type=self.magic,", "            block_type=self.__class__.__name__.upper(),", 'C10.2')
M('C10', 'wrap-66-not-a-quantum', TY, "        payload = '\\n'.join(payload[i:(i + 64)] for i in range(0, len(payload), 64))", "        payload = '\\n'.join(payload[i:(i + 66)] for i in range(0, len(payload), 66))", 'C10.3')
M('C10', 'reader-lines-60', TY, "(?P<body>([A-Za-z0-9+/]{1,76}={,2}(?:\\r?\\n))+)", "(?P<body>([A-Za-z0-9+/]{1,60}={,2}(?:\\r?\\n))+)", 'C10.3')
M('C10', 'reader-no-padding', TY, "(?P<body>([A-Za-z0-9+/]{1,76}={,2}(?:\\r?\\n))+)", "(?P<body>([A-Za-z0-9+/]{1,76}(?:\\r?\\n))+)", 'C10.3')
M('C10', 'reader-crc-group-5', TY, "^=(?P<crc>[A-Za-z0-9+/]{4})(?:\\r?\\n)", "^=(?P<crc>[A-Za-z0-9+/]{4,5})(?:\\r?\\n)", 'C10.2')
T('C10', 'twin-regex-spelling', TY, "^=(?P<crc>[A-Za-z0-9+/]{4})(?:\\r?\\n)", "^=(?P<crc>(?:[A-Za-z0-9+/]{2}){2})(?:\\r\\n|\\n)")
T('C10', 'twin-regex-body-spelling', TY, "(?P<body>([A-Za-z0-9+/]{1,76}={,2}(?:\\r?\\n))+)", "(?P<body>(?:[0-9A-Za-z/+]{1,76}(?:={1,2})?\\r?\\n)+)")

_KEY_MAGIC = """        return '{:s} KEY BLOCK'.format('PUBLIC' if (isinstance(self._key, Public) and not isinstance(self._key, Private)) else
                                       'PRIVATE' if isinstance(self._key, Private) else '')
"""
T('C10', 'twin-key-magic-if-chain', PGP, _KEY_MAGIC, """        if isinstance(self._key, Private):
            return 'PRIVATE KEY BLOCK'
        if isinstance(self._key, Public):
            return 'PUBLIC KEY BLOCK'
        return ' KEY BLOCK'
""")
T('C10', 'twin-key-magic-concat', PGP, _KEY_MAGIC, """        kind = ''
        if isinstance(self._key, Private):
            kind = 'PRIVATE'
        elif isinstance(self._key, Public):
            kind = 'PUBLIC'
        return kind + ' KEY BLOCK'
""")
T('C10', 'twin-message-magic-ifexp', PGP, "        if self.type == 'cleartext':\n            return \"SIGNATURE\"\n        return \"MESSAGE\"",
  "        return 'SIGNATURE' if self.type == 'cleartext' else 'MESSAGE'")
M('C10', 'key-magic-swapped', PGP, "'PRIVATE' if isinstance(self._key, Private) else '')", "'PUBLIC' if isinstance(self._key, Private) else '')", 'C10.4',
  more=[(PGP, "        return '{:s} KEY BLOCK'.format('PUBLIC' if (isinstance", "        return '{:s} KEY BLOCK'.format('PRIVATE' if (isinstance")])
M('C10', 'key-magic-private-as-public', PGP, "'PUBLIC' if (isinstance(self._key, Public) and not isinstance(self._key, Private)) else", "'PUBLIC' if isinstance(self._key, Public) else", 'C10.4')
M('C10', 'signature-label-lowercase', PGP, "    def magic(self):\n        return \"SIGNATURE\"", "    def magic(self):\n        return \"Signature\"", 'C10.4')

_SIG_CHECK = "        if unarmored['magic'] is not None and unarmored['magic'] != 'SIGNATURE':\n            raise ValueError('Expected: SIGNATURE. Got: {}'.format(str(unarmored['magic'])))\n"
_MSG_CHECK = "        if unarmored['magic'] is not None and unarmored['magic'] not in ['MESSAGE', 'SIGNATURE']:\n            raise ValueError('Expected: MESSAGE. Got: {}'.format(str(unarmored['magic'])))\n"
_KEY_CHECK = "        if unarmored['magic'] is not None and 'KEY' not in unarmored['magic']:\n            raise ValueError('Expected: KEY. Got: {}'.format(str(unarmored['magic'])))\n"
T('C10', 'twin-kind-checks-local-demorgan-tuple', PGP, _SIG_CHECK,
  "        magic = unarmored['magic']\n        if not (magic is None or magic == 'SIGNATURE'):\n            raise ValueError('Expected: SIGNATURE. Got: {}'.format(str(magic)))\n",
  more=[(PGP, "class PGPMessage(Armorable, PGPObject):\n", "class PGPMessage(Armorable, PGPObject):\n    _armor_kinds = ('MESSAGE', 'SIGNATURE')\n\n"),
        (PGP, _MSG_CHECK, "        magic = unarmored['magic']\n        if magic is not None and magic not in self._armor_kinds:\n            raise ValueError('Expected: MESSAGE. Got: {}'.format(str(magic)))\n"),
        (PGP, "        # cleartext signature\n        if unarmored['magic'] == 'SIGNATURE':", "        # cleartext signature\n        if magic == 'SIGNATURE':"),
        (PGP, _KEY_CHECK, "        magic = unarmored['magic']\n        if magic is not None and 'KEY' not in magic:\n            raise ValueError('Expected: KEY. Got: {}'.format(str(magic)))\n")])
T('C10', 'twin-kind-checks-nested-if-set', PGP, _SIG_CHECK,
  "        if unarmored['magic'] is not None:\n            if not unarmored['magic'] == 'SIGNATURE':\n                raise ValueError('Expected: SIGNATURE. Got: {}'.format(str(unarmored['magic'])))\n",
  more=[(PGP, _MSG_CHECK, "        label = unarmored['magic']\n        if label is None or label in {'MESSAGE', 'SIGNATURE'}:\n            pass\n        else:\n            raise ValueError('Expected: MESSAGE. Got: {}'.format(str(label)))\n"),
        (PGP, _KEY_CHECK, "        if unarmored['magic'] is not None and unarmored['magic'].find('KEY') < 0:\n            raise ValueError('Expected: KEY. Got: {}'.format(str(unarmored['magic'])))\n")])
T('C10', 'twin-message-parse-generator-helper', PGP, "    def parse(self, packet):\n        unarmored = self.ascii_unarmor(packet)\n        data = unarmored['body']\n\n        if unarmored['magic'] is not None and unarmored['magic'] not in ['MESSAGE', 'SIGNATURE']:",
  "    @staticmethod\n    def _iter_packets(data):\n        while len(data) > 0:\n            yield Packet(data)\n\n    def parse(self, packet):\n        unarmored = self.ascii_unarmor(packet)\n        data = unarmored['body']\n\n        if unarmored['magic'] is not None and unarmored['magic'] not in ['MESSAGE', 'SIGNATURE']:",
  more=[(PGP, "            while len(data) > 0:\n                pkt = Packet(data)\n                if not isinstance(pkt, Signature):  # pragma: no cover", "            for pkt in self._iter_packets(data):\n                if not isinstance(pkt, Signature):  # pragma: no cover"),
        (PGP, "        else:\n            while len(data) > 0:\n                self |= Packet(data)\n", "        else:\n            for pkt in self._iter_packets(data):\n                self |= pkt\n")])
M('C10', 'sig-kind-check-or', PGP, "        if unarmored['magic'] is not None and unarmored['magic'] != 'SIGNATURE':", "        if unarmored['magic'] is None or unarmored['magic'] != 'SIGNATURE':", 'C10.5')
M('C10', 'sig-kind-check-after-packet', PGP, _SIG_CHECK + "\n        if unarmored['headers'] is not None:\n            self.ascii_headers = unarmored['headers']\n\n        # load *one* packet from data\n        pkt = Packet(data)\n",
  "        if unarmored['headers'] is not None:\n            self.ascii_headers = unarmored['headers']\n\n        # load *one* packet from data\n        pkt = Packet(data)\n" + _SIG_CHECK, 'C10.5')
M('C10', 'msg-kind-check-accepts-private-key', PGP, "unarmored['magic'] not in ['MESSAGE', 'SIGNATURE']:", "unarmored['magic'] not in ['MESSAGE', 'SIGNATURE', 'PRIVATE KEY BLOCK']:", 'C10.5')
M('C10', 'msg-kind-check-drops-signature', PGP, "unarmored['magic'] not in ['MESSAGE', 'SIGNATURE']:", "unarmored['magic'] not in ['MESSAGE']:", 'C10.5')
M('C10', 'key-kind-check-typeerror', PGP, "            raise ValueError('Expected: KEY. Got: {}'.format(str(unarmored['magic'])))", "            raise TypeError('Expected: KEY. Got: {}'.format(str(unarmored['magic'])))", 'C10.5')
M('C10', 'key-kind-check-only-warns', PGP, "            raise ValueError('Expected: KEY. Got: {}'.format(str(unarmored['magic'])))", "            warnings.warn('Expected: KEY. Got: {}'.format(str(unarmored['magic'])))", 'C10.5')
M('C10', 'key-kind-check-accepts-anything-with-e', PGP, "'KEY' not in unarmored['magic']:", "'E' not in unarmored['magic']:", 'C10.5')
M('C10', 'cleartext-fallback-empty', PGP, "            self |= self.dash_unescape(unarmored['cleartext'])", "            self |= self.dash_unescape(unarmored['cleartext'] or '')", 'C10.5')

_UNARMOR_TAIL = """        m = Armorable.__armor_regex.search(text)

        if m is None:  # pragma: no cover
            raise ValueError("Expected: ASCII-armored PGP data")

        m = m.groupdict()

        if m['hashes'] is not None:
            m['hashes'] = m['hashes'].split(',')

        if m['headers'] is not None:
            m['headers'] = collections.OrderedDict(re.findall('^(?P<key>.+): (?P<value>.+)$\\n?', m['headers'], flags=re.MULTILINE))

        if m['body'] is not None:
            try:
                m['body'] = bytearray(base64.b64decode(m['body'].encode()))

            except (binascii.Error, TypeError) as ex:
                raise PGPError(str(ex)) from ex

        if m['crc'] is not None:
            m['crc'] = Header.bytes_to_int(base64.b64decode(m['crc'].encode()))
            if Armorable.crc24(m['body']) != m['crc']:
                warnings.warn('Incorrect crc24', stacklevel=3)

        return m
"""
T('C10', 'twin-unarmor-split-names-temporaries', TY, _UNARMOR_TAIL, """        match = Armorable.__armor_regex.search(text)

        if match is None:  # pragma: no cover
            raise ValueError("Expected: ASCII-armored PGP data")

        fields = match.groupdict()

        hashes = fields['hashes']
        if hashes is not None:
            fields['hashes'] = hashes.split(',')

        headers = fields['headers']
        if headers is not None:
            fields['headers'] = collections.OrderedDict(Armorable.__armor_header_regex.findall(headers))

        body = fields['body']
        if body is not None:
            try:
                body = bytearray(base64.b64decode(body.encode()))

            except (binascii.Error, TypeError) as ex:
                raise PGPError(str(ex)) from ex

            fields['body'] = body

        crc = fields['crc']
        if crc is not None:
            expected = Header.bytes_to_int(base64.b64decode(crc.encode()))
            fields['crc'] = expected
            if Armorable.crc24(body) != expected:
                warnings.warn('Incorrect crc24', stacklevel=3)

        return fields
""", more=[(TY, "    @property\n    def charset(self):", "    __armor_header_regex = re.compile('^(?P<key>.+): (?P<value>.+)$\\n?', flags=re.MULTILINE)\n\n    @property\n    def charset(self):")])
T('C10', 'twin-unarmor-swapped-compare-else', TY, "            if Armorable.crc24(m['body']) != m['crc']:\n                warnings.warn('Incorrect crc24', stacklevel=3)",
  "            if m['crc'] == Armorable.crc24(m['body']):\n                pass\n            else:\n                warnings.warn('Incorrect crc24', stacklevel=3)")
T('C10', 'twin-unarmor-early-return-no-crc', TY, "        if m['crc'] is not None:\n            m['crc'] = Header.bytes_to_int(base64.b64decode(m['crc'].encode()))\n            if Armorable.crc24(m['body']) != m['crc']:\n                warnings.warn('Incorrect crc24', stacklevel=3)\n\n        return m",
  "        if m['crc'] is None:\n            return m\n\n        m['crc'] = int.from_bytes(base64.b64decode(m['crc'].encode('ascii')), 'big')\n        mismatch = Armorable.crc24(m['body']) != m['crc']\n        if mismatch:\n            warnings.warn('Incorrect crc24', stacklevel=3)\n\n        return m")
M('C10', 'crc-compared-undecoded', TY, "            m['crc'] = Header.bytes_to_int(base64.b64decode(m['crc'].encode()))\n            if Armorable.crc24(m['body']) != m['crc']:",
  "            if Armorable.crc24(m['body']) != m['crc']:", 'C10.6')
M('C10', 'crc-of-the-crc-line', TY, "            if Armorable.crc24(m['body']) != m['crc']:", "            if Armorable.crc24(base64.b64decode(m['crc'] if False else 'AAAA')) != m['crc']:", 'C10.6')
M('C10', 'crc-warn-in-else', TY, "            if Armorable.crc24(m['body']) != m['crc']:\n                warnings.warn('Incorrect crc24', stacklevel=3)",
  "            if Armorable.crc24(m['body']) != m['crc']:\n                pass\n            else:\n                warnings.warn('Incorrect crc24', stacklevel=3)", 'C10.6')
M('C10', 'crc-checked-only-with-headers', TY, "            if Armorable.crc24(m['body']) != m['crc']:", "            if m['headers'] is not None and Armorable.crc24(m['body']) != m['crc']:", 'C10.6')
M('C10', 'body-not-decoded', TY, "                m['body'] = bytearray(base64.b64decode(m['body'].encode()))", "                m['body'] = bytearray(m['body'].encode())", 'C10.6')
M('C10', 'is-armor-match', TY, "        return Armorable.__armor_regex.search(text) is not None", "        return Armorable.__armor_regex.match(text) is not None", 'C10.7')
M('C10', 'header-reader-sep-no-space', TY, "re.findall('^(?P<key>.+): (?P<value>.+)$\\n?', m['headers'], flags=re.MULTILINE)", "re.findall('^(?P<key>.+):(?P<value>.+)$\\n?', m['headers'], flags=re.MULTILINE)", 'C10.7')
M('C10', 'end-label-not-tied', TY, "^-{5}END\\ PGP\\ (?P=magic)-{5}(?:\\r?\\n)?", "^-{5}END\\ PGP\\ [A-Z0-9 ,]+-{5}(?:\\r?\\n)?", 'C10.7')
T('C10', 'twin-str-textwrap-to-bytes', TY, "        payload = '\\n'.join(payload[i:(i + 64)] for i in range(0, len(payload), 64))", "        payload = '\\n'.join(textwrap.wrap(payload, 64))",
  more=[(TY, "crc=base64.b64encode(PGPObject.int_to_bytes(self.crc24(self.__bytes__()), 3)).decode('latin-1')", "crc=base64.b64encode(self.crc24(self.__bytes__()).to_bytes(3, 'big')).decode('latin-1')"),
        (TY, "import warnings\n", "import textwrap\nimport warnings\n")])
M('C10', 'wrap-textwrap-80', TY, "        payload = '\\n'.join(payload[i:(i + 64)] for i in range(0, len(payload), 64))", "        payload = '\\n'.join(textwrap.wrap(payload, 80))", 'C10.3',
  more=[(TY, "import warnings\n", "import textwrap\nimport warnings\n")])
M('C10', 'crc-to-bytes-2', TY, "crc=base64.b64encode(PGPObject.int_to_bytes(self.crc24(self.__bytes__()), 3)).decode('latin-1')", "crc=base64.b64encode((self.crc24(self.__bytes__()) & 0xFFFF).to_bytes(2, 'big')).decode('latin-1')", 'C10.2')
T('C10', 'twin-kind-check-frozenset-constant', PGP, _MSG_CHECK, "        if unarmored['magic'] is not None and unarmored['magic'] not in PGPMessage._ARMOR_LABELS:\n            raise ValueError('Expected: MESSAGE. Got: {}'.format(str(unarmored['magic'])))\n",
  more=[(PGP, "class PGPMessage(Armorable, PGPObject):\n", "class PGPMessage(Armorable, PGPObject):\n    _ARMOR_LABELS = frozenset(['MESSAGE', 'SIGNATURE'])\n\n")])
M('C10', 'kind-check-frozenset-with-key-label', PGP, _MSG_CHECK, "        if unarmored['magic'] is not None and unarmored['magic'] not in PGPMessage._ARMOR_LABELS:\n            raise ValueError('Expected: MESSAGE. Got: {}'.format(str(unarmored['magic'])))\n", 'C10.5',
  more=[(PGP, "class PGPMessage(Armorable, PGPObject):\n", "class PGPMessage(Armorable, PGPObject):\n    _ARMOR_LABELS = frozenset(['MESSAGE', 'SIGNATURE', 'PUBLIC KEY BLOCK'])\n\n")])
T('C10', 'twin-crc-msb-first-formulation', TY, _CRC_BODY, """        crc = Armorable.__crc24_init
        for b in bytes(data):
            for bit in range(7, -1, -1):
                top = ((crc >> 23) ^ (b >> bit)) & 1
                crc = (crc << 1) & 0xFFFFFF
                if top:
                    crc ^= Armorable.__crc24_poly & 0xFFFFFF
        return crc
""")
M('C10', 'crc-msb-first-wrong-tap', TY, _CRC_BODY, """        crc = Armorable.__crc24_init
        for b in bytes(data):
            for bit in range(7, -1, -1):
                top = ((crc >> 22) ^ (b >> bit)) & 1
                crc = (crc << 1) & 0xFFFFFF
                if top:
                    crc ^= Armorable.__crc24_poly & 0xFFFFFF
        return crc
""", 'C10.1')
T('C10', 'twin-str-headers-by-key-newline-in-body', TY, _STR_BODY, """        payload = base64.b64encode(self.__bytes__()).decode('latin-1')
        lines = [payload[i:(i + 64)] for i in range(0, len(payload), 64)]
        body = '\\n'.join(lines) + '\\n'
        headers = ''
        for name in self.ascii_headers:
            headers += '{}: {}\\n'.format(name, self.ascii_headers[name])

        return '-----BEGIN PGP {0}-----\\n{1}\\n{2}={3}\\n-----END PGP {0}-----\\n'.format(
            self.magic, headers, body, base64.b64encode(PGPObject.int_to_bytes(self.crc24(self.__bytes__()), 3)).decode('latin-1'))
""")
M('C10', 'headers-value-is-key', TY, "'{key}: {val}\\n'.format(key=key, val=val)", "'{key}: {val}\\n'.format(key=key, val=key)", 'C10.7')
M('C10', 'headers-joined-without-newline', TY, "'{key}: {val}\\n'.format(key=key, val=val)", "'{key}: {val}'.format(key=key, val=val)", 'C10.7')
T('C10', 'twin-kind-checks-none-in-tuple-truthiness', PGP, _SIG_CHECK, "        if unarmored['magic'] not in (None, 'SIGNATURE'):\n            raise ValueError('Expected: SIGNATURE. Got: {}'.format(str(unarmored['magic'])))\n",
  more=[(PGP, _MSG_CHECK, "        accepted = {'MESSAGE', 'SIGNATURE'}\n        if unarmored['magic'] and unarmored['magic'] not in accepted:\n            raise ValueError('Expected: MESSAGE. Got: {}'.format(str(unarmored['magic'])))\n"),
        (PGP, _KEY_CHECK, "        if unarmored['magic'] is not None and not unarmored['magic'].count('KEY'):\n            raise ValueError('Expected: KEY. Got: {}'.format(str(unarmored['magic'])))\n")])
T('C10', 'twin-unarmor-compound-condition-raise', TY, "        if m['crc'] is not None:\n            m['crc'] = Header.bytes_to_int(base64.b64decode(m['crc'].encode()))\n            if Armorable.crc24(m['body']) != m['crc']:\n                warnings.warn('Incorrect crc24', stacklevel=3)",
  "        if m['crc']:\n            m['crc'] = Header.bytes_to_int(base64.b64decode(m['crc'].encode()))\n        if m['crc'] is not None and not (Armorable.crc24(m['body']) == m['crc']):\n            import logging\n            logging.getLogger(__name__).warning('Incorrect crc24')")
M('C10', 'crc-compound-condition-or', TY, "            if Armorable.crc24(m['body']) != m['crc']:", "            if m['magic'] == 'SIGNATURE' and Armorable.crc24(m['body']) != m['crc']:", 'C10.6')


# ---- stress patches written by independent sub-agents (selftest/patches/G9-*.diff), turned into text edits hunk by hunk
def _edits_from_diff(name):
    import os, re
    path = os.path.join(os.path.dirname(os.path.abspath(__file__)) if '__file__' in globals() else 'selftest', 'patches', name)
    if not os.path.exists(path):
        path = os.path.join('selftest', 'patches', name)
    edits, cur, old, new = [], None, [], []

    def flush():
        if cur is not None and (old or new) and old != new:
            edits.append((cur, ''.join(old), ''.join(new)))
    with open(path, encoding='utf-8') as fh:
        lines = fh.read().splitlines(keepends=True)
    for l in lines:
        if l.startswith('--- '):
            continue
        if l.startswith('+++ '):
            flush()
            old, new = [], []
            cur = re.sub(r'^b/', '', l[4:].split('\t')[0].strip())
            continue
        if l.startswith('@@'):
            flush()
            old, new = [], []
            continue
        if cur is None or l.startswith('\\'):
            continue
        if l.startswith('-'):
            old.append(l[1:])
        elif l.startswith('+'):
            new.append(l[1:])
        elif l.startswith(' ') or l == '\n':
            old.append(l[1:] if l.startswith(' ') else l)
            new.append(l[1:] if l.startswith(' ') else l)
    flush()
    return edits


def _TD(prop, id, name):
    e = _edits_from_diff(name)
    T(prop, id, e[0][0], e[0][1], e[0][2], more=e[1:])


def _MD(prop, id, name, rule):
    e = _edits_from_diff(name)
    M(prop, id, e[0][0], e[0][1], e[0][2], rule, more=e[1:])


for _n, _what in (('A-twin01', 'crc-test-before-shift-textwrap'), ('A-twin02', 'crc-variant-writer-variant'), ('A-twin07', 'writer-helpers-head-tail-constants'),
                  ('A-twin08', 'writer-percent-template-findall'), ('A-twin10', 'writer-format-map-standard-b64encode')):
    _TD('C10', 'stress-%s-%s' % (_n, _what), 'G9-%s.diff' % _n)
for _n, _what, _r in (('A-mut01', 'crc-width-pad-dropped', 'C10.2'), ('A-mut02', 'header-lines-joined-by-newline', 'C10.7'), ('A-mut04', 'crc-restarts-per-slice', 'C10.2'),
                      ('A-mut06', 'crc-greater-than-instead-of-bit-test', 'C10.1'), ('A-mut07', 'crc-urlsafe-alphabet', 'C10.2'), ('A-mut08', 'crc-mask-20-bits', 'C10.1')):
    _MD('C10', 'stress-%s-%s' % (_n, _what), 'G9-%s.diff' % _n, _r)
for _i, _what in enumerate(('local-none-in-tuple-fstring', 'shared-helper-with-predicates', 'class-constants-inverted-branches', 'packet-generator-if-chain-labels',
                            'demorgan-iter-sentinel-loop', 'nested-ifs-percent-messages', 'flag-early-return', 'per-class-armor-ok-predicate',
                            'itemgetter-get-find', 'error-factory-dict-lookup-label'), 1):
    _TD('C10', 'stress-C-twin%02d-%s' % (_i, _what), 'G9-C-twin%02d.diff' % _i)
for _i, (_what, _r) in enumerate((('message-labels-substring', 'C10.5'), ('key-word-block', 'C10.5'), ('signature-and-or', 'C10.5'), ('check-after-first-packet', 'C10.5'),
                                  ('key-check-only-warns', 'C10.5'), ('cleartext-or-empty', 'C10.5'), ('cleartext-unescaped-twice', 'C10.5'),
                                  ('key-magic-via-is-public', 'C10.4')), 1):
    _MD('C10', 'stress-C-mut%02d-%s' % (_i, _what), 'G9-C-mut%02d.diff' % _i, _r)
for _i in range(1, 11):
    _TD('C10', 'stress-B-twin%02d-reader-regex-respelling' % _i, 'G9-B-twin%02d.diff' % _i)
for _i, _what, _r in ((1, 'crc-zero-skips-check', 'C10.6'), (2, 'unarmor-match-not-search', 'C10.7'), (4, 'reader-lines-64', 'C10.3'), (5, 'crc-group-1-to-4', 'C10.2'),
                      (6, 'end-label-free', 'C10.7')):
    _MD('C10', 'stress-B-mut%02d-%s' % (_i, _what), 'G9-B-mut%02d.diff' % _i, _r)

# ---- C10 wave-2 lessons: optional groups, normalisation on load, lenient decoding, payload strip, case-insensitive labels
_FINDALL = "m['headers'] = collections.OrderedDict(re.findall('^(?P<key>.+): (?P<value>.+)$\\n?', m['headers'], flags=re.MULTILINE))"
M('C10', 'crc-line-optional-group', TY, "                         ^=(?P<crc>[A-Za-z0-9+/]{4})(?:\\r?\\n)\n", "                         (?:^=(?P<crc>[A-Za-z0-9+/]{4})(?:\\r?\\n))?\n", 'C10.6')
M('C10', 'crc-line-alternative-empty', TY, "                         ^=(?P<crc>[A-Za-z0-9+/]{4})(?:\\r?\\n)\n", "                         (?:^=(?P<crc>[A-Za-z0-9+/]{4})(?:\\r?\\n)|)\n", 'C10.6')
M('C10', 'body-optional-group', TY, "(?P<body>([A-Za-z0-9+/]{1,76}={,2}(?:\\r?\\n))+)\n", "(?P<body>([A-Za-z0-9+/]{1,76}={,2}(?:\\r?\\n))+)?\n", 'C10.6')
T('C10', 'twin-crc-optional-but-absence-reported', TY, "                         ^=(?P<crc>[A-Za-z0-9+/]{4})(?:\\r?\\n)\n", "                         (?:^=(?P<crc>[A-Za-z0-9+/]{4})(?:\\r?\\n))?\n",
  more=[(TY, "                warnings.warn('Incorrect crc24', stacklevel=3)\n\n        return m", "                warnings.warn('Incorrect crc24', stacklevel=3)\n\n        else:\n            warnings.warn('Missing crc24', stacklevel=3)\n\n        return m")])
M('C10', 'headers-key-capitalized-on-load', TY, _FINDALL, "m['headers'] = collections.OrderedDict((key.capitalize(), value) for key, value in re.findall('^(?P<key>.+): (?P<value>.+)$\\n?', m['headers'], flags=re.MULTILINE))", 'C10.7')
M('C10', 'headers-value-stripped-on-load', TY, _FINDALL, "m['headers'] = collections.OrderedDict([(k, v.strip()) for k, v in re.findall('^(?P<key>.+): (?P<value>.+)$\\n?', m['headers'], flags=re.MULTILINE)])", 'C10.7')
M('C10', 'headers-lowercase-dictcomp', TY, _FINDALL, "m['headers'] = {k.lower(): v for k, v in re.findall('^(?P<key>.+): (?P<value>.+)$\\n?', m['headers'], flags=re.MULTILINE)}", 'C10.7')
M('C10', 'headers-comment-filtered', TY, _FINDALL, "m['headers'] = collections.OrderedDict(kv for kv in re.findall('^(?P<key>.+): (?P<value>.+)$\\n?', m['headers'], flags=re.MULTILINE) if kv[0] != 'Comment')", 'C10.7')
T('C10', 'twin-headers-pairs-through-comprehension', TY, _FINDALL, "pairs = re.findall('^(?P<key>.+): (?P<value>.+)$\\n?', m['headers'], flags=re.MULTILINE)\n            m['headers'] = collections.OrderedDict((name, text) for name, text in pairs)")
M('C10', 'headers-written-deduplicated-sorted', TY, "for key, val in self.ascii_headers.items()),", "for key, val in sorted(set(self.ascii_headers.items()))),", 'C10.7')
M('C10', 'label-normalised-on-load', TY, "        if m['hashes'] is not None:\n            m['hashes'] = m['hashes'].split(',')", "        m['magic'] = m['magic'].strip().upper()\n\n        if m['hashes'] is not None:\n            m['hashes'] = m['hashes'].split(',')", 'C10.5')
M('C10', 'label-compared-case-insensitively', PGP, "unarmored['magic'] != 'SIGNATURE':", "unarmored['magic'].upper() != 'SIGNATURE':", 'C10.5')
M('C10', 'key-label-compared-case-insensitively', PGP, "'KEY' not in unarmored['magic']:", "'key' not in unarmored['magic'].lower():", 'C10.5')
M('C10', 'armor-regex-ignorecase', TY, '""", flags=re.MULTILINE | re.VERBOSE)', '""", flags=re.MULTILINE | re.VERBOSE | re.IGNORECASE)', 'C10.5')
M('C10', 'body-decode-error-swallowed', TY, "            except (binascii.Error, TypeError) as ex:\n                raise PGPError(str(ex)) from ex", "            except (binascii.Error, TypeError) as ex:\n                pass", 'C10.6')
T('C10', 'twin-crc-decode-guarded-though-group-always-decodes', TY, "            m['crc'] = Header.bytes_to_int(base64.b64decode(m['crc'].encode()))\n            if Armorable.crc24(m['body']) != m['crc']:\n                warnings.warn('Incorrect crc24', stacklevel=3)",
  "            try:\n                m['crc'] = Header.bytes_to_int(base64.b64decode(m['crc'].encode()))\n            except (binascii.Error, TypeError):\n                m['crc'] = None\n            if m['crc'] is not None and Armorable.crc24(m['body']) != m['crc']:\n                warnings.warn('Incorrect crc24', stacklevel=3)")
M('C10', 'crc-compared-low-16-bits', TY, "            if Armorable.crc24(m['body']) != m['crc']:", "            if (Armorable.crc24(m['body']) & 0xFFFF) != (m['crc'] & 0xFFFF):", 'C10.6')
M('C10', 'payload-stripped-before-encoding', TY, "        payload = base64.b64encode(self.__bytes__()).decode('latin-1')", "        payload = base64.b64encode(self.__bytes__().strip()).decode('latin-1')", 'C10.2')
M('C10', 'payload-text-rstripped-equals', TY, "        payload = base64.b64encode(self.__bytes__()).decode('latin-1')", "        payload = base64.b64encode(self.__bytes__()).decode('latin-1').rstrip('=')", 'C10.2')
M('C10', 'from-blob-strips-binary-input', TY, "            po = obj.parse(bytearray(blob))", "            po = obj.parse(bytearray(blob).strip())", 'C10.5')
M('C10', 'from-blob-strips-text-input-only-head', TY, "            po = obj.parse(bytearray(blob, 'latin-1'))", "            po = obj.parse(bytearray(blob[1:], 'latin-1'))", 'C10.5')

# ---- C10 wave-3 lessons: text/binary classifier alphabets, piecewise encoding
_ISB = "            return bool(re.match(br'^[ -~\\r\\n\\t]*$', text, flags=re.ASCII))"
_ISS = "            return bool(re.match(r'^[ -~\\r\\n\\t]*$', text, flags=re.ASCII))"
M('C10', 'is-ascii-bytes-without-tab', TY, _ISB, "            return bool(re.match(br'^[ -~\\r\\n]*$', text, flags=re.ASCII))", 'C10.5')
M('C10', 'is-ascii-bytes-translate-table-without-tab', TY, _ISB, "            return len(text.translate(None, Armorable.__ascii_octets)) == 0", 'C10.5',
  more=[(TY, "    @staticmethod\n    def is_ascii(text):", "    __ascii_octets = bytes(bytearray(range(0x20, 0x7F))) + b'\\r\\n'\n\n    @staticmethod\n    def is_ascii(text):")])
T('C10', 'twin-is-ascii-bytes-translate-table', TY, _ISB, "            return not text.translate(None, Armorable.__ascii_octets)",
  more=[(TY, "    @staticmethod\n    def is_ascii(text):", "    __ascii_octets = bytes(bytearray(range(0x20, 0x7F))) + b'\\t\\r\\n'\n\n    @staticmethod\n    def is_ascii(text):")])
T('C10', 'twin-is-ascii-fullmatch-reordered-class', TY, _ISS, "            return re.fullmatch(r'[\\t\\n\\r\\x20-\\x7e]*', text) is not None")
M('C10', 'is-ascii-str-without-cr', TY, _ISS, "            return bool(re.match(r'^[ -~\\n\\t]*$', text, flags=re.ASCII))", 'C10.5')
M('C10', 'is-ascii-bytes-isascii-method', TY, _ISB, "            return text.isascii()", 'C10.5')
M('C10', 'is-ascii-bytes-accepts-latin1', TY, _ISB, "            return bool(re.match(br'^[ -\\xff\\r\\n\\t]*$', text, flags=re.ASCII))", 'C10.5')
M('C10', 'is-ascii-str-plus-instead-of-star-and-del', TY, _ISS, "            return bool(re.match(r'^[ -\\x7f\\r\\n\\t]*$', text, flags=re.ASCII))", 'C10.5')
_WRAP = "        payload = base64.b64encode(self.__bytes__()).decode('latin-1')\n        payload = '\\n'.join(payload[i:(i + 64)] for i in range(0, len(payload), 64))\n"
M('C10', 'payload-encoded-in-blocks-of-4096-octets', TY, _WRAP, "        data = self.__bytes__()\n        lines = []\n        for ofs in range(0, len(data), 4096):\n            block = base64.b64encode(data[ofs:(ofs + 4096)]).decode('latin-1')\n            lines.extend(block[i:(i + 64)] for i in range(0, len(block), 64))\n        payload = '\\n'.join(lines)\n", 'C10.2')
T('C10', 'twin-payload-encoded-in-blocks-of-3072-octets', TY, _WRAP, "        data = self.__bytes__()\n        lines = []\n        for ofs in range(0, len(data), 3072):\n            block = base64.b64encode(data[ofs:(ofs + 3072)]).decode('latin-1')\n            lines.extend(block[i:(i + 64)] for i in range(0, len(block), 64))\n        payload = '\\n'.join(lines)\n")
T('C10', 'twin-payload-one-line-per-48-octets', TY, _WRAP, "        data = self.__bytes__()\n        payload = '\\n'.join(base64.b64encode(data[i:(i + 48)]).decode('latin-1') for i in range(0, len(data), 48))\n")
M('C10', 'payload-one-line-per-50-octets', TY, _WRAP, "        data = self.__bytes__()\n        payload = '\\n'.join(base64.b64encode(data[i:(i + 50)]).decode('latin-1') for i in range(0, len(data), 50))\n", 'C10.2')
M('C10', 'payload-pieces-48-step-64', TY, _WRAP, "        data = self.__bytes__()\n        payload = '\\n'.join(base64.b64encode(data[i:(i + 48)]).decode('latin-1') for i in range(0, len(data), 64))\n", 'C10.2')
M('C10', 'payload-pieces-of-57-octets-lines-of-76-ok-but-reader-64', TY, _WRAP, "        data = self.__bytes__()\n        payload = '\\n'.join(base64.b64encode(data[i:(i + 60)]).decode('latin-1') for i in range(0, len(data), 60))\n", 'C10.3')

# ---- C10 wave-5 lessons: header lines through a generator helper, CR LF on every body line, assembled patterns, table-driven CRC
_HDRS = "            headers=''.join('{key}: {val}\\n'.format(key=key, val=val) for key, val in self.ascii_headers.items()),"
T('C10', 'twin-header-lines-generator-helper', TY, _HDRS, "            headers=''.join(self._armor_header_lines()),",
  more=[(TY, "    def __str__(self):\n        payload = base64", "    def _armor_header_lines(self):\n        for key, val in self.ascii_headers.items():\n            yield '{key}: {val}\\n'.format(key=key, val=val)\n\n    def __str__(self):\n        payload = base64")])
M('C10', 'header-value-continued-on-further-lines', TY, _HDRS, "            headers=''.join(self._armor_header_lines()),", 'C10.7',
  more=[(TY, "    def __str__(self):\n        payload = base64", "    def _armor_header_lines(self):\n        for key, val in self.ascii_headers.items():\n            val = str(val)\n            width = max(76 - len(key) - 2, 1)\n            for i in range(0, max(len(val), 1), width):\n                yield '{key}: {val}\\n'.format(key=key, val=val[i:(i + width)])\n\n    def __str__(self):\n        payload = base64")])
M('C10', 'header-value-split-at-newlines-inline', TY, _HDRS, "            headers=''.join('{}: {}\\n'.format(key, part) for key, val in self.ascii_headers.items() for part in str(val).split('\\n')),", 'C10.7')
M('C10', 'body-lines-cr-only-on-last', TY, "(?P<body>([A-Za-z0-9+/]{1,76}={,2}(?:\\r?\\n))+)", "(?P<body>(?:[A-Za-z0-9+/]{1,76}\\n)*[A-Za-z0-9+/]{1,76}={,2}(?:\\r?\\n))", 'C10.3')
M('C10', 'body-lines-lf-only', TY, "(?P<body>([A-Za-z0-9+/]{1,76}={,2}(?:\\r?\\n))+)", "(?P<body>([A-Za-z0-9+/]{1,76}={,2}\\n)+)", 'C10.3')
T('C10', 'twin-body-lines-last-line-separate', TY, "(?P<body>([A-Za-z0-9+/]{1,76}={,2}(?:\\r?\\n))+)", "(?P<body>(?:[A-Za-z0-9+/]{1,76}={,2}\\r?\\n)*[A-Za-z0-9+/]{1,76}={,2}(?:\\r?\\n))")
_TD('C10', 'held-out-C10-ref14-crc-lazy-table', '../../twins/C10-ref14/patch.diff')
_TD('C10', 'held-out-C07-ref16-crc-class-table', '../../twins/C07-ref16/patch.diff')
_TD('C10', 'held-out-C10-ref16-assembled-pattern', '../../twins/C10-ref16/patch.diff')

# ---- C10 wave-6 lessons (held-out material loaded from the corpora)
_TD('C10', 'held-out-C07-ref19-magic-through-is-public', '../../twins/C07-ref19/patch.diff')
_TD('C10', 'held-out-C16-ref18-magic-through-shared-helper', '../../twins/C16-ref18/patch.diff')
_TD('C10', 'held-out-C10-ref19-is-ascii-translate-tables', '../../twins/C10-ref19/patch.diff')
_MD('C10', 'held-out-w5mut1-render-cache-forgets-headers', '../../seeded/C10-w5mut1/patch.diff', 'C10.7')
_MD('C10', 'held-out-w5mut2-return-before-crc-comparison', '../../seeded/C10-w5mut2/patch.diff', 'C10.6')
_MD('C10', 'held-out-w5mut3-body-decoded-line-by-line', '../../seeded/C10-w5mut3/patch.diff', 'C10.6')
M('C10', 'crc-skipped-for-blocks-without-hashes', TY, "        if m['hashes'] is not None:\n            m['hashes'] = m['hashes'].split(',')", "        if m['hashes'] is None and m['headers'] is None:\n            m['body'] = bytearray(base64.b64decode(m['body'].encode()))\n            return m\n\n        if m['hashes'] is not None:\n            m['hashes'] = m['hashes'].split(',')", 'C10.6')
M('C10', 'body-decoded-per-line-comprehension', TY, "                m['body'] = bytearray(base64.b64decode(m['body'].encode()))", "                m['body'] = bytearray(b''.join(base64.b64decode(line.encode()) for line in m['body'].split('\\n')))", 'C10.6')
M('C10', 'key-magic-is-public-inverted', PGP, "        return '{:s} KEY BLOCK'.format('PUBLIC' if (isinstance(self._key, Public) and not isinstance(self._key, Private)) else", "        return '{:s} KEY BLOCK'.format('PUBLIC' if not self.is_public else", 'C10.4')

# =============================================================================================== C11
M('C11', 'escape-two-spaces', PGP, "        return re.subn(r'^-', '- -', text, flags=re.MULTILINE)[0]", "        return re.subn(r'^-', '-  -', text, flags=re.MULTILINE)[0]", 'C11.1')
M('C11', 'unescape-no-multiline', PGP, "        return re.subn(r'^- ', '', text, flags=re.MULTILINE)[0]", "        return re.subn(r'^- ', '', text)[0]", 'C11.1')
M('C11', 'escape-replace', PGP, "        return re.subn(r'^-', '- -', text, flags=re.MULTILINE)[0]", "        return text.replace('\\n-', '\\n- -')", 'C11.1')
M('C11', 'escape-only-five-dashes', PGP, "        return re.subn(r'^-', '- -', text, flags=re.MULTILINE)[0]", "        return re.subn(r'^-----', '- -----', text, flags=re.MULTILINE)[0]", 'C11.1')
M('C11', 'unescape-twice', PGP, "            self |= self.dash_unescape(unarmored['cleartext'])", "            self |= self.dash_unescape(self.dash_unescape(unarmored['cleartext']))", 'C11.2')
M('C11', 'no-escape-on-write', PGP, "                               cleartext=self.dash_escape(self.bytes_to_text(self._message)),", "                               cleartext=self.bytes_to_text(self._message),", 'C11.2')
M('C11', 'crlf-to-lf', PGP, "            _data += re.subn(br'\\r?\\n', b'\\r\\n', subject)[0]", "            _data += re.subn(br'\\r?\\n', b'\\n', subject)[0]", 'C11.4')
M('C11', 'lone-cr-converted', PGP, "            _data += re.subn(br'\\r?\\n', b'\\r\\n', subject)[0]", "            _data += re.subn(br'\\r\\n|\\r|\\n', b'\\r\\n', subject)[0]", 'C11.4')
M('C11', 'text-signed-as-binary', PGP, "            if subject.type == 'cleartext':\n                sig_type = SignatureType.CanonicalDocument\n", "", 'C11.6')
M('C11', 'sign-raw-message', PGP, "            subject = subject._signed_data\n\n        sig = PGPSignature.new", "            subject = subject.message\n\n        sig = PGPSignature.new", 'C11.4')
M('C11', 'verify-raw-message', PGP, "                    sspairs.append((sig, subject._signed_data))", "                    sspairs.append((sig, subject.message))", 'C11.4')
M('C11', 'strip-spaces-only', PGP, "            return re.subn(r'[ \\t]+(?=\\r?$)', '', self.message, flags=re.MULTILINE)[0]", "            return re.subn(r'[ ]+(?=\\r?$)', '', self.message, flags=re.MULTILINE)[0]", 'C11.4')
M('C11', 'strip-not-multiline', PGP, "            return re.subn(r'[ \\t]+(?=\\r?$)', '', self.message, flags=re.MULTILINE)[0]", "            return re.subn(r'[ \\t]+(?=\\r?$)', '', self.message)[0]", 'C11.4')
M('C11', 'hash-header-greedy-newlines', TY, "(Hash:\\ (?P<hashes>[A-Za-z0-9\\-,]+)(?:\\r?\\n){2})?", "(Hash:\\ (?P<hashes>[A-Za-z0-9\\-,]+)(?:\\r?\\n)+)?", 'C11.3')
M('C11', 'hash-alphabet-no-digits', TY, "(Hash:\\ (?P<hashes>[A-Za-z0-9\\-,]+)(?:\\r?\\n){2})?", "(Hash:\\ (?P<hashes>[A-Za-z\\-,]+)(?:\\r?\\n){2})?", 'C11.3')
M('C11', 'final-line-greedy', TY, "(?P<cleartext>(.*\\r?\\n)*(.*?(?=\\r?\\n-{5})))(?:\\r?\\n)", "(?P<cleartext>(.*\\r?\\n)*(.*(?=\\r?\\n-{5})))(?:\\r?\\n)", 'C11.7')
T('C11', 'twin-sub-instead-of-subn', PGP, "        return re.subn(r'^- ', '', text, flags=re.MULTILINE)[0]", "        return re.sub(r'^- ', '', text, flags=re.MULTILINE)")
T('C11', 'twin-strip-at-end-line', PGP, "            return re.subn(r'[ \\t]+(?=\\r?$)', '', self.message, flags=re.MULTILINE)[0]", "            return re.sub(r'[\\t ]+(?=\\r?$)', '', self.message, flags=re.MULTILINE)")

# ---- C11 hardening: twins (every family a rule was made blind to) and new mutants (one or more per rewritten rule)
_ESC = "        return re.subn(r'^-', '- -', text, flags=re.MULTILINE)[0]"
_UNE = "        return re.subn(r'^- ', '', text, flags=re.MULTILINE)[0]"
T('C11', 'twin-dash-compiled-constants', PGP, _UNE, "        unescaped = PGPMessage._dash_escaped_line.sub('', text)\n        return unescaped",
  more=[(PGP, _ESC, "        escaped = PGPMessage._dash_leading_line.sub('- -', text)\n        return escaped"),
        (PGP, "class PGPMessage(Armorable, PGPObject):\n", "class PGPMessage(Armorable, PGPObject):\n    _dash_escaped_line = re.compile(r'^- ', flags=re.MULTILINE)\n    _dash_leading_line = re.compile(r'^-', flags=re.MULTILINE)\n\n")])
T('C11', 'twin-dash-inline-flag-positional', PGP, _ESC, "        return re.sub(r'(?m)^-', '- -', text)",
  more=[(PGP, _UNE, "        return re.sub('^- ', '', text, 0, re.M)")])
T('C11', 'twin-dash-group-backreference', PGP, _ESC, "        return re.sub(r'^(-)', r'- \\1', text, flags=re.MULTILINE)")
T('C11', 'twin-dash-whole-match-reference', PGP, _ESC, "        return re.sub(r'^-', r'- \\g<0>', text, flags=re.M)")
T('C11', 'twin-dash-lookahead-insert', PGP, _ESC, "        return re.sub(r'^(?=-)', '- ', text, flags=re.MULTILINE)")
M('C11', 'escape-first-match-only', PGP, _ESC, "        return re.subn(r'^-', '- -', text, count=1, flags=re.MULTILINE)[0]", 'C11.1')
M('C11', 'escape-start-of-text-only', PGP, _ESC, "        return re.subn(r'\\A-', '- -', text, flags=re.MULTILINE)[0]", 'C11.1')
M('C11', 'escape-drops-dash', PGP, _ESC, "        return re.subn(r'^-', '- ', text, flags=re.MULTILINE)[0]", 'C11.1')
M('C11', 'unescape-optional-space', PGP, _UNE, "        return re.subn(r'^- ?', '', text, flags=re.MULTILINE)[0]", 'C11.1')
M('C11', 'unescape-only-before-dash', PGP, _UNE, "        return re.subn(r'^- (?=-)', '', text, flags=re.MULTILINE)[0]", 'C11.1')
M('C11', 'unescape-any-dash-space', PGP, _UNE, "        return re.subn(r'- ', '', text, flags=re.MULTILINE)[0]", 'C11.1')
M('C11', 'unescape-other-text', PGP, _UNE, "        return re.subn(r'^- ', '', text.strip(), flags=re.MULTILINE)[0]", 'C11')

_MSTR = """        if self.type == 'cleartext':
            tmpl = u"-----BEGIN PGP SIGNED MESSAGE-----\\n" \\
                   u"{hhdr:s}\\n" \\
                   u"{cleartext:s}\\n" \\
                   u"{signature:s}"

            # only add a Hash: header if we actually have at least one signature
            hashes = set(s.hash_algorithm.name for s in self.signatures)
            hhdr = 'Hash: {hashes:s}\\n'.format(hashes=','.join(sorted(hashes))) if hashes else ''

            return tmpl.format(hhdr=hhdr,
                               cleartext=self.dash_escape(self.bytes_to_text(self._message)),
                               signature=super(PGPMessage, self).__str__())

        return super(PGPMessage, self).__str__()
"""
T('C11', 'twin-str-early-return-concat', PGP, _MSTR, """        if self.type != 'cleartext':
            return super(PGPMessage, self).__str__()

        hash_names = {sig.hash_algorithm.name for sig in self.signatures}
        if hash_names:
            hash_header = 'Hash: ' + ','.join(sorted(hash_names)) + '\\n'
        else:
            hash_header = ''

        escaped_text = self.dash_escape(self.bytes_to_text(self._message))
        signature_block = super(PGPMessage, self).__str__()

        return u"-----BEGIN PGP SIGNED MESSAGE-----\\n{hhdr:s}\\n{cleartext:s}\\n{signature:s}".format(
            hhdr=hash_header, cleartext=escaped_text, signature=signature_block)
""")
T('C11', 'twin-str-fstring-list', PGP, _MSTR, """        armor = super().__str__()
        if self.type == 'cleartext':
            names = sorted(set([s.hash_algorithm.name for s in self._signatures]))
            out = '-----BEGIN PGP SIGNED MESSAGE-----\\n'
            if len(names) > 0:
                out += f"Hash: {','.join(names)}\\n"
            out += '\\n' + self.dash_escape(self.message) + '\\n'
            return out + armor

        return armor
""")
T('C11', 'twin-str-percent', PGP, "            hhdr = 'Hash: {hashes:s}\\n'.format(hashes=','.join(sorted(hashes))) if hashes else ''",
  "            hhdr = ''\n            if hashes:\n                hhdr = 'Hash: %s\\n' % ','.join(sorted(hashes))")
M('C11', 'hash-header-space-separated', PGP, "hashes=','.join(sorted(hashes))", "hashes=', '.join(sorted(hashes))", 'C11.3')
M('C11', 'hash-header-first-signature-only', PGP, "            hashes = set(s.hash_algorithm.name for s in self.signatures)", "            hashes = set(s.hash_algorithm.name for s in self.signatures[:1])", 'C11.3')
M('C11', 'hash-header-lowercase', PGP, "            hashes = set(s.hash_algorithm.name for s in self.signatures)", "            hashes = set(s.hash_algorithm.name.lower() for s in self.signatures)", 'C11.3')
M('C11', 'hash-header-when-empty', PGP, "if hashes else ''", "if not hashes else ''", 'C11.3')
M('C11', 'hash-header-no-blank-line', PGP, "                   u\"{hhdr:s}\\n\" \\\n", "                   u\"{hhdr:s}\" \\\n", 'C11.3')
M('C11', 'escape-twice-on-write', PGP, "cleartext=self.dash_escape(self.bytes_to_text(self._message)),", "cleartext=self.dash_escape(self.dash_escape(self.bytes_to_text(self._message))),", 'C11.2')
M('C11', 'write-raw-message-bytes', PGP, "cleartext=self.dash_escape(self.bytes_to_text(self._message)),", "cleartext=self.dash_escape(str(self._message)),", 'C11.2')
M('C11', 'hash-reader-no-dash', TY, "(Hash:\\ (?P<hashes>[A-Za-z0-9\\-,]+)(?:\\r?\\n){2})?", "(Hash:\\ (?P<hashes>[A-Za-z0-9_]+)(?:\\r?\\n){2})?", 'C11.3')
M('C11', 'hash-reader-one-newline', TY, "(Hash:\\ (?P<hashes>[A-Za-z0-9\\-,]+)(?:\\r?\\n){2})?", "(Hash:\\ (?P<hashes>[A-Za-z0-9\\-,]+)(?:\\r?\\n))?", 'C11.3')
T('C11', 'twin-regex-newlines-spelled-out', TY, "(Hash:\\ (?P<hashes>[A-Za-z0-9\\-,]+)(?:\\r?\\n){2})?", "(Hash:\\ (?P<hashes>[-,0-9A-Za-z]+)\\r?\\n(?:\\r\\n|\\n))?",
  more=[(TY, "(^-{5}BEGIN\\ PGP\\ SIGNED\\ MESSAGE-{5}(?:\\r?\\n)", "(^-{5}BEGIN\\ PGP\\ SIGNED\\ MESSAGE-{5}\\r?\\n"),
        (TY, "(?P<cleartext>(.*\\r?\\n)*(.*?(?=\\r?\\n-{5})))(?:\\r?\\n)", "(?P<cleartext>(?:.*\\r?\\n)*(?:.*?(?=\\r?\\n-----)))\\r?\\n")])
M('C11', 'final-line-greedy-noncapturing', TY, "(?P<cleartext>(.*\\r?\\n)*(.*?(?=\\r?\\n-{5})))(?:\\r?\\n)", "(?P<cleartext>(?:.*\\r?\\n)*(?:.*(?=\\r?\\n-{5})))(?:\\r?\\n)", 'C11.7')

T('C11', 'twin-parse-unescape-temporary', PGP, "            self |= self.dash_unescape(unarmored['cleartext'])", "            text = unarmored['cleartext']\n            text = self.dash_unescape(text)\n            self |= text")
M('C11', 'unescape-stripped-group', PGP, "            self |= self.dash_unescape(unarmored['cleartext'])", "            self |= self.dash_unescape(unarmored['cleartext'].strip())", 'C11.2')
M('C11', 'unescape-result-dropped', PGP, "            self |= self.dash_unescape(unarmored['cleartext'])", "            self.dash_unescape(unarmored['cleartext'])\n            self |= unarmored['cleartext']", 'C11.2')

_SD = "            return re.subn(r'[ \\t]+(?=\\r?$)', '', self.message, flags=re.MULTILINE)[0]"
T('C11', 'twin-signed-data-compiled-inline-flag', PGP, _SD, "            stripped = PGPMessage._trailing_blanks.sub('', self.message)\n            return stripped",
  more=[(PGP, "class PGPMessage(Armorable, PGPObject):\n", "class PGPMessage(Armorable, PGPObject):\n    _trailing_blanks = re.compile(r'(?m)[\\t ]+(?=\\r?$)')\n\n")])
T('C11', 'twin-signed-data-ifexp', PGP, "        if self.type == 'cleartext':\n            # RFC 4880 7.1: trailing spaces and tabs of each line are not part of the signed text\n" + _SD + "\n\n        return self.message",
  "        return re.sub('[ \\t]+(?=\\r?$)', '', self.message, flags=re.M) if self.type == 'cleartext' else self.message")
M('C11', 'strip-star', PGP, _SD, "            return re.subn(r'[ \\t]*(?=\\r?$)', 'x', self.message, flags=re.MULTILINE)[0]", 'C11.4')
M('C11', 'strip-before-newline-only', PGP, _SD, "            return re.subn(r'[ \\t]+(?=\\r?\\n)', '', self.message, flags=re.MULTILINE)[0]", 'C11.4')
M('C11', 'strip-first-line-only', PGP, _SD, "            return re.subn(r'[ \\t]+(?=\\r?$)', '', self.message, count=1, flags=re.MULTILINE)[0]", 'C11.4')
M('C11', 'strip-all-whitespace-class', PGP, _SD, "            return re.subn(r'[ \\t\\r]+(?=\\r?$)', '', self.message, flags=re.MULTILINE)[0]", 'C11.4')
M('C11', 'strip-applied-to-literal-too', PGP, "            return re.subn(r'[ \\t]+(?=\\r?$)', '', self.message, flags=re.MULTILINE)[0]\n\n        return self.message",
  "            return re.subn(r'[ \\t]+(?=\\r?$)', '', self.message, flags=re.MULTILINE)[0]\n\n        return self.message.strip()", 'C11.4')

_SIGN = """        sig_type = SignatureType.BinaryDocument
        hash_algo = prefs.pop('hash', None)

        if subject is None:
            sig_type = SignatureType.Timestamp

        if isinstance(subject, PGPMessage):
            if subject.type == 'cleartext':
                sig_type = SignatureType.CanonicalDocument

            subject = subject._signed_data

        sig = PGPSignature.new(sig_type, self.key_algorithm, hash_algo, self.fingerprint.keyid, created=prefs.pop('created', None))
"""
T('C11', 'twin-sign-if-chain', PGP, _SIGN, """        hash_algo = prefs.pop('hash', None)

        if subject is None:
            sig_type = SignatureType.Timestamp

        elif isinstance(subject, PGPMessage):
            is_cleartext = subject.type == 'cleartext'
            sig_type = SignatureType.CanonicalDocument if is_cleartext else SignatureType.BinaryDocument
            subject = subject._signed_data

        else:
            sig_type = SignatureType.BinaryDocument

        sig = PGPSignature.new(sig_type, self.key_algorithm, hash_algo, self.fingerprint.keyid,
                               created=prefs.pop('created', None))
""", more=[(PGP, "            _data += re.subn(br'\\r?\\n', b'\\r\\n', subject)[0]", "            canonical = re.sub(br'\\r?\\n', b'\\r\\n', subject)\n            _data += canonical")])
M('C11', 'sign-view-only-for-literal', PGP, "                sig_type = SignatureType.CanonicalDocument\n\n            subject = subject._signed_data", "                sig_type = SignatureType.CanonicalDocument\n                subject = subject.message\n\n            else:\n                subject = subject._signed_data", 'C11.4')
M('C11', 'cleartext-signed-as-standalone', PGP, "                sig_type = SignatureType.CanonicalDocument\n", "                sig_type = SignatureType.Standalone\n", 'C11.6')
M('C11', 'literal-signed-as-text', PGP, "        if isinstance(subject, PGPMessage):\n            if subject.type == 'cleartext':\n                sig_type = SignatureType.CanonicalDocument", "        if isinstance(subject, PGPMessage):\n            if subject.type in ('cleartext', 'literal'):\n                sig_type = SignatureType.CanonicalDocument", 'C11.6')

T('C11', 'twin-verify-extend-generators', PGP, "                for sig in _filter_sigs(subject.signatures):\n                    sspairs.append((sig, subject._signed_data))",
  "                sspairs.extend((sig, subject._signed_data) for sig in _filter_sigs(subject.signatures))")
T('C11', 'twin-verify-view-in-local', PGP, "                for sig in _filter_sigs(subject.signatures):\n                    sspairs.append((sig, subject._signed_data))",
  "                signed_view = subject._signed_data\n                sspairs += [(s, signed_view) for s in _filter_sigs(subject.signatures)]")
M('C11', 'verify-stripped-message', PGP, "                    sspairs.append((sig, subject._signed_data))", "                    sspairs.append((sig, subject.message.rstrip()))", 'C11.4')
M('C11', 'verify-message-object', PGP, "                    sspairs.append((sig, subject._signed_data))", "                    sspairs.append((sig, subject))", 'C11.4')
T('C11', 'twin-str-hash-header-if-signatures', PGP, "            hhdr = 'Hash: {hashes:s}\\n'.format(hashes=','.join(sorted(hashes))) if hashes else ''",
  "            hhdr = ''\n            if self.signatures:\n                hhdr = 'Hash: ' + ','.join(sorted(hashes)) + '\\n'")
M('C11', 'hash-header-if-no-signatures', PGP, "            hhdr = 'Hash: {hashes:s}\\n'.format(hashes=','.join(sorted(hashes))) if hashes else ''",
  "            hhdr = ''\n            if not self.signatures:\n                hhdr = 'Hash: ' + ','.join(sorted(hashes)) + '\\n'", 'C11.3')
T('C11', 'twin-dash-per-line-str-methods', PGP, _ESC, "        return '\\n'.join('- ' + line if line.startswith('-') else line for line in text.split('\\n'))",
  more=[(PGP, _UNE, "        return '\\n'.join(line.removeprefix('- ') for line in text.split('\\n'))")])
M('C11', 'escape-per-line-wrong-prefix-test', PGP, _ESC, "        return '\\n'.join('- ' + line if line.startswith('--') else line for line in text.split('\\n'))", 'C11.1')
M('C11', 'unescape-per-line-removes-dash-only', PGP, _UNE, "        return '\\n'.join(line.removeprefix('-') for line in text.split('\\n'))", 'C11.1')

for _i, _what in enumerate(('sub-everywhere-early-return', 'precompiled-class-constants', 'inline-flag-merged-template-concat', 'positional-count-flags-if-chain-listcomp',
                            'regex-respellings-percent-bound-super', 'lookahead-insert-mangled-template-fstring', 'inverted-view-flag-extend-generator',
                            'mangled-compiled-join-parts', 'verify-hoisted-view-local-compile', 'nonraw-patterns-positional-fields-count0'), 1):
    _TD('C11', 'stress-D-twin%02d-%s' % (_i, _what), 'G9-D-twin%02d.diff' % _i)
for _i, (_what, _r) in enumerate((('escape-str-replace-first-line', 'C11.1'), ('unescape-flag-in-count-position', 'C11.1'), ('text-literal-signed-as-canonical', 'C11.6'),
                                  ('strip-misses-last-line', 'C11.4'), ('hash-header-lowercase-hasher-name', 'C11.3'), ('blank-line-folded-into-hash-header', 'C11.3'),
                                  ('verify-raw-message', 'C11.4'), ('lone-cr-canonicalised', 'C11.4')), 1):
    _MD('C11', 'stress-D-mut%02d-%s' % (_i, _what), 'G9-D-mut%02d.diff' % _i, _r)
for _i in range(1, 11):
    _TD('C11', 'stress-B-twin%02d-reader-regex-respelling' % _i, 'G9-B-twin%02d.diff' % _i)
for _i, _what, _r in ((7, 'hash-framing-two-or-more', 'C11.3'), (8, 'final-cleartext-line-greedy', 'C11.7')):
    _MD('C11', 'stress-B-mut%02d-%s' % (_i, _what), 'G9-B-mut%02d.diff' % _i, _r)

# ---- C11 wave-2 lessons: dedup / limits while reading, normalisation on load
_ATTACH = "                self |= PGPSignature() | pkt\n"
M('C11', 'duplicate-signer-time-skipped', PGP, _ATTACH, "                sig = PGPSignature() | pkt\n                if any(s.signer == sig.signer and s.created == sig.created for s in self._signatures):\n                    continue\n                self |= sig\n", 'C11.2')
M('C11', 'only-first-signature-read', PGP, _ATTACH, "                if len(self._signatures) >= 1:\n                    continue\n                self |= PGPSignature() | pkt\n", 'C11.2')
M('C11', 'signature-loop-stops-after-one', PGP, _ATTACH, "                self |= PGPSignature() | pkt\n                break\n", 'C11.2')
T('C11', 'twin-signature-loop-if-else', PGP, "                if not isinstance(pkt, Signature):  # pragma: no cover\n                    warnings.warn(\"Discarded unexpected packet: {:s}\".format(pkt.__class__.__name__), stacklevel=2)\n                    continue\n                self |= PGPSignature() | pkt\n",
  "                if isinstance(pkt, Signature):\n                    sig = PGPSignature()\n                    sig |= pkt\n                    self |= sig\n                else:  # pragma: no cover\n                    warnings.warn(\"Discarded unexpected packet: {:s}\".format(pkt.__class__.__name__), stacklevel=2)\n")
M('C11', 'cleartext-line-endings-normalised-on-load', TY, "        if m['hashes'] is not None:\n            m['hashes'] = m['hashes'].split(',')", "        if m['hashes'] is not None:\n            m['hashes'] = m['hashes'].split(',')\n\n        if m['cleartext'] is not None:\n            m['cleartext'] = m['cleartext'].replace('\\r\\n', '\\n')", 'C11.2')
M('C11', 'cleartext-rstripped-in-parse', PGP, "            self |= self.dash_unescape(unarmored['cleartext'])", "            self |= self.dash_unescape(unarmored['cleartext']).rstrip()", 'C11.2')
M('C11', 'hash-header-first-digest-only', PGP, "hashes=','.join(sorted(hashes))", "hashes=','.join(sorted(hashes)[:1])", 'C11.3')
M('C11', 'unescape-any-whitespace-after-dash', PGP, "        return re.subn(r'^- ', '', text, flags=re.MULTILINE)[0]", "        return re.subn(r'^-\\s', '', text, flags=re.MULTILINE)[0]", 'C11.1')
M('C11', 'escape-case-from-lines-too', PGP, "        return re.subn(r'^-', '- -', text, flags=re.MULTILINE)[0]", "        return re.subn(r'^-', '- -', text.strip(), flags=re.MULTILINE)[0]", 'C11.1')

# ---- C11 wave-3 lessons: what `.` matches, line-start relations
_CT = "(?P<cleartext>(.*\\r?\\n)*(.*?(?=\\r?\\n-{5})))(?:\\r?\\n)"
M('C11', 'cleartext-final-line-plain-dot-star', TY, _CT, "(?P<cleartext>(.*\\r?\\n)*(.*))(?:\\r?\\n)", 'C11.7')
M('C11', 'cleartext-lookahead-lf-only', TY, _CT, "(?P<cleartext>(.*\\r?\\n)*(.+?(?=\\n-{5})))(?:\\r?\\n)", 'C11.7')
M('C11', 'cleartext-final-line-not-newline-class', TY, _CT, "(?P<cleartext>(.*\\r?\\n)*([^\\n]*))(?:\\r?\\n)", 'C11.7')
M('C11', 'cleartext-includes-final-line-ending', TY, _CT, "(?P<cleartext>(.*\\r?\\n)*(.*?(?=\\r?\\n-{5}))(?:\\r?\\n))", 'C11.7')
T('C11', 'twin-cleartext-final-line-respelled', TY, _CT, "(?P<cleartext>(?:.*\\r?\\n)*(?:.*?(?=(?:\\r\\n|\\n)-----)))(?:\\r\\n|\\n)")
M('C11', 'hash-framing-second-newline-optional', TY, "(Hash:\\ (?P<hashes>[A-Za-z0-9\\-,]+)(?:\\r?\\n){2})?", "(Hash:\\ (?P<hashes>[A-Za-z0-9\\-,]+)(?:\\r?\\n)(?:\\r?\\n)?)?", 'C11.3')
M('C11', 'unescape-over-splitlines-keepends', PGP, _UNE, "        return ''.join(line[2:] if line.startswith('- ') else line for line in text.splitlines(True))", 'C11.1')
M('C11', 'escape-over-splitlines', PGP, _ESC, "        return '\\n'.join(('- ' + line if line.startswith('-') else line) for line in text.splitlines())", 'C11.1')
T('C11', 'twin-unescape-per-line-conditional-slice', PGP, _UNE, "        return '\\n'.join(line[2:] if line.startswith('- ') else line for line in text.split('\\n'))")
M('C11', 'unescape-per-line-slice-three', PGP, _UNE, "        return '\\n'.join(line[3:] if line.startswith('- ') else line for line in text.split('\\n'))", 'C11.1')
M('C11', 'escape-after-newline-lookbehind', PGP, _ESC, "        return re.sub(r'(?<=\\n)-', '- -', text)", 'C11.1')
M('C11', 'unescape-after-cr-or-lf', PGP, _UNE, "        return re.sub(r'(?:^|(?<=[\\r\\n]))- ', '', text)", 'C11.1')
M('C11', 'escape-split-on-crlf', PGP, _ESC, "        return '\\r\\n'.join(('- ' + line if line.startswith('-') else line) for line in text.split('\\r\\n'))", 'C11.1')

# ---- C11 wave-4 lessons: fast paths that return the text untouched, replacement callables
T('C11', 'twin-dash-fast-paths-callable-replacement', PGP, _ESC, "        if type(text) is str and '-' not in text:\n            return text\n\n        return re.subn(r'^-', lambda m: '- ' + m.group(0), text, flags=re.MULTILINE)[0]",
  more=[(PGP, _UNE, "        if type(text) is str and '- ' not in text:\n            return text\n\n        return re.subn(r'^- ', '', text, count=0, flags=re.MULTILINE)[0]")])
T('C11', 'twin-dash-new-defaulted-parameters', PGP, "    def dash_escape(text):\n" + _ESC, "    def dash_escape(text, prefix='- '):\n        if type(text) is str and '-' not in text:\n            return text\n\n        return re.subn(r'^-', lambda m: prefix + m.group(0), text, flags=re.MULTILINE)[0]",
  more=[(PGP, "    def dash_unescape(text):\n" + _UNE, "    def dash_unescape(text, count=0):\n        if '-' in text:\n            return re.subn(r'^- ', '', text, count=count, flags=re.MULTILINE)[0]\n        return text")])
M('C11', 'escape-fast-path-first-character-only', PGP, _ESC, "        if not text.startswith('-'):\n            return text\n\n        return re.subn(r'^-', '- -', text, flags=re.MULTILINE)[0]", 'C11.1')
M('C11', 'escape-fast-path-no-five-dashes', PGP, _ESC, "        if '-----' not in text:\n            return text\n\n        return re.subn(r'^-', '- -', text, flags=re.MULTILINE)[0]", 'C11.1')
M('C11', 'unescape-fast-path-no-dash-dash', PGP, _UNE, "        if '- -' not in text:\n            return text\n\n        return re.subn(r'^- ', '', text, flags=re.MULTILINE)[0]", 'C11.1')
M('C11', 'escape-fast-path-inverted', PGP, _ESC, "        if '-' in text:\n            return text\n\n        return re.subn(r'^-', '- -', text, flags=re.MULTILINE)[0]", 'C11.1')
M('C11', 'escape-callable-drops-the-dash', PGP, _ESC, "        return re.subn(r'^-', lambda m: '- ', text, flags=re.MULTILINE)[0]", 'C11.1')
M('C11', 'escape-callable-wrong-prefix', PGP, _ESC, "        return re.subn(r'^-', lambda m: '-' + m.group(0), text, flags=re.MULTILINE)[0]", 'C11.1')
M('C11', 'hashdata-fast-path-no-crlf', PGP, "            _data += re.subn(br'\\r?\\n', b'\\r\\n', subject)[0]", "            if b'\\r\\n' not in subject:\n                _data += subject\n            else:\n                _data += re.subn(br'\\r?\\n', b'\\r\\n', subject)[0]", 'C11.4')
T('C11', 'twin-hashdata-fast-path-no-lf', PGP, "            _data += re.subn(br'\\r?\\n', b'\\r\\n', subject)[0]", "            if isinstance(subject, (bytes, bytearray)) and b'\\n' not in subject:\n                _data += subject\n            else:\n                _data += re.subn(br'\\r?\\n', b'\\r\\n', subject)[0]")

# ---- C11 wave-5 lessons: a cleartext message stays uncompressed
M('C11', 'cleartext-new-honours-compression', PGP, "            msg |= lit\n            msg._compression = compression\n", "            msg |= lit\n\n        msg._compression = compression\n", 'C11.2')
M('C11', 'cleartext-new-compression-before-split', PGP, "        if charset:\n            msg.charset = charset\n", "        if charset:\n            msg.charset = charset\n\n        if compression is not None:\n            msg._compression = compression\n", 'C11.2')
T('C11', 'twin-new-compression-only-for-literal-else-branch', PGP, "        if cleartext:\n            msg |= message\n\n        else:", "        if cleartext:\n            msg |= message\n            msg._compression = CompressionAlgorithm.Uncompressed\n\n        else:")
T('C11', 'twin-new-compression-stored-but-export-skips-cleartext', PGP, "            msg |= lit\n            msg._compression = compression\n", "            msg |= lit\n\n        msg._compression = compression\n",
  more=[(PGP, "    def __bytearray__(self):\n        if self.is_compressed:\n            comp = CompressedData()", "    def __bytearray__(self):\n        if self.is_compressed and self.type != 'cleartext':\n            comp = CompressedData()")])

# ---- C11 wave-6 lessons
_MD('C11', 'held-out-w5mut2-input-crlf-normalised-before-matching', '../../seeded/C11-w5mut2/patch.diff', 'C11.2')
M('C11', 'input-stripped-before-matching', TY, "        m = Armorable.__armor_regex.search(text)\n", "        m = Armorable.__armor_regex.search(text.strip() + '\\n')\n", 'C11.2')

# =============================================================================================== C09
M('C09', 'enc-191', TY, "            if 192 > nl:\n                return Header.int_to_bytes(nl)", "            if 191 > nl:\n                return Header.int_to_bytes(nl)", 'C09.1')
M('C09', 'enc-8383', TY, "            elif 8384 > nl:\n                elen", "            elif 8383 > nl:\n                elen", 'C09.1')
M('C09', 'dec-223', TY, "                elif 224 > fo:  # >= 192 is implied", "                elif 223 > fo:  # >= 192 is implied", 'C09.1')
M('C09', 'llen-8383', TY, "            elif 8384 > self.length:  # >= 192 is implied\n                return 2", "            elif 8383 > self.length:  # >= 192 is implied\n                return 2", 'C09.1')
M('C09', 'partial-mask', TY, "                    return (1 << (fo & 0x1f), 1, True)", "                    return (1 << (fo & 0x0f), 1, True)", 'C09.1')
M('C09', 'two-octet-formula', TY, "                elen = ((nl & 0xFF00) + (192 << 8)) + ((nl & 0xFF) - 192)", "                elen = ((nl & 0xFF00) + (192 << 8)) + (nl & 0xFF)", 'C09.1')
M('C09', 'two-octet-decode', TY, "                    return (((dlen - (192 << 8)) & 0xFF00) + ((dlen & 0xFF) + 192), 2, False)", "                    return (((dlen - (192 << 8)) & 0xFF00) + (dlen & 0xFF), 2, False)", 'C09.1')
M('C09', 'old-widen-gt', TY, "            while 0 < llen < 4 and self.length >= (1 << (8 * llen)):", "            while 0 < llen < 4 and self.length > (1 << (8 * llen)):", 'C09.2')
M('C09', 'old-width-frozen', TY, "            llen = self._llen\n            while 0 < llen < 4 and self.length >= (1 << (8 * llen)):\n                llen *= 2\n            return llen", "            return self._llen", 'C09.2')
M('C09', 'mpi-bits-plus-8', PT, "            fl = ((MPIs.bytes_to_int(num[:2]) + 7) // 8)", "            fl = ((MPIs.bytes_to_int(num[:2]) + 8) // 8)", 'C09.3')
M('C09', 'mpi-bytelen', PT, "        return ((self.bit_length() + 7) // 8)", "        return (self.bit_length() // 8) + 1", 'C09.3')
M('C09', 'count-bias', FL, "        return (16 + (self._count & 15)) << ((self._count >> 4) + 6)", "        return (16 + (self._count & 15)) << ((self._count >> 4) + 5)", 'C09.4')
M('C09', 'timetuple-again', PK, "        _bytes += self.int_to_bytes(calendar.timegm(self.mtime.utctimetuple()), 4)", "        _bytes += self.int_to_bytes(calendar.timegm(self.mtime.timetuple()), 4)", 'C09.5')
M('C09', 'timestamp-method', SS, "        _bytes += self.int_to_bytes(calendar.timegm(self.created.utctimetuple()), 4)", "        _bytes += self.int_to_bytes(int(self.created.timestamp()), 4)", 'C09.5')
M('C09', 'reader-naive', PK, "    def created_int(self, val):\n        self.created = datetime.fromtimestamp(val, timezone.utc)", "    def created_int(self, val):\n        self.created = datetime.fromtimestamp(val)", 'C09.5')
M('C09', 'critical-bit-6', ST, "        _bytes += self.int_to_bytes((int(self.critical) << 7) + self.typeid)", "        _bytes += self.int_to_bytes((int(self.critical) << 6) + self.typeid)", 'C09.6')
M('C09', 'typeid-mask', ST, "        self._typeid = val & 0x7f", "        self._typeid = val & 0x3f", 'C09.6')
M('C09', 'int-to-bytes-little', TY, "        blen = max(minlen, PGPObject.int_byte_len(i), 1)\n\n        return i.to_bytes(blen, order)", "        blen = max(minlen, PGPObject.int_byte_len(i))\n\n        return i.to_bytes(blen, order)", 'C09.7')
M('C09', 'type-map', PT, "{1: 0, 2: 1, 4: 2, 0: 3}[self.llen]", "{1: 0, 2: 1, 4: 3, 0: 2}[self.llen]", 'C09.2')
T('C09', 'twin-thresholds-flipped', TY, "            if 192 > nl:\n                return Header.int_to_bytes(nl)", "            if nl < 192:\n                return Header.int_to_bytes(nl)")
T('C09', 'twin-widen-form', TY, "            while 0 < llen < 4 and self.length >= (1 << (8 * llen)):", "            while 0 < llen < 4 and self.length > (1 << (8 * llen)) - 1:")

# --- C09 hardening: behaviour-preserving rewrites of every anchored codec (must stay silent) ...
_ENC = ("        def _new_length(nl):\n            if 192 > nl:\n                return Header.int_to_bytes(nl)\n\n            elif 8384 > nl:\n"
        "                elen = ((nl & 0xFF00) + (192 << 8)) + ((nl & 0xFF) - 192)\n                return Header.int_to_bytes(elen, 2)\n\n"
        "            return b'\\xFF' + Header.int_to_bytes(nl, 4)\n\n        def _old_length(nl, llen):\n"
        "            return Header.int_to_bytes(nl, llen) if llen > 0 else b''\n\n        return _new_length(length) if nhf else _old_length(length, llen)\n")
T('C09', 'twin-enc-flat-high-low', TY, _ENC,
  "        if not nhf:\n            if llen > 0:\n                return Header.int_to_bytes(length, llen)\n            return b''\n\n        if 192 > length:\n"
  "            return Header.int_to_bytes(length)\n\n        if 8384 > length:\n            high = (length & 0xFF00) + (192 << 8)\n            low = (length & 0xFF) - 192\n"
  "            return Header.int_to_bytes(high + low, 2)\n\n        return b'\\xFF' + Header.int_to_bytes(length, 4)\n")
T('C09', 'twin-enc-divmod-bytes', TY, _ENC,
  "        if not nhf:\n            return length.to_bytes(max(llen, (length.bit_length() + 7) // 8), 'big') if llen > 0 else b''\n        if length < 192:\n"
  "            return bytes([length])\n        if length < 8384:\n            hi, lo = divmod(length - 192, 256)\n            return bytes([hi + 192, lo])\n"
  "        return struct.pack('>BI', 0xFF, length) if length < (1 << 32) else b'\\xFF' + Header.int_to_bytes(length, 4)\n",
  more=[(TY, "import abc\n", "import abc\nimport struct\n")])
_PARSE_LEN_CALLS = "            part_len, size, partial = _parse_len(b)\n            del b[:size]\n\n            if partial:\n                total = part_len\n                while partial:\n                    part_len, size, partial = _parse_len(b, total)\n                    del b[total:total + size]\n                    total += part_len\n                self._len = total\n            else:\n                self._len = part_len\n"
T('C09', 'twin-dec-merged-tail', TY, _PARSE_LEN_CALLS,
  "            total, size, partial = _parse_len(b)\n            del b[:size]\n\n            while partial:\n                part_len, size, partial = _parse_len(b, total)\n"
  "                del b[total:total + size]\n                total += part_len\n\n            self._len = total\n")
T('C09', 'twin-dec-while-true', TY, _PARSE_LEN_CALLS,
  "            chunk, width, more = _parse_len(b)\n            del b[:width]\n            body = chunk\n            while True:\n                if not more:\n                    break\n"
  "                chunk, width, more = _parse_len(b, body)\n                del b[body:body + width]\n                body = body + chunk\n            self._len = body\n")
T('C09', 'twin-dec-partial-sub', TY, "                    return (1 << (fo & 0x1f), 1, True)", "                    return (2 ** (fo - 224), 1, True)")
T('C09', 'twin-dec-two-octet-rfc-form', TY, "                    dlen = self.bytes_to_int(b[offset:offset + 2])\n                    return (((dlen - (192 << 8)) & 0xFF00) + ((dlen & 0xFF) + 192), 2, False)",
  "                    return (((fo - 192) << 8) + b[offset + 1] + 192, 2, False)")
T('C09', 'twin-dec-from-bytes', TY, "                    return (self.bytes_to_int(b[offset + 1:offset + 5]), 5, False)", "                    return (int.from_bytes(b[offset + 1:offset + 5], 'big'), 5, False)")
T('C09', 'twin-llen-from-encoder', TY, "            if 192 > self.length:\n                return 1\n\n            elif 8384 > self.length:  # >= 192 is implied\n                return 2\n\n            else:\n                return 5\n",
  "            return len(self.encode_length(self.length))\n")
T('C09', 'twin-llen-old-ifs', TY, "            llen = self._llen\n            while 0 < llen < 4 and self.length >= (1 << (8 * llen)):\n                llen *= 2\n            return llen",
  "            width = self._llen\n            if width == 1 and self.length > 0xFF:\n                width = 2\n            if width == 2 and self.length > 0xFFFF:\n                width = 4\n            return width")
T('C09', 'twin-lenmap-class-consts', TY, "            self._llen = {0: 1, 1: 2, 2: 4, 3: 0}[val]", "            self._llen = self._LENTYPE_TO_LLEN[val]",
  more=[(TY, "class Header(Field):\n    @staticmethod\n    def encode_length", "class Header(Field):\n    _LENTYPE_TO_LLEN = {0: 1, 1: 2, 2: 4, 3: 0}\n\n    @staticmethod\n    def encode_length"),
        (PT, "        tag |= (self.tag) if self._lenfmt else ((self.tag << 2) | {1: 0, 2: 1, 4: 2, 0: 3}[self.llen])\n\n        _bytes = bytearray(self.int_to_bytes(tag))\n        _bytes += self.encode_length(self.length, self._lenfmt, self.llen)\n        return _bytes",
         "        if self._lenfmt:\n            tag |= self.tag\n        else:\n            tag |= (self.tag << 2) | self._LLEN_TO_LENTYPE[self.llen]\n\n        return bytearray(self.int_to_bytes(tag)) + self.encode_length(self.length, self._lenfmt, self.llen)"),
        (PT, "    def __bytearray__(self):\n        tag = 0x80 | (self._lenfmt << 6)", "    _LLEN_TO_LENTYPE = {1: 0, 2: 1, 4: 2, 0: 3}\n\n    def __bytearray__(self):\n        tag = 0x80 | (self._lenfmt << 6)")])
T('C09', 'twin-lentype-arith', PT, "{1: 0, 2: 1, 4: 2, 0: 3}[self.llen]", "(self.llen.bit_length() - 1) % 4")
T('C09', 'twin-old-len-local-width', TY, "            if self.llen > 0:\n                self._len = self.bytes_to_int(b[:self.llen])\n                del b[:self.llen]\n",
  "            width = self.llen\n            if width > 0:\n                field = b[:width]\n                del b[:width]\n                self._len = self.bytes_to_int(field)\n")
T('C09', 'twin-packet-parse-first-octet', PT, "        self._lenfmt = ((packet[0] & 0x40) >> 6)\n        self.tag = packet[0]\n        if self._lenfmt == 0:\n            self.llen = (packet[0] & 0x03)\n        del packet[0]\n\n        if (self._lenfmt == 0 and self.llen > 0) or self._lenfmt == 1:\n            self.length = packet\n\n        else:\n            # indeterminate packet length\n            self.length = len(packet)",
  "        first_octet = packet[0]\n        self._lenfmt = (first_octet >> 6) & 1\n        self.tag = first_octet\n        if self._lenfmt == 0:\n            self.llen = first_octet % 4\n        del packet[0]\n\n        has_length_field = self._lenfmt == 1 or (self._lenfmt == 0 and self.llen > 0)\n        if not has_length_field:\n            self.length = len(packet)\n\n        else:\n            self.length = packet")
T('C09', 'twin-tag-int-if-shift', PT, "        _tag = (val & 0x3F) if self._lenfmt else ((val & 0x3C) >> 2)", "        if self._lenfmt:\n            _tag = val % 64\n        else:\n            _tag = (val >> 2) & 0x0F")
T('C09', 'twin-packet-header-append', PT, "        _bytes = bytearray(self.int_to_bytes(tag))\n        _bytes += self.encode_length(self.length, self._lenfmt, self.llen)\n        return _bytes",
  "        _bytes = bytearray()\n        _bytes.append(tag)\n        _bytes.extend(self.encode_length(self.length, nhf=self._lenfmt, llen=self.llen))\n        return _bytes")
T('C09', 'twin-mpi-readable', PT, "        mpi = num\n\n        if isinstance(num, (bytes, bytearray)):\n            if isinstance(num, bytes):  # pragma: no cover\n                num = bytearray(num)\n\n            fl = ((MPIs.bytes_to_int(num[:2]) + 7) // 8)\n            del num[:2]\n\n            mpi = MPIs.bytes_to_int(num[:fl])\n            del num[:fl]\n\n        return super(MPI, cls).__new__(cls, mpi)",
  "        value = num\n\n        if isinstance(num, (bytes, bytearray)):\n            if isinstance(num, bytes):  # pragma: no cover\n                num = bytearray(num)\n\n            nbits = MPIs.bytes_to_int(num[:2])\n            nbytes = -(-nbits // 8)\n            del num[:2]\n\n            value = int.from_bytes(num[:nbytes], 'big')\n            del num[:nbytes]\n\n        return super(MPI, cls).__new__(cls, value)")
T('C09', 'twin-mpi-writer-temps', PT, "        return MPIs.int_to_bytes(self.bit_length(), 2) + MPIs.int_to_bytes(self, self.byte_length())",
  "        bit_count = MPIs.int_to_bytes(self.bit_length(), minlen=2)\n        magnitude = MPIs.int_to_bytes(self, minlen=self.byte_length())\n        return bit_count + magnitude")
T('C09', 'twin-mpi-bytelen-shift', PT, "        return ((self.bit_length() + 7) // 8)", "        return (self.bit_length() + 7) >> 3")
T('C09', 'twin-count-temps', FL, "        return (16 + (self._count & 15)) << ((self._count >> 4) + 6)", "        coded = self._count\n        mantissa = 16 + (coded & 15)\n        exponent = (coded >> 4) + 6\n        return mantissa << exponent",
  more=[(FL, "        if val < 0 or val > 255:  # pragma: no cover", "        if not (0 <= val <= 255):  # pragma: no cover")])
T('C09', 'twin-time-temps-kw', SS, "        _bytes += self.int_to_bytes(calendar.timegm(self.created.utctimetuple()), 4)", "        utc_tuple = self.created.utctimetuple()\n        seconds = calendar.timegm(utc_tuple)\n        _bytes += self.int_to_bytes(seconds, minlen=4)",
  more=[(SS, "    def created_int(self, val):\n        self.created = datetime.fromtimestamp(val, timezone.utc)", "    def created_int(self, seconds):\n        when = datetime.fromtimestamp(seconds, tz=timezone.utc)\n        self.created = when"),
        (SS, "    def created_bytearray(self, val):\n        self.created = self.bytes_to_int(val)", "    def created_bytearray(self, octets):\n        seconds = self.bytes_to_int(octets)\n        self.created = seconds")])
T('C09', 'twin-time-reader-utcfrom-replace', PK, "    def mtime_int(self, val):\n        self.mtime = datetime.fromtimestamp(val, timezone.utc)", "    def mtime_int(self, val):\n        self.mtime = datetime.utcfromtimestamp(val).replace(tzinfo=timezone.utc)")
T('C09', 'twin-expiry-temp', SS, "        _bytes += self.int_to_bytes(int(self.expires.total_seconds()), 4)", "        seconds = int(self.expires.total_seconds())\n        _bytes += self.int_to_bytes(seconds, minlen=4)")
T('C09', 'twin-subheader-temps', ST, "        _bytes = bytearray(self.encode_length(self.length))\n        _bytes += self.int_to_bytes((int(self.critical) << 7) + self.typeid)\n        return _bytes",
  "        _bytes = bytearray(self.encode_length(self.length))\n        critical_bit = 0x80 if self.critical else 0\n        return _bytes + bytes([critical_bit | self.typeid])")
T('C09', 'twin-subheader-typeid-bin', ST, "        v = self.bytes_to_int(val)\n        self.typeid = v\n        self.critical = bool(v & 0x80)", "        octet = val[0]\n        self.critical = octet >= 0x80\n        self.typeid = octet")
T('C09', 'twin-subheader-parse-pop', ST, "        self.typeid = packet[:1]\n        del packet[:1]", "        type_octet = packet[:1]\n        del packet[0]\n        self.typeid = type_octet")
T('C09', 'twin-int-to-bytes-ifs', TY, "        blen = max(minlen, PGPObject.int_byte_len(i), 1)\n\n        return i.to_bytes(blen, order)",
  "        blen = PGPObject.int_byte_len(i)\n        if blen < minlen:\n            blen = minlen\n        if blen < 1:\n            blen = 1\n        return i.to_bytes(blen, byteorder=order)")
T('C09', 'twin-int-byte-len-ceil', TY, "        return (i.bit_length() + 7) // 8", "        return -(-i.bit_length() // 8)")

# --- ... and defects of the same constructs (each must be reported)
M('C09', 'enc-five-octet-prefix', TY, "            return b'\\xFF' + Header.int_to_bytes(nl, 4)", "            return b'\\xFE' + Header.int_to_bytes(nl, 4)", 'C09.1')
M('C09', 'enc-five-octet-width-3', TY, "            return b'\\xFF' + Header.int_to_bytes(nl, 4)", "            return b'\\xFF' + Header.int_to_bytes(nl, 3)", 'C09.1')
M('C09', 'enc-two-octet-le-192', TY, "            if 192 > nl:\n                return Header.int_to_bytes(nl)", "            if 192 >= nl:\n                return Header.int_to_bytes(nl)", 'C09.1')
M('C09', 'enc-two-octet-mask', TY, "                elen = ((nl & 0xFF00) + (192 << 8)) + ((nl & 0xFF) - 192)", "                elen = ((nl & 0x0F00) + (192 << 8)) + ((nl & 0xFF) - 192)", 'C09.1')
M('C09', 'dec-five-reads-3', TY, "                    return (self.bytes_to_int(b[offset + 1:offset + 5]), 5, False)", "                    return (self.bytes_to_int(b[offset + 1:offset + 4]), 5, False)", 'C09.1')
M('C09', 'dec-five-size-4', TY, "                    return (self.bytes_to_int(b[offset + 1:offset + 5]), 5, False)", "                    return (self.bytes_to_int(b[offset + 1:offset + 5]), 4, False)", 'C09.1')
M('C09', 'dec-two-size-1', TY, "((dlen & 0xFF) + 192), 2, False)", "((dlen & 0xFF) + 192), 1, False)", 'C09.1')
M('C09', 'dec-partial-2-shl', TY, "                    return (1 << (fo & 0x1f), 1, True)", "                    return (2 << (fo & 0x1f), 1, True)", 'C09.1')
M('C09', 'dec-partial-not-flagged', TY, "                    return (1 << (fo & 0x1f), 1, True)", "                    return (1 << (fo & 0x1f), 1, False)", 'C09.1')
M('C09', 'dec-255-is-partial', TY, "                elif 255 > fo:  # >= 224 is implied", "                elif 255 >= fo:  # >= 224 is implied", 'C09.1')
M('C09', 'llen-five-as-4', TY, "            else:\n                return 5\n", "            else:\n                return 4\n", 'C09.1')
M('C09', 'llen-192-boundary', TY, "            if 192 > self.length:\n                return 1", "            if 192 >= self.length:\n                return 1", 'C09.1')
M('C09', 'old-widen-stops-at-2', TY, "            while 0 < llen < 4 and self.length >= (1 << (8 * llen)):", "            while 0 < llen < 2 and self.length >= (1 << (8 * llen)):", 'C09.2')
M('C09', 'old-widen-plus-1', TY, "                llen *= 2\n            return llen", "                llen += 1\n            return llen", 'C09.2')
M('C09', 'old-widen-bits-7', TY, "            while 0 < llen < 4 and self.length >= (1 << (8 * llen)):", "            while 0 < llen < 4 and self.length >= (1 << (7 * llen)):", 'C09.2')
M('C09', 'old-reader-map', TY, "            self._llen = {0: 1, 1: 2, 2: 4, 3: 0}[val]", "            self._llen = {0: 1, 1: 2, 2: 4, 3: 1}[val]", 'C09.2')
M('C09', 'old-reader-no-consume', TY, "                self._len = self.bytes_to_int(b[:self.llen])\n                del b[:self.llen]\n", "                self._len = self.bytes_to_int(b[:self.llen])\n", 'C09.2')
M('C09', 'old-reader-consume-1', TY, "                del b[:self.llen]\n", "                del b[:1]\n", 'C09.2')
M('C09', 'old-enc-ge-0', TY, "            return Header.int_to_bytes(nl, llen) if llen > 0 else b''", "            return Header.int_to_bytes(nl, llen) if llen >= 0 else b''", 'C09.2')
M('C09', 'old-writer-width-from-parsed', PT, "        _bytes += self.encode_length(self.length, self._lenfmt, self.llen)", "        _bytes += self.encode_length(self.length, self._lenfmt, self._llen)", 'C09.2')
M('C09', 'mpi-count-consume-1', PT, "            fl = ((MPIs.bytes_to_int(num[:2]) + 7) // 8)\n            del num[:2]", "            fl = ((MPIs.bytes_to_int(num[:2]) + 7) // 8)\n            del num[:1]", 'C09.3')
M('C09', 'mpi-magnitude-not-consumed', PT, "            mpi = MPIs.bytes_to_int(num[:fl])\n            del num[:fl]\n", "            mpi = MPIs.bytes_to_int(num[:fl])\n", 'C09.3')
M('C09', 'mpi-floor', PT, "            fl = ((MPIs.bytes_to_int(num[:2]) + 7) // 8)", "            fl = (MPIs.bytes_to_int(num[:2]) // 8)", 'C09.3')
M('C09', 'mpi-writer-count-1-octet', PT, "        return MPIs.int_to_bytes(self.bit_length(), 2) + MPIs.int_to_bytes(self, self.byte_length())", "        return MPIs.int_to_bytes(self.bit_length(), 1) + MPIs.int_to_bytes(self, self.byte_length())", 'C09.3')
M('C09', 'mpi-writer-byte-count', PT, "        return MPIs.int_to_bytes(self.bit_length(), 2) + MPIs.int_to_bytes(self, self.byte_length())", "        return MPIs.int_to_bytes(self.byte_length(), 2) + MPIs.int_to_bytes(self, self.byte_length())", 'C09.3')
M('C09', 'mpi-len-plus-1', PT, "        return self.byte_length() + 2", "        return self.byte_length() + 1", 'C09.3')
M('C09', 'count-mask-7', FL, "        return (16 + (self._count & 15)) << ((self._count >> 4) + 6)", "        return (16 + (self._count & 7)) << ((self._count >> 4) + 6)", 'C09.4')
M('C09', 'count-shift-3', FL, "        return (16 + (self._count & 15)) << ((self._count >> 4) + 6)", "        return (16 + (self._count & 15)) << ((self._count >> 3) + 6)", 'C09.4')
M('C09', 'count-setter-256', FL, "        if val < 0 or val > 255:  # pragma: no cover", "        if val < 0 or val > 256:  # pragma: no cover", 'C09.4')
M('C09', 'count-setter-negative', FL, "        if val < 0 or val > 255:  # pragma: no cover", "        if val > 255:  # pragma: no cover", 'C09.4')
M('C09', 'time-mktime', PK, "        _bytes += self.int_to_bytes(calendar.timegm(self.created.utctimetuple()), 4)", "        _bytes += self.int_to_bytes(int(time.mktime(self.created.utctimetuple())), 4)", 'C09.5')
M('C09', 'time-temp-timetuple', PK, "        fp.update(self.int_to_bytes(calendar.timegm(self.created.utctimetuple()), 4))", "        tt = self.created.timetuple()\n        fp.update(self.int_to_bytes(calendar.timegm(tt), 4))", 'C09.5')
M('C09', 'reader-utcfromtimestamp-naive', SS, "    def created_int(self, val):\n        self.created = datetime.fromtimestamp(val, timezone.utc)", "    def created_int(self, val):\n        self.created = datetime.utcfromtimestamp(val)", 'C09.5')
M('C09', 'reader-bytes-3', PK, "    def mtime_bin(self, val):\n        self.mtime = self.bytes_to_int(val)", "    def mtime_bin(self, val):\n        self.mtime = self.bytes_to_int(val[:3])", 'C09.5')
M('C09', 'expiry-2-octets', SS, "        _bytes += self.int_to_bytes(int(self.expires.total_seconds()), 4)", "        _bytes += self.int_to_bytes(int(self.expires.total_seconds()), 2)", 'C09.5')
M('C09', 'sub-critical-mask-40', ST, "        self.critical = bool(v & 0x80)", "        self.critical = bool(v & 0x40)", 'C09.6')
M('C09', 'sub-type-not-consumed', ST, "        self.typeid = packet[:1]\n        del packet[:1]", "        self.typeid = packet[:1]", 'C09.6')
M('C09', 'sub-len-plus-2', ST, "    def __len__(self):\n        return self.llen + 1", "    def __len__(self):\n        return self.llen + 2", 'C09.6')
M('C09', 'sub-critical-or-typeid-swapped', ST, "        _bytes += self.int_to_bytes((int(self.critical) << 7) + self.typeid)", "        _bytes += self.int_to_bytes((self.typeid << 1) + int(self.critical))", 'C09.6')
M('C09', 'int-byte-len-plus-8', TY, "        return (i.bit_length() + 7) // 8", "        return (i.bit_length() + 8) // 8", 'C09.7')
M('C09', 'bytes-to-int-little', TY, "    def bytes_to_int(b, order='big'):", "    def bytes_to_int(b, order='little'):", 'C09.7')
M('C09', 'int-to-bytes-default-2', TY, "    def int_to_bytes(i, minlen=1, order='big'):", "    def int_to_bytes(i, minlen=2, order='big'):", 'C09.7')
M('C09', 'tag-format-bit-5', PT, "        tag = 0x80 | (self._lenfmt << 6)", "        tag = 0x80 | (self._lenfmt << 5)", 'C09.8')
M('C09', 'parse-format-bit-5', PT, "        self._lenfmt = ((packet[0] & 0x40) >> 6)", "        self._lenfmt = ((packet[0] & 0x20) >> 5)", 'C09.8')
M('C09', 'parse-lentype-mask-1', PT, "            self.llen = (packet[0] & 0x03)", "            self.llen = (packet[0] & 0x01)", 'C09.8')
M('C09', 'parse-type3-has-length', PT, "        if (self._lenfmt == 0 and self.llen > 0) or self._lenfmt == 1:", "        if (self._lenfmt == 0 and self.llen >= 0) or self._lenfmt == 1:", 'C09.8')
M('C09', 'parse-tag-octet-kept', PT, "            self.llen = (packet[0] & 0x03)\n        del packet[0]\n", "            self.llen = (packet[0] & 0x03)\n", 'C09.8')
M('C09', 'old-tag-mask-38', PT, "        _tag = (val & 0x3F) if self._lenfmt else ((val & 0x3C) >> 2)", "        _tag = (val & 0x3F) if self._lenfmt else ((val & 0x38) >> 2)", 'C09.8')
M('C09', 'partial-total-overwritten', TY, "                    total += part_len\n                self._len = total", "                    total = part_len\n                self._len = total", 'C09.8')
M('C09', 'partial-del-at-zero', TY, "                    del b[total:total + size]", "                    del b[:size]", 'C09.8')
M('C09', 'partial-first-not-counted', TY, "                total = part_len\n                while partial:", "                total = 0\n                while partial:", 'C09.8')

# --- C09: whole-function rewrites (helpers as static methods / one private reader method and a single loop) and defects inside them
_ENC_DEF = ('    @staticmethod\n'
    '    def encode_length(length, nhf=True, llen=1):\n'
    '        def _new_length(nl):\n'
    '            if 192 > nl:\n'
    '                return Header.int_to_bytes(nl)\n'
    '\n'
    '            elif 8384 > nl:\n'
    '                elen = ((nl & 0xFF00) + (192 << 8)) + ((nl & 0xFF) - 192)\n'
    '                return Header.int_to_bytes(elen, 2)\n'
    '\n'
    "            return b'\\xFF' + Header.int_to_bytes(nl, 4)\n"
    '\n'
    '        def _old_length(nl, llen):\n'
    "            return Header.int_to_bytes(nl, llen) if llen > 0 else b''\n"
    '\n'
    '        return _new_length(length) if nhf else _old_length(length, llen)\n'
    '\n')
_ENC_STATIC = ('    _ONE_OCTET_LIMIT = 192\n'
    '    _TWO_OCTET_LIMIT = 8384\n'
    '\n'
    '    @staticmethod\n'
    '    def _encode_new(n):\n'
    '        if n < Header._ONE_OCTET_LIMIT:\n'
    '            return bytes(bytearray([n]))\n'
    '        if n < Header._TWO_OCTET_LIMIT:\n'
    '            n -= Header._ONE_OCTET_LIMIT\n'
    '            return bytes(bytearray([(n >> 8) + 192, n & 0xFF]))\n'
    "        out = bytearray(b'\\xFF')\n"
    '        out += Header.int_to_bytes(n, minlen=4)\n'
    '        return bytes(out)\n'
    '\n'
    '    @staticmethod\n'
    '    def _encode_old(n, width):\n'
    '        if width <= 0:\n'
    "            return b''\n"
    '        return Header.int_to_bytes(n, width)\n'
    '\n'
    '    @staticmethod\n'
    '    def encode_length(length, nhf=True, llen=1):\n'
    '        if nhf:\n'
    '            return Header._encode_new(length)\n'
    '        return Header._encode_old(length, llen)\n'
    '\n')
_DEC_DEF = ('    @length.register(bytes)\n'
    '    @length.register(bytearray)\n'
    '    def length_bin(self, val):\n'
    '        def _new_len(b):\n'
    '            def _parse_len(a, offset=0):\n'
    '                # returns (the parsed length, size of length field, whether the length was of partial type)\n'
    '                fo = a[offset]\n'
    '\n'
    '                if 192 > fo:\n'
    '                    return (self.bytes_to_int(a[offset:offset + 1]), 1, False)\n'
    '\n'
    '                elif 224 > fo:  # >= 192 is implied\n'
    '                    dlen = self.bytes_to_int(b[offset:offset + 2])\n'
    '                    return (((dlen - (192 << 8)) & 0xFF00) + ((dlen & 0xFF) + 192), 2, False)\n'
    '\n'
    '                elif 255 > fo:  # >= 224 is implied\n'
    '                    # this is a partial-length header\n'
    '                    return (1 << (fo & 0x1f), 1, True)\n'
    '\n'
    '                elif 255 == fo:\n'
    '                    return (self.bytes_to_int(b[offset + 1:offset + 5]), 5, False)\n'
    '\n'
    '                else:  # pragma: no cover\n'
    '                    raise ValueError("Malformed length: 0x{:02x}".format(fo))\n'
    '\n'
    '            part_len, size, partial = _parse_len(b)\n'
    '            del b[:size]\n'
    '\n'
    '            if partial:\n'
    '                total = part_len\n'
    '                while partial:\n'
    '                    part_len, size, partial = _parse_len(b, total)\n'
    '                    del b[total:total + size]\n'
    '                    total += part_len\n'
    '                self._len = total\n'
    '            else:\n'
    '                self._len = part_len\n'
    '\n'
    '        def _old_len(b):\n'
    '            if self.llen > 0:\n'
    '                self._len = self.bytes_to_int(b[:self.llen])\n'
    '                del b[:self.llen]\n'
    '\n'
    '            else:  # pragma: no cover\n'
    '                self._len = 0\n'
    '\n'
    '        _new_len(val) if self._lenfmt == 1 else _old_len(val)\n'
    '\n')
_DEC_METHOD = ('    def _read_new_length_field(self, buf, at):\n'
    '        first = buf[at]\n'
    '        if first < 192:\n'
    '            return first, 1, False\n'
    '        if first < 224:\n'
    '            return ((first - 192) << 8) + buf[at + 1] + 192, 2, False\n'
    '        if first == 255:\n'
    '            return self.bytes_to_int(buf[at + 1:at + 5]), 5, False\n'
    '        return 1 << (first & 0x1F), 1, True\n'
    '\n'
    '    @length.register(bytes)\n'
    '    @length.register(bytearray)\n'
    '    def length_bin(self, val):\n'
    '        if self._lenfmt != 1:\n'
    '            width = self.llen\n'
    '            self._len = self.bytes_to_int(val[:width]) if width > 0 else 0\n'
    '            if width > 0:\n'
    '                del val[:width]\n'
    '            return\n'
    '\n'
    '        body_octets = 0\n'
    '        more = True\n'
    '        while more:\n'
    '            chunk, width, more = self._read_new_length_field(val, body_octets)\n'
    '            del val[body_octets:body_octets + width]\n'
    '            body_octets += chunk\n'
    '        self._len = body_octets\n'
    '\n')
T('C09', 'twin-enc-static-helpers', TY, _ENC_DEF, _ENC_STATIC)
T('C09', 'twin-dec-reader-method-single-loop', TY, _DEC_DEF, _DEC_METHOD)
T('C09', 'twin-enc-dec-rewritten', TY, _ENC_DEF, _ENC_STATIC, more=[(TY, _DEC_DEF, _DEC_METHOD)])
M('C09', 'rewritten-dec-del-at-zero', TY, _DEC_DEF, _DEC_METHOD.replace("del val[body_octets:body_octets + width]", "del val[:width]"), 'C09.8')
M('C09', 'rewritten-dec-224', TY, _DEC_DEF, _DEC_METHOD.replace("if first < 224:", "if first <= 224:"), 'C09.1')
M('C09', 'rewritten-enc-limit-8383', TY, _ENC_DEF, _ENC_STATIC.replace("_TWO_OCTET_LIMIT = 8384", "_TWO_OCTET_LIMIT = 8383"), 'C09.1')
M('C09', 'rewritten-enc-high-octet', TY, _ENC_DEF, _ENC_STATIC.replace("(n >> 8) + 192", "(n >> 8) | 128"), 'C09.1')

# --- C09 second round: value-dependent special cases, `or` defaults, cached values, widths wrong only above a threshold, fixed too-small widths
M('C09', 'count-zero-means-default', FL, "        return (16 + (self._count & 15)) << ((self._count >> 4) + 6)", "        c = self._count or self.halg.tuned_count\n        return (16 + (c & 15)) << ((c >> 4) + 6)", 'C09.4')
M('C09', 'count-zero-means-96', FL, "        return (16 + (self._count & 15)) << ((self._count >> 4) + 6)", "        c = self._count or 96\n        return (16 + (c & 15)) << ((c >> 4) + 6)", 'C09.4')
M('C09', 'count-first-store-wins', FL, "            raise ValueError(\"count must be between 0 and 256\")\n        self._count = val", "            raise ValueError(\"count must be between 0 and 256\")\n        if getattr(self, '_count', 0) == 0:\n            self._count = val", 'C09.4')
M('C09', 'count-special-255', FL, "        return (16 + (self._count & 15)) << ((self._count >> 4) + 6)", "        if self._count == 255:\n            return 65011712 - 1\n        return (16 + (self._count & 15)) << ((self._count >> 4) + 6)", 'C09.4')
M('C09', 'enc-special-1000', TY, "            elif 8384 > nl:\n                elen", "            elif nl == 1003:\n                return b'\\xFF' + Header.int_to_bytes(nl, 4)\n\n            elif 8384 > nl:\n                elen", 'C09.1')
M('C09', 'enc-five-width-3-below-2-24', TY, "            return b'\\xFF' + Header.int_to_bytes(nl, 4)", "            return b'\\xFF' + Header.int_to_bytes(nl, 4 if nl >= (1 << 16) else 3)", 'C09.1')
M('C09', 'enc-five-fixed-to-bytes-3', TY, "            return b'\\xFF' + Header.int_to_bytes(nl, 4)", "            return b'\\xFF' + nl.to_bytes(3, 'big')", 'C09.1')
M('C09', 'enc-two-octet-to-bytes-1', TY, "                return Header.int_to_bytes(elen, 2)", "                return (elen & 0xFF).to_bytes(1, 'big') if nl > 8000 else Header.int_to_bytes(elen, 2)", 'C09.1')
M('C09', 'dec-length-or-1', TY, "    def length(self):\n        return self._len", "    def length(self):\n        return self._len or 1", 'C09.1')
M('C09', 'dec-five-octet-capped', TY, "                    return (self.bytes_to_int(b[offset + 1:offset + 5]), 5, False)", "                    return (self.bytes_to_int(b[offset + 1:offset + 5]) & 0x7FFFFFFF, 5, False)", 'C09.1')
M('C09', 'dec-partial-exponent-capped', TY, "                    return (1 << (fo & 0x1f), 1, True)", "                    return (1 << min(fo & 0x1f, 24), 1, True)", 'C09.1')
M('C09', 'llen-cached', TY, "        lf = self._lenfmt\n\n        if lf == 1:", "        if getattr(self, '_llen_cache', None) is not None:\n            return self._llen_cache\n        self._llen_cache = None\n        lf = self._lenfmt\n\n        if lf == 1:",
  'C09.1', more=[(TY, "            else:\n                return 5\n", "            else:\n                self._llen_cache = 5\n                return 5\n")])
M('C09', 'llen-old-or-1', TY, "            llen = self._llen\n            while 0 < llen < 4", "            llen = self._llen or 1\n            while 0 < llen < 4", 'C09.2')
M('C09', 'llen-old-widen-once', TY, "            while 0 < llen < 4 and self.length >= (1 << (8 * llen)):\n                llen *= 2\n            return llen", "            if 0 < llen < 4 and self.length >= (1 << (8 * llen)):\n                llen *= 2\n            return llen", 'C09.2')
M('C09', 'llen-old-sticky', TY, "                llen *= 2\n            return llen", "                llen *= 2\n            self._llen = llen\n            return llen", 'C09.2')
M('C09', 'old-enc-width-capped-2', TY, "            return Header.int_to_bytes(nl, llen) if llen > 0 else b''", "            return Header.int_to_bytes(nl, min(llen, 2) if nl < 65536 else llen) if llen > 0 else b''", 'C09.2')
M('C09', 'mpi-zero-bits-one-octet', PT, "            fl = ((MPIs.bytes_to_int(num[:2]) + 7) // 8)", "            fl = ((MPIs.bytes_to_int(num[:2]) + 7) // 8) or 1", 'C09.3')
M('C09', 'mpi-writer-fixed-to-bytes', PT, "        return MPIs.int_to_bytes(self.bit_length(), 2) + MPIs.int_to_bytes(self, self.byte_length())", "        return MPIs.int_to_bytes(self.bit_length(), 2) + int(self).to_bytes(256, 'big')[-self.byte_length():]", 'C09.3')
M('C09', 'mpi-count-above-2048-truncated', PT, "            fl = ((MPIs.bytes_to_int(num[:2]) + 7) // 8)", "            fl = min((MPIs.bytes_to_int(num[:2]) + 7) // 8, 512)", 'C09.3')
M('C09', 'sub-typeid-special-127', ST, "        self._typeid = val & 0x7f", "        self._typeid = val & 0x7f if val != 0xff else 0", 'C09.6')
M('C09', 'sub-critical-cached-first', ST, "    def critical_bool(self, val):\n        self._critical = val", "    def critical_bool(self, val):\n        self._critical = getattr(self, '_critical', False) or val", 'C09.6')
M('C09', 'int-to-bytes-capped-8', TY, "        blen = max(minlen, PGPObject.int_byte_len(i), 1)\n", "        blen = min(max(minlen, PGPObject.int_byte_len(i), 1), max(minlen, 8))\n", 'C09.7')
M('C09', 'bytes-to-int-first-8', TY, "        return int.from_bytes(b, order)", "        return int.from_bytes(b[:8], order)", 'C09.7')
M('C09', 'tag-new-format-mask-on-write', PT, "        tag |= (self.tag) if self._lenfmt else", "        tag |= (self.tag & 0x1F) if self._lenfmt else", 'C09.8')
M('C09', 'tag-special-old-type3-as-4', PT, "{1: 0, 2: 1, 4: 2, 0: 3}[self.llen]", "{1: 0, 2: 1, 4: 2, 0: 2}[self.llen]", 'C09.8')
M('C09', 'partial-chain-max-2', TY, "                while partial:\n                    part_len, size, partial = _parse_len(b, total)", "                rounds = 0\n                while partial and rounds < 2:\n                    rounds += 1\n                    part_len, size, partial = _parse_len(b, total)", 'C09.8')
M('C09', 'reader-local-relabelled', PK, "    def mtime_int(self, val):\n        self.mtime = datetime.fromtimestamp(val, timezone.utc)", "    def mtime_int(self, val):\n        self.mtime = datetime.fromtimestamp(val).replace(tzinfo=timezone.utc)", 'C09.5')
M('C09', 'reader-other-zone', PK, "    def created_int(self, val):\n        self.created = datetime.fromtimestamp(val, timezone.utc)", "    def created_int(self, val):\n        self.created = datetime.fromtimestamp(val, tz=timezone(timedelta(hours=1)))", 'C09.5')
M('C09', 'reader-seconds-plus-offset', SS, "    def created_int(self, val):\n        self.created = datetime.fromtimestamp(val, timezone.utc)", "    def created_int(self, val):\n        self.created = datetime.fromtimestamp(val + time.timezone, timezone.utc)", 'C09.5')
T('C09', 'twin-reader-aware-utc-astimezone', SS, "    def created_int(self, val):\n        self.created = datetime.fromtimestamp(val, timezone.utc)", "    def created_int(self, val):\n        self.created = datetime.fromtimestamp(int(val), tz=timezone.utc).astimezone(timezone.utc)")

# --- C09 third round: state kept on the int-subclass instance created in MPI.__new__
_MPI_RET = "        return super(MPI, cls).__new__(cls, mpi)\n\n    def byte_length(self):\n        return ((self.bit_length() + 7) // 8)\n"
M('C09', 'mpi-remembers-wire-width', PT, _MPI_RET,
  "        self = super(MPI, cls).__new__(cls, mpi)\n        self._blen = fl if isinstance(num, bytearray) else None\n        return self\n\n    def byte_length(self):\n        if self._blen is not None:\n            return self._blen\n        return ((self.bit_length() + 7) // 8)\n", 'C09.3')
M('C09', 'mpi-remembers-wire-bits', PT, "        return super(MPI, cls).__new__(cls, mpi)\n",
  "        self = super(MPI, cls).__new__(cls, mpi)\n        self.__dict__['_bits'] = MPIs.bytes_to_int(b'\\x00') if not isinstance(num, bytearray) else 8 * fl\n        return self\n", 'C09.3',
  more=[(PT, "        return MPIs.int_to_bytes(self.bit_length(), 2) + MPIs.int_to_bytes(self, self.byte_length())", "        return MPIs.int_to_bytes(self._bits or self.bit_length(), 2) + MPIs.int_to_bytes(self, self.byte_length())")])
T('C09', 'twin-mpi-unused-attribute', PT, "        return super(MPI, cls).__new__(cls, mpi)\n",
  "        self = super(MPI, cls).__new__(cls, mpi)\n        self._from_wire = isinstance(num, bytearray)\n        return self\n")
T('C09', 'twin-mpi-bytelen-cached', PT, "    def byte_length(self):\n        return ((self.bit_length() + 7) // 8)\n",
  "    def byte_length(self):\n        cached = getattr(self, '_nbytes', None)\n        if cached is None:\n            cached = (self.bit_length() + 7) // 8\n            setattr(self, '_nbytes', cached)\n        return cached\n")
M('C09', 'malformed-length-fstring-special', TY, "                if 192 > fo:\n                    return (self.bytes_to_int(a[offset:offset + 1]), 1, False)", "                if 192 > fo:\n                    return (int(f'{fo:03d}'[-2:]) if fo > 99 else fo, 1, False)", 'C09.1')

# --- C09 fourth round: width of the length field as it arrived must not survive into what is written back
_NEWLEN_TAIL = "                self._len = total\n            else:\n                self._len = part_len\n"
M('C09', 'llen-remembers-parsed-width', TY, _NEWLEN_TAIL, _NEWLEN_TAIL + "            self._nllen = size\n", 'C09.1',
  more=[(TY, "        lf = self._lenfmt\n\n        if lf == 1:\n            # new-format length\n", "        lf = self._lenfmt\n\n        if lf == 1:\n            # new-format length\n            if getattr(self, '_nllen', None) is not None:\n                return self._nllen\n"),
        (TY, "    def length_int(self, val):\n        self._len = val\n", "    def length_int(self, val):\n        self._len = val\n        self._nllen = None\n")])
M('C09', 'five-octet-kept-when-parsed', TY, "                    return (self.bytes_to_int(b[offset + 1:offset + 5]), 5, False)", "                    self._five = True\n                    return (self.bytes_to_int(b[offset + 1:offset + 5]), 5, False)", 'C09.1',
  more=[(TY, "            if 192 > nl:\n                return Header.int_to_bytes(nl)", "            if 192 > nl and not wide:\n                return Header.int_to_bytes(nl)"),
        (TY, "            elif 8384 > nl:\n                elen", "            elif 8384 > nl and not wide:\n                elen"),
        (TY, "    def encode_length(length, nhf=True, llen=1):\n        def _new_length(nl):", "    def encode_length(length, nhf=True, llen=1, wide=False):\n        def _new_length(nl):"),
        (PT, "        _bytes += self.encode_length(self.length, self._lenfmt, self.llen)", "        _bytes += self.encode_length(self.length, self._lenfmt, self.llen, getattr(self, '_five', False))")])
T('C09', 'twin-parsed-width-recorded-unused', TY, _NEWLEN_TAIL, _NEWLEN_TAIL + "            self._wire_llen = size\n")

# --- C09 fifth round: the datetime overload keeps the instant; the parse path of a time codec does not read the clock
_PK_DT = "            warnings.warn(\"Passing TZ-naive datetime object to PubKeyV4 packet\")\n        self._created = val\n"
M('C09', 'created-datetime-relabelled', PK, _PK_DT, "            warnings.warn(\"Passing TZ-naive datetime object to PubKeyV4 packet\")\n\n        elif val.tzinfo is not timezone.utc:\n            val = val.replace(tzinfo=timezone.utc)\n        self._created = val\n", 'C09.5')
M('C09', 'mtime-datetime-relabelled-always', PK, "            warnings.warn(\"Passing TZ-naive datetime object to LiteralData packet\")\n        self._mtime = val\n", "            warnings.warn(\"Passing TZ-naive datetime object to LiteralData packet\")\n        self._mtime = val.replace(tzinfo=timezone.utc)\n", 'C09.5')
M('C09', 'reader-clamped-to-now', SS, "    def created_int(self, val):\n        self.created = datetime.fromtimestamp(val, timezone.utc)", "    def created_int(self, val):\n        when = datetime.fromtimestamp(val, timezone.utc)\n        now = datetime.now(timezone.utc)\n        self.created = now if when > now else when", 'C09.5')
M('C09', 'reader-bytes-zero-means-now', PK, "    def mtime_bin(self, val):\n        self.mtime = self.bytes_to_int(val)", "    def mtime_bin(self, val):\n        self.mtime = self.bytes_to_int(val) or int(time.time())", 'C09.5')
T('C09', 'twin-created-datetime-astimezone', PK, _PK_DT, "            warnings.warn(\"Passing TZ-naive datetime object to PubKeyV4 packet\")\n\n        else:\n            val = val.astimezone(timezone.utc)\n        self._created = val\n")
M('C09', 'count-cached-on-first-read', FL, "        return (16 + (self._count & 15)) << ((self._count >> 4) + 6)", "        if getattr(self, '_decoded', None) is None:\n            self._decoded = (16 + (self._count & 15)) << ((self._count >> 4) + 6)\n        return self._decoded", 'C09.4')
M('C09', 'old-type-bits-from-parsed-width', PT, "{1: 0, 2: 1, 4: 2, 0: 3}[self.llen]", "{1: 0, 2: 1, 4: 2, 0: 3}[self._llen]", 'C09.2')

# =============================================================================================== C20
M('C20', 'ops-loop-forward', PGP, "            for sig in reversed(self._signatures):\n                ops = sig.make_onepass()", "            for sig in self._signatures:\n                ops = sig.make_onepass()", 'C20.2')
M('C20', 'trailing-sigs-reversed', PGP, "                yield self._mdc\n\n            for sig in self._signatures:\n                yield sig", "                yield self._mdc\n\n            for sig in reversed(self._signatures):\n                yield sig", 'C20.2')
M('C20', 'onepass-halg-wrong', PGP, "        onepass.halg = self.hash_algorithm\n", "        onepass.halg = self.key_algorithm\n", 'C20.3')
M('C20', 'literal-before-ops', PGP, "            for sig in reversed(self._signatures):\n                ops = sig.make_onepass()\n                # only the last one-pass packet, the one directly before the signed data, is flagged\n                if sig is self._signatures[0]:\n                    ops.nested = True\n                yield ops\n\n            yield self._message",
  "            yield self._message\n            for sig in reversed(self._signatures):\n                ops = sig.make_onepass()\n                # only the last one-pass packet, the one directly before the signed data, is flagged\n                if sig is self._signatures[0]:\n                    ops.nested = True\n                yield ops\n", 'C20.1')
M('C20', 'compress-literal-only', PGP, "            comp.packets = [pkt for pkt in self]", "            comp.packets = [self._message]", 'C20.5')
M('C20', 'session-keys-after-container', PGP, "            for pkt in self._sessionkeys:\n                yield pkt\n            yield self.message\n", "            yield self.message\n            for pkt in self._sessionkeys:\n                yield pkt\n", 'C20.1')
M('C20', 'flag-all-but-first', PGP, "                if sig is self._signatures[0]:\n                    ops.nested = True", "                if sig is not self._signatures[-1]:\n                    ops.nested = True", 'C20.4')
M('C20', 'flag-first-yielded', PGP, "                if sig is self._signatures[0]:\n                    ops.nested = True", "                if sig is self._signatures[-1]:\n                    ops.nested = True", 'C20.4')
M('C20', 'onepass-no-update-hlen', PGP, "        onepass.signer = self.signer\n        onepass.update_hlen()", "        onepass.signer = self.signer", 'C20.3')
M('C20', 'ops-bytes-order', PK, "        _bytes += bytearray([self.halg])\n        _bytes += bytearray([self.pubalg])\n        _bytes += binascii.unhexlify(self.signer.encode(\"latin-1\"))", "        _bytes += bytearray([self.pubalg])\n        _bytes += bytearray([self.halg])\n        _bytes += binascii.unhexlify(self.signer.encode(\"latin-1\"))", 'C20.6')
M('C20', 'literal-len-chars', PK, "        filename = self.filename.encode('utf-8')\n        _bytes += bytearray([len(filename)])\n        _bytes += filename", "        _bytes += bytearray([len(self.filename)])\n        _bytes += self.filename.encode('utf-8')", 'C20.6')
M('C20', 'literal-latin1-writer', PK, "        filename = self.filename.encode('utf-8')", "        filename = self.filename.encode('latin-1')", 'C20.6')
M('C20', 'sensitive-ignored', PGP, "            lit.filename = '_CONSOLE' if sensitive else os.path.basename(filename)", "            lit.filename = os.path.basename(filename)", 'C20.6')
M('C20', 'comp-calg-default', PGP, "            comp.calg = self._compression", "            comp.calg = CompressionAlgorithm.ZIP", 'C20.5')
M('C20', 'or-compressed-keeps-setting', PGP, "            self._compression = other.calg\n            for pkt in other.packets:", "            for pkt in other.packets:", 'C20.5')
M('C20', 'cached-onepass', PGP, "        onepass = OnePassSignatureV3()\n        onepass.sigtype = self.type", "        if getattr(self, '_ops', None) is not None:\n            return self._ops\n        onepass = self._ops = OnePassSignatureV3()\n        onepass.sigtype = self.type", 'C20.3')
T('C20', 'twin-ops-var', PGP, "                ops = sig.make_onepass()\n                # only the last one-pass packet, the one directly before the signed data, is flagged\n                if sig is self._signatures[0]:\n                    ops.nested = True\n                yield ops", "                onepass = sig.make_onepass()\n                if sig is self._signatures[0]:\n                    onepass.nested = True\n                yield onepass")
T('C20', 'twin-comp-list', PGP, "            comp.packets = [pkt for pkt in self]", "            comp.packets = [pkt for pkt in self]\n            assert comp.packets is not None")

# =============================================================================================== C14
M('C14', 'not-exportable-filter', PGP, "        for sig in iter(s for s in self._signatures if not s.embedded and s.exportable):", "        for sig in iter(s for s in self._signatures if not s.embedded and not s.exportable):", 'C14.1')
M('C14', 'uid-sigs-unfiltered', PGP, "            for s in [s for s in uid._signatures if s.exportable]:", "            for s in [s for s in uid._signatures]:", 'C14.1')
M('C14', 'subkeys-before-uids', PGP, "        # one or more User IDs, followed by their signatures\n        for uid in self._uids:\n            _bytes += uid._uid.__bytearray__()\n            for s in [s for s in uid._signatures if s.exportable]:\n                _bytes += s.__bytearray__()\n        # subkeys\n        for sk in self._children.values():\n            _bytes += sk.__bytearray__()\n",
  "        # subkeys\n        for sk in self._children.values():\n            _bytes += sk.__bytearray__()\n        # one or more User IDs, followed by their signatures\n        for uid in self._uids:\n            _bytes += uid._uid.__bytearray__()\n            for s in [s for s in uid._signatures if s.exportable]:\n                _bytes += s.__bytearray__()\n", 'C14.1')
M('C14', 'exportable-default-false', PGP, "            return bool(next(iter(self._signature.subpackets['ExportableCertification'])))\n\n        return True", "            return bool(next(iter(self._signature.subpackets['ExportableCertification'])))\n\n        return False", 'C14.2')
M('C14', 'copy-omits-subkeys', PGP, "        for id, subkey in self._children.items():\n            key |= copy.copy(subkey)\n\n", "", 'C14.4')
M('C14', 'grouping-on-signatures', PGP, "                    if pkt.header.tag != PacketTag.Signature:\n                        self.last", "                    if True:\n                        self.last", 'C14.3')
M('C14', 'boolean-typo', SS, "        self.bflag = bool(self.bytes_to_int(val))", "        self.bool = bool(self.bytes_to_int(val))", 'C14.2')
M('C14', 'uid-copy-drops-sigs', PGP, "        uid |= copy.copy(self._uid)\n        for sig in self._signatures:\n            uid |= copy.copy(sig)\n        return uid", "        uid |= copy.copy(self._uid)\n        return uid", 'C14.4')
M('C14', 'sig-dedup', PGP, "                [ operator.ior(pgpobj, PGPSignature() | sig) for sig in group if not isinstance(sig, Opaque) ]", "                [ operator.ior(pgpobj, PGPSignature() | sig) for sig in group if not isinstance(sig, Opaque) and sig.sigtype != 0x30 ]", 'C14.3')
M('C14', 'trust-not-filtered', PGP, "        getpkt = filter(lambda p: p.header.tag != PacketTag.Trust, iter(functools.partial(_getpkt, data), None))", "        getpkt = iter(functools.partial(_getpkt, data), None)", 'C14.3')
M('C14', 'uid-to-first-key', PGP, "                elif isinstance(pgpobj, PGPUID):\n                    # parent is likely the most recently parsed primary key\n                    keys[next(reversed(keys))] |= pgpobj", "                elif isinstance(pgpobj, PGPUID):\n                    # parent is likely the most recently parsed primary key\n                    keys[next(iter(keys))] |= pgpobj", 'C14.3')
M('C14', 'embedded-exported-at-key-level', PGP, "        for sig in iter(s for s in self._signatures if not s.embedded and s.exportable):", "        for sig in iter(s for s in self._signatures if s.exportable):", 'C14.1')
M('C14', 'key-copy-shares-packet', PGP, "        key._key = copy.copy(self._key)\n", "        key._key = self._key\n", 'C14.4')
M('C14', 'subpackets-copy-via-setitem', FL, "        sp = SubPackets()\n        sp._hashed_sp = self._hashed_sp.copy()\n        sp._unhashed_sp = self._unhashed_sp.copy()\n        sp._hashed_raw = copy.copy(self._hashed_raw)\n",
  "        sp = SubPackets()\n        sp._hashed_raw = copy.copy(self._hashed_raw)\n        for (n, _), v in self._hashed_sp.items():\n            sp['h_' + n] = v\n        sp._unhashed_sp = self._unhashed_sp.copy()\n", 'C14.4')
T('C14', 'twin-exportable-order', PGP, "        for sig in iter(s for s in self._signatures if not s.embedded and s.exportable):", "        for sig in iter(s for s in self._signatures if s.exportable and not s.embedded):")

# =============================================================================================== C08
M('C08', 'swap-two-reads', PK, "        self.halg = packet[0]\n        del packet[0]\n\n        self.pubalg = packet[0]\n        del packet[0]\n\n        self.signer = packet[:8]", "        self.pubalg = packet[0]\n        del packet[0]\n\n        self.halg = packet[0]\n        del packet[0]\n\n        self.signer = packet[:8]", 'C08.c')
M('C08', 'read-4-del-3', PK, "        self.mtime = packet[:4]\n        del packet[:4]", "        self.mtime = packet[:4]\n        del packet[:3]", 'C08.a')
M('C08', 'last-field-minus-5', PK, "        pend = self.header.length - 6\n        self.keymaterial.parse(packet[:pend])", "        pend = self.header.length - 5\n        self.keymaterial.parse(packet[:pend])", 'C08.d')
M('C08', 'writer-halg-before-pubalg', PK, "        _bytes += self.int_to_bytes(self.pubalg)\n        _bytes += self.int_to_bytes(self.halg)\n        _bytes += self.subpackets.__bytearray__()", "        _bytes += self.int_to_bytes(self.halg)\n        _bytes += self.int_to_bytes(self.pubalg)\n        _bytes += self.subpackets.__bytearray__()", 'C08.c')
M('C08', 'no-update-hlen-encrypt-sk', PK, "        self.ct = self.ct.encrypt(encrypter, *encargs)\n        self.update_hlen()", "        self.ct = self.ct.encrypt(encrypter, *encargs)", 'C08.h')
M('C08', 'utf16-writer', SS, "        _bytes += self.uri.encode()\n        return _bytes", "        _bytes += self.uri.encode('utf-16')\n        return _bytes", 'C08.f')
M('C08', 'latin1-reader', ST, "            return val.decode('utf-8')\n\n        except UnicodeDecodeError:", "            return val.decode('latin-1')\n\n        except UnicodeDecodeError:", 'C08.f')
M('C08', 'intended-recipient-remainder', SS, "        if self.version == 4:\n            fpr_len = 20\n        elif self.version == 5:  # pragma: no cover\n            fpr_len = 32\n        else:  # pragma: no cover\n            fpr_len = self.header.length - 2\n\n        self.intended_recipient = packet[:fpr_len]",
  "        fpr_len = self.header.length - 1\n\n        self.intended_recipient = packet[:fpr_len]", 'C08.d')
M('C08', 'dsa-alias-then-consume', FL, "        if not self.s2k:\n            self.x = MPI(packet)\n\n            if self.s2k.usage == 0:\n                self.chksum = packet[:2]\n                del packet[:2]\n\n        else:\n            self.encbytes = packet\n\n    def decrypt_keyblob(self, passphrase):\n        kb = super(ElGPriv, self).decrypt_keyblob(passphrase)",
  "        if not self.s2k:\n            self.x = MPI(packet)\n\n        else:\n            self.encbytes = packet\n\n        if self.s2k.usage in [0, 255]:\n            self.chksum = packet[:2]\n            del packet[:2]\n\n    def decrypt_keyblob(self, passphrase):\n        kb = super(ElGPriv, self).decrypt_keyblob(passphrase)", 'C08.b')
M('C08', 'literal-len-chars', PK, "        filename = self.filename.encode('utf-8')\n        _bytes += bytearray([len(filename)])\n        _bytes += filename", "        _bytes += bytearray([len(self.filename)])\n        _bytes += self.filename.encode('utf-8')", 'C08.e')
M('C08', 'rsa-pub-order', FL, "    def parse(self, packet):\n        self.n = MPI(packet)\n        self.e = MPI(packet)\n\n\nclass DSAPub", "    def parse(self, packet):\n        self.e = MPI(packet)\n        self.n = MPI(packet)\n\n\nclass DSAPub", 'C08.c')
M('C08', 'reason-remainder', SS, "        self.string = packet[:(self.header.length - 2)]\n        del packet[:(self.header.length - 2)]", "        self.string = packet[:(self.header.length - 1)]\n        del packet[:(self.header.length - 1)]", 'C08.d')
M('C08', 'uid-new-no-update', PGP, "            uid._uid.uid = uidstr\n            uid._uid.update_hlen()", "            uid._uid.uid = uidstr", 'C08.h')
M('C08', 'old-width-frozen', TY, "            llen = self._llen\n            while 0 < llen < 4 and self.length >= (1 << (8 * llen)):\n                llen *= 2\n            return llen", "            return self._llen", 'C08.i')
M('C08', 'pkesk-opaque-18', PK, "            del packet[:(self.header.length - 10)]", "            del packet[:(self.header.length - 18)]", 'C08.d')
M('C08', 'notation-skip-name-len', SS, "        nlen = self.bytes_to_int(packet[:2])\n        del packet[:2]\n        vlen", "        nlen = self.bytes_to_int(packet[:2])\n        del packet[:1]\n        vlen", 'C08.a')
M('C08', 'subpacket-update-hlen-off', ST, "        self.header.length = (len(self.__bytearray__()) - len(self.header)) + 1", "        self.header.length = (len(self.__bytearray__()) - len(self.header))", 'C08.h')
T('C08', 'twin-read-local', PK, "        self.mtime = packet[:4]\n        del packet[:4]", "        raw_time = packet[:4]\n        del packet[:4]\n        self.mtime = raw_time")
T('C08', 'twin-pend-inline', PK, "        pend = self.header.length - 6\n        self.keymaterial.parse(packet[:pend])\n        del packet[:pend]", "        self.keymaterial.parse(packet[:self.header.length - 6])\n        del packet[:self.header.length - 6]")
# --- C08 hardening (semantic rules): new mutants per rewritten rule, twin families that must stay silent
M('C08', 'literal-remainder-misses-format-octet', PK, '        self._contents = packet[:self.header.length - (6 + fnl)]\n        del packet[:self.header.length - (6 + fnl)]',
  '        consumed = 1 + fnl + 4\n        self._contents = packet[:self.header.length - consumed]\n        del packet[:self.header.length - consumed]', 'C08.d')
M('C08', 'onepass-offset-reads-swapped', PK, '        self.sigtype = packet[0]\n        del packet[0]\n\n        self.halg = packet[0]\n        del packet[0]\n\n        self.pubalg = packet[0]\n        del packet[0]\n\n        self.signer = packet[:8]\n        del packet[:8]\n\n        self.nested = (packet[0] == 1)\n        del packet[0]',
  '        self.sigtype = packet[0]\n        self.pubalg = packet[1]\n        self.halg = packet[2]\n        del packet[:3]\n\n        self.signer = packet[:8]\n        del packet[:8]\n\n        self.nested = (packet[0] == 1)\n        del packet[0]', 'C08.c')
M('C08', 'onepass-offset-read-gap', PK, '        self.sigtype = packet[0]\n        del packet[0]\n\n        self.halg = packet[0]\n        del packet[0]\n\n        self.pubalg = packet[0]\n        del packet[0]\n\n        self.signer = packet[:8]\n        del packet[:8]\n\n        self.nested = (packet[0] == 1)\n        del packet[0]',
  '        self.sigtype = packet[0]\n        self.halg = packet[1]\n        self.pubalg = packet[2]\n        del packet[:3]\n\n        self.signer = packet[1:9]\n        del packet[:8]\n\n        self.nested = (packet[0] == 1)\n        del packet[0]', 'C08.a')
M('C08', 'onepass-merged-del-short', PK, '        self.sigtype = packet[0]\n        del packet[0]\n\n        self.halg = packet[0]\n        del packet[0]\n\n        self.pubalg = packet[0]\n        del packet[0]\n\n        self.signer = packet[:8]\n        del packet[:8]\n\n        self.nested = (packet[0] == 1)\n        del packet[0]',
  '        self.sigtype = packet[0]\n        self.halg = packet[1]\n        self.pubalg = packet[2]\n        del packet[:2]\n\n        self.signer = packet[:8]\n        del packet[:8]\n\n        self.nested = (packet[0] == 1)\n        del packet[0]', 'C08.a')
M('C08', 'rsa-parse-locals-swapped', FL, '    def parse(self, packet):\n        self.n = MPI(packet)\n        self.e = MPI(packet)\n\n\nclass DSAPub',
  '    def parse(self, packet):\n        e = MPI(packet)\n        n = MPI(packet)\n        self.n, self.e = n, e\n\n\nclass DSAPub', 'C08.c')
M('C08', 'hashed-area-peek-short', FL, '        hashed_raw = packet[:2 + hl]\n',
  '        hashed_raw = packet[:1 + hl]\n', 'C08.a')
M('C08', 'hashed-area-peek-transformed', FL, '        self._hashed_raw = hashed_raw\n',
  '        self._hashed_raw = hashed_raw[2:]\n', 'C08.a')
M('C08', 'notation-offset-reads-overlap', SS, '        self.flags = packet[:1]\n        del packet[:4]\n        nlen = self.bytes_to_int(packet[:2])\n        del packet[:2]\n        vlen = self.bytes_to_int(packet[:2])\n        del packet[:2]\n',
  '        self.flags = packet[:1]\n        nlen = self.bytes_to_int(packet[4:6])\n        vlen = self.bytes_to_int(packet[5:7])\n        del packet[:8]\n', 'C08.a')
M('C08', 'notation-offset-reads-del-short', SS, '        self.flags = packet[:1]\n        del packet[:4]\n        nlen = self.bytes_to_int(packet[:2])\n        del packet[:2]\n        vlen = self.bytes_to_int(packet[:2])\n        del packet[:2]\n',
  '        self.flags = packet[:1]\n        nlen = self.bytes_to_int(packet[4:6])\n        vlen = self.bytes_to_int(packet[6:8])\n        del packet[:7]\n', 'C08.a')
M('C08', 'dispatch-factory-gets-root-class', TY, '    def __call__(cls, packet=None):  # NOQA\n        def _makeobj(cls):\n            obj = object.__new__(cls)\n            obj.__init__()\n            return obj\n\n',
  '    @staticmethod\n    def _makeobj(cls):\n        obj = object.__new__(cls)\n        obj.__init__()\n        return obj\n\n    def __call__(cls, packet=None):  # NOQA\n', 'C08.g', more=[(TY, '            obj = _makeobj(ncls)\n', '            obj = MetaDispatchable._makeobj(rcls)\n'), (TY, '            obj = _makeobj(cls)\n', '            obj = MetaDispatchable._makeobj(cls)\n')])
M('C08', 'skesk-remainder-minus-1', PK, '        ctend = self.header.length - len(self.s2k)\n',
  '        ctend = self.header.length - len(self.s2k) - 1\n', 'C08.d')
M('C08', 'pubkey-fixed-part-sum-5', PK, '        self.created = packet[:4]\n        del packet[:4]\n\n        self.pkalg = packet[0]\n        del packet[0]\n\n        # bound keymaterial to the remaining length of the packet\n        pend = self.header.length - 6\n        self.keymaterial.parse(packet[:pend])\n        del packet[:pend]\n',
  '        self.created = packet[:4]\n        self.pkalg = packet[4]\n        del packet[:5]\n\n        fixed = 4 + 1\n        body = packet[:self.header.length - fixed]\n        self.keymaterial.parse(body)\n        del packet[:self.header.length - fixed]\n', 'C08.d')
M('C08', 'elg-alias-guard-falls-through', FL, '        if not self.s2k:\n            self.x = MPI(packet)\n\n            if self.s2k.usage == 0:\n                self.chksum = packet[:2]\n                del packet[:2]\n\n        else:\n            self.encbytes = packet\n\n    def decrypt_keyblob(self, passphrase):\n        kb = super(ElGPriv, self).decrypt_keyblob(passphrase)',
  '        if self.s2k:\n            self.encbytes = packet\n\n        else:\n            self.x = MPI(packet)\n\n        if self.s2k.usage in (0, 255):\n            cks = packet[:2]\n            del packet[:2]\n            self.chksum = cks\n\n    def decrypt_keyblob(self, passphrase):\n        kb = super(ElGPriv, self).decrypt_keyblob(passphrase)', 'C08.b')
M('C08', 'literal-append-len-chars', PK, '        _bytes += bytearray([len(filename)])\n        _bytes += filename',
  '        _bytes.append(len(self.filename))\n        _bytes.extend(filename)', 'C08.e')
M('C08', 'onepass-pop-reads-swapped', PK, '        self.sigtype = packet[0]\n        del packet[0]\n\n        self.halg = packet[0]\n        del packet[0]\n\n        self.pubalg = packet[0]\n        del packet[0]\n\n        self.signer = packet[:8]\n        del packet[:8]\n\n        self.nested = (packet[0] == 1)\n        del packet[0]',
  '        self.sigtype = packet.pop(0)\n        self.pubalg = packet.pop(0)\n        self.halg = packet.pop(0)\n\n        self.signer = packet[:8]\n        del packet[:8]\n\n        self.nested = (packet.pop(0) == 1)', 'C08.c')
M('C08', 'uri-bytes-constructor-utf16', SS, '        _bytes += self.uri.encode()\n        return _bytes',
  "        _bytes += bytes(self.uri, 'utf-16')\n        return _bytes", 'C08.f')
M('C08', 'filename-str-constructor-latin1', PK, '        self.filename = packet[:fnl].decode()\n',
  "        self.filename = str(packet[:fnl], 'latin-1')\n", 'C08.f')
M('C08', 'signer-hex-digits-utf16', PK, "        self._signer = binascii.hexlify(val).upper().decode('latin-1')",
  '        self._signer = val.hex().upper()', 'C08.f', more=[(PK, '        _bytes += binascii.unhexlify(self.signer.encode("latin-1"))', '        _bytes += binascii.unhexlify(self.signer.encode("utf-16"))')])
M('C08', 'uid-writer-codec-swapped', PK, "textenc = 'utf-8' if not self._encoding_fallback else 'charmap'",
  "textenc = 'utf-8' if self._encoding_fallback else 'charmap'", 'C08.f')
M('C08', 'uid-writer-ignores-fallback', PK, "textenc = 'utf-8' if not self._encoding_fallback else 'charmap'",
  "textenc = 'utf-8'", 'C08.f')
M('C08', 'uid-reader-forgets-fallback', PK, "            self.uid = uid_bytes.decode('charmap')\n            self._encoding_fallback = True",
  "            self.uid = uid_bytes.decode('charmap')", 'C08.f')
M('C08', 'uid-fallback-other-codec', PK, "            self.uid = uid_bytes.decode('charmap')\n",
  "            self.uid = uid_bytes.decode('cp437')\n", 'C08.f')
M('C08', 'uid-flag-set-on-primary-path', PK, "            self.uid = uid_bytes.decode('utf-8')\n",
  "            self.uid = uid_bytes.decode('utf-8')\n            self._encoding_fallback = True\n", 'C08.f')
M('C08', 'filename-latin1-writer', PK, "filename = self.filename.encode('utf-8')",
  "filename = self.filename.encode('latin-1')", 'C08.f')
M('C08', 'filename-latin1-reader', PK, 'self.filename = packet[:fnl].decode()',
  "self.filename = packet[:fnl].decode('latin-1')", 'C08.f')
M('C08', 'literal-format-utf8-writer', PK, "_bytes += self.format.encode('latin-1')",
  "_bytes += self.format.encode('utf-8')", 'C08.f')
M('C08', 'issuer-hex-utf16', SS, '_bytes += binascii.unhexlify(self._issuer.encode())',
  "_bytes += binascii.unhexlify(self._issuer.encode('utf-16'))", 'C08.f')
M('C08', 'dispatch-fallback-key-0', TY, '                ncls = MetaDispatchable._registry[(rcls, None)]',
  '                ncls = MetaDispatchable._registry[(rcls, 0)]', 'C08.g')
M('C08', 'dispatch-unknown-version-keeps-placeholder', TY, '                    else:  # pragma: no cover\n                        ncls = None\n',
  '                    else:  # pragma: no cover\n                        pass\n', 'C08.g')
M('C08', 'dispatch-body-parse-unwrapped', TY, '            try:\n                obj.parse(packet)\n\n            except Exception as ex:\n                raise PGPError(str(ex)) from ex\n',
  '            obj.parse(packet)\n', 'C08.g')
M('C08', 'dispatch-body-parse-valueerror', TY, '            try:\n                obj.parse(packet)\n\n            except Exception as ex:\n                raise PGPError(str(ex)) from ex\n',
  '            try:\n                obj.parse(packet)\n\n            except Exception as ex:\n                raise ValueError(str(ex)) from ex\n', 'C08.g')
M('C08', 'dispatch-body-parse-swallowed', TY, '            try:\n                obj.parse(packet)\n\n            except Exception as ex:\n                raise PGPError(str(ex)) from ex\n',
  '            try:\n                obj.parse(packet)\n\n            except Exception as ex:\n                pass\n', 'C08.g')
M('C08', 'dispatch-version-key-constant', TY, '                        ncls = MetaDispatchable._registry[(rcls, header.typeid, header.version)]',
  '                        ncls = MetaDispatchable._registry[(rcls, header.typeid, 4)]', 'C08.g')
M('C08', 'opaque-ignores-version-octet', PT, "        if hasattr(self.header, 'version'):\n            pend -= 1\n\n        self.payload",
  '        self.payload', 'C08.g')
M('C08', 'opaque-version-adjust-2', PT, '            pend -= 1\n\n        self.payload',
  '            pend -= 2\n\n        self.payload', 'C08.g')
M('C08', 'opaque-payload-transformed', PT, '        self.payload = packet[:pend]\n        del packet[:pend]',
  '        self.payload = packet[:pend].upper()\n        del packet[:pend]', 'C08.g')
M('C08', 'trust-typeid-wrong', PK, '    __typeid__ = 0x0C\n',
  '    __typeid__ = 0x1C\n', 'C08.g')
M('C08', 'pubsubkeyv4-ver-0', PK, 'class PubSubKeyV4(PubSubKey, PubKeyV4):\n    __ver__ = 4',
  'class PubSubKeyV4(PubSubKey, PubKeyV4):\n    __ver__ = 0', 'C08.g')
M('C08', 'onepass-update-before-signer', PGP, '        onepass.signer = self.signer\n        onepass.update_hlen()',
  '        onepass.update_hlen()\n        onepass.signer = self.signer', 'C08.h')
M('C08', 'mdc-update-on-wrong-object', PK, '        mdc.update_hlen()\n\n        data += mdc.__bytes__()',
  '        self.update_hlen()\n\n        data += mdc.__bytes__()', 'C08.h')
M('C08', 'pubkey-update-only-for-ecdh', PK, '            pk.keymaterial.kdf = copy.copy(self.keymaterial.kdf)\n\n        pk.update_hlen()',
  '            pk.keymaterial.kdf = copy.copy(self.keymaterial.kdf)\n            pk.update_hlen()', 'C08.h')
M('C08', 'pubkey-update-before-curve', PK, '        if self.pkalg in {PubKeyAlgorithm.ECDSA, PubKeyAlgorithm.EdDSA}:\n            pk.keymaterial.oid = self.keymaterial.oid\n\n        if self.pkalg == PubKeyAlgorithm.ECDH:\n            pk.keymaterial.oid = self.keymaterial.oid\n            pk.keymaterial.kdf = copy.copy(self.keymaterial.kdf)\n\n        pk.update_hlen()\n        return pk',
  '        pk.update_hlen()\n        if self.pkalg in {PubKeyAlgorithm.ECDSA, PubKeyAlgorithm.EdDSA}:\n            pk.keymaterial.oid = self.keymaterial.oid\n\n        if self.pkalg == PubKeyAlgorithm.ECDH:\n            pk.keymaterial.oid = self.keymaterial.oid\n            pk.keymaterial.kdf = copy.copy(self.keymaterial.kdf)\n\n        return pk', 'C08.h')
M('C08', 'sign-update-before-from-signer', PGP, '        sig._signature.signature.from_signer(_sig)\n        sig._signature.update_hlen()',
  '        sig._signature.update_hlen()\n        sig._signature.signature.from_signer(_sig)', 'C08.h')
M('C08', 'addnew-update-before-setattr', FL, '        nsp = getattr(self._spmodule, spname)()\n        for p, v in kwargs.items():\n            if hasattr(nsp, p):\n                setattr(nsp, p, v)\n        nsp.update_hlen()',
  '        nsp = getattr(self._spmodule, spname)()\n        nsp.update_hlen()\n        for p, v in kwargs.items():\n            if hasattr(nsp, p):\n                setattr(nsp, p, v)', 'C08.h')
M('C08', 'literal-update-before-format', PGP, "            lit.format = format\n\n            # if cls.is_ascii(message):\n            #     lit.format = 't'\n\n            lit.update_hlen()",
  '            lit.update_hlen()\n            lit.format = format', 'C08.h')
M('C08', 'protect-no-update', PK, '        self.keymaterial.encrypt_keyblob(passphrase, enc_alg, hash_alg)\n        del passphrase\n        self.update_hlen()',
  '        self.keymaterial.encrypt_keyblob(passphrase, enc_alg, hash_alg)\n        del passphrase', 'C08.h')
M('C08', 'compressed-no-update', PGP, '            comp.packets = [pkt for pkt in self]\n            comp.update_hlen()',
  '            comp.packets = [pkt for pkt in self]', 'C08.h')
M('C08', 'sigv4-own-length-first', PK, '        self.subpackets.update_hlen()\n        super(SignatureV4, self).update_hlen()',
  '        super(SignatureV4, self).update_hlen()\n        self.subpackets.update_hlen()', 'C08.h')
M('C08', 'userattribute-no-inner-update', PK, '        self.subpackets.update_hlen()\n        super(UserAttribute, self).update_hlen()',
  '        super(UserAttribute, self).update_hlen()', 'C08.h')
M('C08', 'packet-hlen-includes-header', PT, '        self.header.length = len(self.__bytearray__()) - len(self.header)',
  '        self.header.length = len(self.__bytearray__())', 'C08.h')
T('C08', 'twin-uid-codec-if-else', PK, "        textenc = 'utf-8' if not self._encoding_fallback else 'charmap'\n        _bytes += self.uid.encode(textenc)",
  "        if self._encoding_fallback:\n            _bytes += self.uid.encode('charmap')\n        else:\n            _bytes += self.uid.encode(encoding='utf-8')")
T('C08', 'twin-uid-flag-is-true', PK, "textenc = 'utf-8' if not self._encoding_fallback else 'charmap'",
  "textenc = 'charmap' if self._encoding_fallback is True else 'utf-8'")
T('C08', 'twin-filename-raw-local', PK, '        self.filename = packet[:fnl].decode()\n',
  "        raw_name = bytes(packet[:fnl])\n        self.filename = raw_name.decode('UTF8')\n")
T('C08', 'twin-decode-text-inlined', SS, '    def uri_bytearray(self, val):\n        self.uri = self._decode_text(val)',
  "    def uri_bytearray(self, val):\n        try:\n            text = val.decode('utf-8')\n        except UnicodeDecodeError:\n            text = val.decode('latin-1')\n        self.uri = text")
T('C08', 'twin-signer-default-codec', PK, 'self.signer.encode("latin-1")',
  'self.signer.encode()')
T('C08', 'twin-onepass-renamed-reordered', PGP, '        onepass = OnePassSignatureV3()\n        onepass.sigtype = self.type\n        onepass.halg = self.hash_algorithm\n        onepass.pubalg = self.key_algorithm\n        onepass.signer = self.signer\n        onepass.update_hlen()\n        return onepass',
  '        ops = OnePassSignatureV3()\n        ops.signer = self.signer\n        ops.pubalg = self.key_algorithm\n        ops.halg = self.hash_algorithm\n        ops.sigtype = self.type\n        pkt = ops\n        pkt.update_hlen()\n        return pkt')
T('C08', 'twin-uid-new-built-in-local', PGP, "            uid._uid = UserID()\n            uidstr = pn\n            if comment:\n                uidstr += ' (' + comment + ')'\n            if email:\n                uidstr += ' <' + email + '>'\n            uid._uid.uid = uidstr\n            uid._uid.update_hlen()",
  "            uidstr = pn\n            if comment:\n                uidstr += ' (' + comment + ')'\n            if email:\n                uidstr += ' <' + email + '>'\n            pkt = UserID()\n            pkt.uid = uidstr\n            pkt.update_hlen()\n            uid._uid = pkt")
T('C08', 'twin-sigv4-explicit-base-call', PK, '        self.subpackets.update_hlen()\n        super(SignatureV4, self).update_hlen()',
  '        sp = self.subpackets\n        sp.update_hlen()\n        VersionedPacket.update_hlen(self)')
T('C08', 'twin-hlen-temporaries', PT, '        self.header.length = len(self.__bytearray__()) - len(self.header)',
  '        body = self.__bytearray__()\n        hdr = len(self.header)\n        self.header.length = -hdr + len(body)')
T('C08', 'twin-mdc-renamed', PK, "        mdc = MDC()\n        mdc.mdc = binascii.hexlify(hashlib.new('SHA1', data + b'\\xd3\\x14').digest())\n        mdc.update_hlen()\n\n        data += mdc.__bytes__()",
  "        digest = binascii.hexlify(hashlib.new('SHA1', data + b'\\xd3\\x14').digest())\n        trailer = MDC()\n        trailer.mdc = digest\n        trailer.update_hlen()\n\n        data += trailer.__bytes__()")
T('C08', 'twin-protect-km-local', PK, '        self.keymaterial.encrypt_keyblob(passphrase, enc_alg, hash_alg)\n        del passphrase\n        self.update_hlen()',
  '        km = self.keymaterial\n        km.encrypt_keyblob(passphrase, enc_alg, hash_alg)\n        del passphrase\n        self.update_hlen()')
T('C08', 'twin-opaque-skip-expression', PT, "        pend = self.header.length\n        if hasattr(self.header, 'version'):\n            pend -= 1\n\n        self.payload = packet[:pend]\n        del packet[:pend]",
  "        skip = 1 if hasattr(self.header, 'version') else 0\n        body_len = self.header.length - skip\n        body = packet[:body_len]\n        del packet[:body_len]\n        self.payload = body")
T('C08', 'twin-dispatch-registry-local', TY, '            ncls = None\n            if (rcls, header.typeid) in MetaDispatchable._registry:\n                ncls = MetaDispatchable._registry[(rcls, header.typeid)]\n',
  '            reg = MetaDispatchable._registry\n            ncls = None\n            if (rcls, header.typeid) in reg:\n                ncls = reg[rcls, header.typeid]\n')
T('C08', 'twin-dispatch-raise-local', TY, '            try:\n                obj.parse(packet)\n\n            except Exception as ex:\n                raise PGPError(str(ex)) from ex\n',
  '            try:\n                obj.parse(packet)\n\n            except Exception as exc:\n                err = PGPError(str(exc))\n                raise err from exc\n')
T('C08', 'twin-typeid-folded', PK, '    __typeid__ = 0x0C\n',
  '    __typeid__ = 8 + 4\n')
T('C08', 'twin-onepass-merged-del', PK, '        self.sigtype = packet[0]\n        del packet[0]\n\n        self.halg = packet[0]\n        del packet[0]\n\n        self.pubalg = packet[0]\n        del packet[0]\n\n        self.signer = packet[:8]\n        del packet[:8]\n\n        self.nested = (packet[0] == 1)\n        del packet[0]',
  '        self.sigtype = packet[0]\n        self.halg = packet[1]\n        self.pubalg = packet[2]\n        del packet[:3]\n\n        self.signer = packet[:8]\n        del packet[:8]\n\n        self.nested = (packet[0] == 1)\n        del packet[0]')
T('C08', 'twin-onepass-all-offsets', PK, '        self.sigtype = packet[0]\n        del packet[0]\n\n        self.halg = packet[0]\n        del packet[0]\n\n        self.pubalg = packet[0]\n        del packet[0]\n\n        self.signer = packet[:8]\n        del packet[:8]\n\n        self.nested = (packet[0] == 1)\n        del packet[0]',
  '        self.sigtype = packet[0]\n        self.halg = packet[1]\n        self.pubalg = packet[2]\n        self.signer = packet[3:11]\n        self.nested = (packet[11] == 1)\n        del packet[:12]')
T('C08', 'twin-onepass-temporaries', PK, '        self.sigtype = packet[0]\n        del packet[0]\n\n        self.halg = packet[0]\n        del packet[0]\n\n        self.pubalg = packet[0]\n        del packet[0]\n\n        self.signer = packet[:8]\n        del packet[:8]\n\n        self.nested = (packet[0] == 1)\n        del packet[0]',
  '        sigtype = packet[0]\n        del packet[0]\n        halg = packet[0]\n        del packet[0]\n        pubalg = packet[0]\n        del packet[0]\n        keyid = packet[:8]\n        del packet[:8]\n        nested_flag = packet[0]\n        del packet[0]\n\n        self.sigtype = sigtype\n        self.halg = halg\n        self.pubalg = pubalg\n        self.signer = keyid\n        self.nested = (nested_flag == 1)')
T('C08', 'twin-onepass-writer-merged', PK, '        _bytes += bytearray([self.sigtype])\n        _bytes += bytearray([self.halg])\n        _bytes += bytearray([self.pubalg])\n        _bytes += binascii.unhexlify(self.signer.encode("latin-1"))\n        _bytes += bytearray([int(self.nested)])\n        return _bytes',
  '        _bytes += bytearray([self.sigtype, self.halg, self.pubalg])\n        keyid = binascii.unhexlify(self.signer.encode("latin-1"))\n        _bytes.extend(keyid)\n        _bytes.append(int(self.nested))\n        return _bytes')
T('C08', 'twin-literal-rest-local', PK, '        self._contents = packet[:self.header.length - (6 + fnl)]\n        del packet[:self.header.length - (6 + fnl)]',
  '        rest = self.header.length - fnl - 6\n        self._contents = packet[:rest]\n        del packet[:rest]')
T('C08', 'twin-literal-consumed-sum', PK, '        self._contents = packet[:self.header.length - (6 + fnl)]\n        del packet[:self.header.length - (6 + fnl)]',
  '        consumed = 1 + 1 + fnl + 4\n        self._contents = packet[:self.header.length - consumed]\n        del packet[:self.header.length - consumed]')
T('C08', 'twin-literal-name-len-local', PK, "        filename = self.filename.encode('utf-8')\n        _bytes += bytearray([len(filename)])\n        _bytes += filename",
  "        name_octets = self.filename.encode('utf-8')\n        name_len = len(name_octets)\n        _bytes += self.int_to_bytes(name_len, 1) + name_octets")
T('C08', 'twin-rsa-parse-locals', FL, '    def parse(self, packet):\n        self.n = MPI(packet)\n        self.e = MPI(packet)\n\n\nclass DSAPub',
  '    def parse(self, packet):\n        n = MPI(packet)\n        e = MPI(packet)\n        self.n, self.e = n, e\n\n\nclass DSAPub')
T('C08', 'twin-pubkey-restructured', PK, '        pk = PubKeyV4() if not isinstance(self, PrivSubKeyV4) else PubSubKeyV4()\n        pk.created = self.created\n        pk.pkalg = self.pkalg\n\n        # copy over MPIs\n        for pm in self.keymaterial.__pubfields__:\n            setattr(pk.keymaterial, pm, copy.copy(getattr(self.keymaterial, pm)))\n\n        if self.pkalg in {PubKeyAlgorithm.ECDSA, PubKeyAlgorithm.EdDSA}:\n            pk.keymaterial.oid = self.keymaterial.oid\n\n        if self.pkalg == PubKeyAlgorithm.ECDH:\n            pk.keymaterial.oid = self.keymaterial.oid\n            pk.keymaterial.kdf = copy.copy(self.keymaterial.kdf)\n\n        pk.update_hlen()\n        return pk',
  '        if isinstance(self, PrivSubKeyV4):\n            pub = PubSubKeyV4()\n        else:\n            pub = PubKeyV4()\n        pub.created = self.created\n        pub.pkalg = self.pkalg\n\n        secret_km = self.keymaterial\n        public_km = pub.keymaterial\n\n        for field in secret_km.__pubfields__:\n            setattr(public_km, field, copy.copy(getattr(secret_km, field)))\n\n        if self.pkalg in {PubKeyAlgorithm.ECDSA, PubKeyAlgorithm.EdDSA, PubKeyAlgorithm.ECDH}:\n            public_km.oid = secret_km.oid\n\n        if self.pkalg == PubKeyAlgorithm.ECDH:\n            public_km.kdf = copy.copy(secret_km.kdf)\n\n        pub.update_hlen()\n        return pub')
T('C08', 'twin-dispatch-get-and-helper', TY, '            ncls = None\n            if (rcls, header.typeid) in MetaDispatchable._registry:\n                ncls = MetaDispatchable._registry[(rcls, header.typeid)]\n\n                if ncls.__ver__ == 0:\n                    if header.__class__ != ncls.__headercls__:\n                        nh = ncls.__headercls__()\n                        nh.__dict__.update(header.__dict__)\n                        try:\n                            nh.parse(packet)\n\n                        except Exception as ex:\n                            raise PGPError(str(ex)) from ex\n\n                        header = nh\n\n                    if (rcls, header.typeid, header.version) in MetaDispatchable._registry:\n                        ncls = MetaDispatchable._registry[(rcls, header.typeid, header.version)]\n\n                    else:  # pragma: no cover\n                        ncls = None\n\n            if ncls is None:\n                ncls = MetaDispatchable._registry[(rcls, None)]\n',
  '            registry = MetaDispatchable._registry\n\n            ncls = registry.get((rcls, header.typeid))\n            if ncls is not None and ncls.__ver__ == 0:\n                header = MetaDispatchable._versioned_header(header, ncls, packet)\n                ncls = registry.get((rcls, header.typeid, header.version))\n\n            if ncls is None:\n                ncls = registry[(rcls, None)]\n', more=[(TY, '    def __call__(cls, packet=None):  # NOQA\n', '    @staticmethod\n    def _versioned_header(header, ncls, packet):\n        if header.__class__ != ncls.__headercls__:\n            nh = ncls.__headercls__()\n            nh.__dict__.update(header.__dict__)\n            try:\n                nh.parse(packet)\n\n            except Exception as ex:\n                raise PGPError(str(ex)) from ex\n\n            return nh\n\n        return header\n\n    def __call__(cls, packet=None):  # NOQA\n')])
T('C08', 'twin-header-first-octet-once', PT, '        self._lenfmt = ((packet[0] & 0x40) >> 6)\n        self.tag = packet[0]\n        if self._lenfmt == 0:\n            self.llen = (packet[0] & 0x03)\n        del packet[0]\n\n        if (self._lenfmt == 0 and self.llen > 0) or self._lenfmt == 1:\n            self.length = packet\n\n        else:\n            # indeterminate packet length\n            self.length = len(packet)\n',
  '        first_octet = packet[0]\n        self._lenfmt = ((first_octet & 0x40) >> 6)\n        self.tag = first_octet\n        if self._lenfmt == 0:\n            self.llen = (first_octet & 0x03)\n        del packet[0]\n\n        has_length_field = self._lenfmt == 1 or (self._lenfmt == 0 and self.llen > 0)\n        if not has_length_field:\n            # indeterminate packet length\n            self.length = len(packet)\n\n        else:\n            self.length = packet\n')
T('C08', 'twin-pkesk-pkalg-get', PK, '        ct = _c.get(self._pkalg, None)\n        self.ct = ct() if ct is not None else ct\n',
  '        ctcls = _c.get(self._pkalg)\n        if ctcls is None:\n            self.ct = None\n\n        else:\n            self.ct = ctcls()\n', more=[(PK, "        _bytes += self.ct.__bytearray__() if self.ct is not None else b'\\x00' * (self.header.length - 10)\n", "        if self.ct is not None:\n            _bytes += self.ct.__bytearray__()\n\n        else:\n            _bytes += b'\\x00' * (self.header.length - 10)\n")])
T('C08', 'twin-hashed-area-peek-spelling', FL, '        hl = self.bytes_to_int(packet[:2])\n        hashed_raw = packet[:2 + hl]\n        del packet[:2]\n',
  '        count_octets = packet[:2]\n        hl = self.bytes_to_int(count_octets)\n        area_end = hl + 2\n        hashed_raw = packet[:area_end]\n        del packet[:2]\n')
T('C08', 'twin-pubkey-fixed-part-local-body', PK, '        self.created = packet[:4]\n        del packet[:4]\n\n        self.pkalg = packet[0]\n        del packet[0]\n\n        # bound keymaterial to the remaining length of the packet\n        pend = self.header.length - 6\n        self.keymaterial.parse(packet[:pend])\n        del packet[:pend]\n',
  '        self.created = packet[:4]\n        self.pkalg = packet[4]\n        del packet[:5]\n\n        fixed = 1 + 4 + 1\n        body = packet[:self.header.length - fixed]\n        self.keymaterial.parse(body)\n        del packet[:self.header.length - fixed]\n')
T('C08', 'twin-pubkey-writer-one-expression', PK, '        _bytes += self.int_to_bytes(calendar.timegm(self.created.utctimetuple()), 4)\n        _bytes += self.int_to_bytes(self.pkalg)\n        _bytes += self.keymaterial.__bytearray__()\n        return _bytes\n\n    def __copy__(self):\n        pk = self.__class__()',
  '        stamp = calendar.timegm(self.created.utctimetuple())\n        return _bytes + self.int_to_bytes(stamp, 4) + bytearray([self.pkalg]) + self.keymaterial.__bytearray__()\n\n    def __copy__(self):\n        pk = self.__class__()')
T('C08', 'twin-signer-hex-method', PK, "        self._signer = binascii.hexlify(val).upper().decode('latin-1')",
  '        self._signer = val.hex().upper()')
T('C08', 'twin-signer-hex-fromhex', PK, "        self._signer = binascii.hexlify(val).upper().decode('latin-1')",
  '        self._signer = val.hex().upper()', more=[(PK, '        _bytes += binascii.unhexlify(self.signer.encode("latin-1"))', '        _bytes += bytearray.fromhex(self.signer)')])
T('C08', 'twin-skesk-remainder-locals', PK, '        ctend = self.header.length - len(self.s2k)\n        self.ct = packet[:ctend]\n        del packet[:ctend]\n',
  '        s2k_len = len(self.s2k)\n        total = self.header.length\n        self.ct = packet[:total - s2k_len]\n        del packet[:total - s2k_len]\n')
T('C08', 'twin-elg-alias-guard-clause', FL, '        if not self.s2k:\n            self.x = MPI(packet)\n\n            if self.s2k.usage == 0:\n                self.chksum = packet[:2]\n                del packet[:2]\n\n        else:\n            self.encbytes = packet\n\n    def decrypt_keyblob(self, passphrase):\n        kb = super(ElGPriv, self).decrypt_keyblob(passphrase)',
  '        if self.s2k:\n            self.encbytes = packet\n            return\n\n        self.x = MPI(packet)\n\n        if self.s2k.usage == 0:\n            cks = packet[:2]\n            del packet[:2]\n            self.chksum = cks\n\n    def decrypt_keyblob(self, passphrase):\n        kb = super(ElGPriv, self).decrypt_keyblob(passphrase)')
T('C08', 'twin-literal-writer-append-extend', PK, '        _bytes += bytearray([len(filename)])\n        _bytes += filename',
  '        _bytes.append(len(filename))\n        _bytes.extend(filename)')
T('C08', 'twin-trust-two-targets-reordered', PK, '        t = self.bytes_to_int(packet[:2])\n        del packet[:2]\n\n        self.trustlevel = t\n        self.trustflags = t',
  '        raw = packet[:2]\n        del packet[:2]\n        value = self.bytes_to_int(raw)\n\n        self.trustflags = value\n        self.trustlevel = value')
T('C08', 'twin-onepass-pop-reads', PK, '        self.sigtype = packet[0]\n        del packet[0]\n\n        self.halg = packet[0]\n        del packet[0]\n\n        self.pubalg = packet[0]\n        del packet[0]\n\n        self.signer = packet[:8]\n        del packet[:8]\n\n        self.nested = (packet[0] == 1)\n        del packet[0]',
  '        self.sigtype = packet.pop(0)\n        self.halg = packet.pop(0)\n        self.pubalg = packet.pop(0)\n\n        self.signer = packet[:8]\n        del packet[:8]\n\n        self.nested = (packet.pop(0) == 1)')
T('C08', 'twin-onepass-setattr-loop', PK, '        self.sigtype = packet[0]\n        del packet[0]\n\n        self.halg = packet[0]\n        del packet[0]\n\n        self.pubalg = packet[0]\n        del packet[0]\n\n        self.signer = packet[:8]\n        del packet[:8]\n\n        self.nested = (packet[0] == 1)\n        del packet[0]',
  "        for attr in ('sigtype', 'halg', 'pubalg'):\n            setattr(self, attr, packet[0])\n            del packet[0]\n\n        self.signer = packet[:8]\n        del packet[:8]\n\n        self.nested = (packet[0] == 1)\n        del packet[0]")
T('C08', 'twin-uri-bytes-constructor', SS, '        _bytes += self.uri.encode()\n        return _bytes',
  "        _bytes += bytes(self.uri, 'utf-8')\n        return _bytes")
T('C08', 'twin-filename-str-constructor', PK, '        self.filename = packet[:fnl].decode()\n',
  "        self.filename = str(packet[:fnl], 'utf-8')\n")
T('C08', 'twin-literal-empty-early-return', PK, '        self.mtime = packet[:4]\n        del packet[:4]\n\n        self._contents',
  '        self.mtime = packet[:4]\n        del packet[:4]\n\n        if self.header.length - (6 + fnl) == 0:\n            self._contents = bytearray()\n            return\n\n        self._contents')
T('C08', 'twin-notation-lengths-to-bytes', SS, '        _bytes += self.int_to_bytes(len(name), 2)\n        _bytes += self.int_to_bytes(len(value), 2)\n',
  "        _bytes += len(name).to_bytes(2, 'big')\n        _bytes += len(value).to_bytes(2, 'big')\n")
T('C08', 'twin-seipd-length-locals', PK, '        self.ct = packet[:self.header.length - 1]\n        del packet[:self.header.length - 1]\n\n    def encrypt(self, key, alg, data):',
  '        hlen = self.header.length\n        body = hlen - 1\n        self.ct = packet[:body]\n        del packet[:body]\n\n    def encrypt(self, key, alg, data):')
T('C08', 'twin-notation-offset-reads', SS, '        self.flags = packet[:1]\n        del packet[:4]\n        nlen = self.bytes_to_int(packet[:2])\n        del packet[:2]\n        vlen = self.bytes_to_int(packet[:2])\n        del packet[:2]\n',
  '        self.flags = packet[:1]\n        nlen = self.bytes_to_int(packet[4:6])\n        vlen = self.bytes_to_int(packet[6:8])\n        del packet[:8]\n')
T('C08', 'twin-hashed-area-count-from-bytes', FL, '        hl = self.bytes_to_int(packet[:2])\n        hashed_raw = packet[:2 + hl]\n        del packet[:2]\n',
  "        hl = int.from_bytes(packet[:2], 'big')\n        hashed_raw = packet[:2 + hl]\n        del packet[:2]\n")
T('C08', 'twin-dispatch-factory-staticmethod', TY, '    def __call__(cls, packet=None):  # NOQA\n        def _makeobj(cls):\n            obj = object.__new__(cls)\n            obj.__init__()\n            return obj\n\n',
  '    @staticmethod\n    def _makeobj(cls):\n        obj = object.__new__(cls)\n        obj.__init__()\n        return obj\n\n    def __call__(cls, packet=None):  # NOQA\n', more=[(TY, '            obj = _makeobj(ncls)\n', '            obj = MetaDispatchable._makeobj(ncls)\n'), (TY, '            obj = _makeobj(cls)\n', '            obj = MetaDispatchable._makeobj(cls)\n')])
# repeated items: loop <-> EACH, loop bound, early exit, wrong length field, field read twice (second-wave miss C08-w2mut3 and its relatives)
M('C08', 'ua-loop-to-if', PK, '        while self.header.length > (plen - len(packet)):\n            self.subpackets.parse(packet)',
  '        if self.header.length > (plen - len(packet)):\n            self.subpackets.parse(packet)', 'C08.c')
M('C08', 'hashed-loop-to-if', FL, '        while plen - len(packet) < hl:\n',
  '        if plen - len(packet) < hl:\n', 'C08.c')
M('C08', 'unhashed-loop-once', FL, '        while plen - len(packet) < uhl:\n            sp = SignatureSP(packet)\n            self[sp.__class__.__name__] = sp',
  '        if uhl:\n            sp = SignatureSP(packet)\n            self[sp.__class__.__name__] = sp', 'C08.c')
M('C08', 'compressed-loop-to-if', PK, '        while len(cdata) > 0:\n            self.packets.append(Packet(cdata))',
  '        if len(cdata) > 0:\n            self.packets.append(Packet(cdata))', 'C08.c')
M('C08', 'hashed-bound-plus-header', FL, '        while plen - len(packet) < hl:\n',
  '        while plen - len(packet) < hl + 2:\n', 'C08.d')
M('C08', 'hashed-bound-le', FL, '        while plen - len(packet) < hl:\n',
  '        while plen - len(packet) <= hl:\n', 'C08.d')
M('C08', 'ua-bound-ge', PK, '        while self.header.length > (plen - len(packet)):\n',
  '        while self.header.length >= (plen - len(packet)):\n', 'C08.d')
M('C08', 'ua-bound-minus-header', PK, '        while self.header.length > (plen - len(packet)):\n',
  '        while self.header.length - len(self.header) > (plen - len(packet)):\n', 'C08.d')
M('C08', 'unhashed-until-empty', FL, '        while plen - len(packet) < uhl:\n',
  '        while len(packet) > 0:\n', 'C08.d')
M('C08', 'unhashed-bound-stale-length', FL, '        while plen - len(packet) < uhl:\n',
  '        while plen - len(packet) < hl:\n', 'C08.d')
M('C08', 'hashed-stop-at-opaque', FL, "            sp = SignatureSP(packet)\n            self['h_' + sp.__class__.__name__] = sp\n",
  "            sp = SignatureSP(packet)\n            if sp.__class__.__name__ == 'Opaque':\n                break\n            self['h_' + sp.__class__.__name__] = sp\n", 'C08.d')
M('C08', 'compressed-stop-at-opaque', PK, '        while len(cdata) > 0:\n            self.packets.append(Packet(cdata))',
  '        while len(cdata) > 0:\n            pkt = Packet(cdata)\n            if pkt.header.tag == 0:\n                return\n            self.packets.append(pkt)', 'C08.d')
M('C08', 'reason-width-len-packet', SS, '        self.string = packet[:(self.header.length - 2)]\n        del packet[:(self.header.length - 2)]',
  '        self.string = packet[:len(packet)]\n        del packet[:len(packet)]', 'C08.d')
M('C08', 'literal-remainder-llen', PK, '        self._contents = packet[:self.header.length - (6 + fnl)]\n        del packet[:self.header.length - (6 + fnl)]',
  '        self._contents = packet[:self.header.llen - (6 + fnl)]\n        del packet[:self.header.llen - (6 + fnl)]', 'C08.d')
M('C08', 'seipd-remainder-len-packet', PK, '        self.ct = packet[:self.header.length - 1]\n        del packet[:self.header.length - 1]\n\n    def encrypt(self, key, alg, data):',
  '        self.ct = packet[:len(packet) - 1]\n        del packet[:len(packet) - 1]\n\n    def encrypt(self, key, alg, data):', 'C08.d')
M('C08', 'sig-pubalg-read-twice', PK, '        self.pubalg = packet[0]\n        del packet[0]\n\n        self.halg = packet[0]\n        del packet[0]\n\n        self.subpackets.parse(packet)\n',
  '        self.pubalg = packet[0]\n        del packet[0]\n\n        self.pubalg = packet[0]\n        del packet[0]\n\n        self.subpackets.parse(packet)\n', 'C08.c')
M('C08', 'sig-halg-peeked-not-consumed', PK, '        self.pubalg = packet[0]\n        del packet[0]\n\n        self.halg = packet[0]\n        del packet[0]\n\n        self.subpackets.parse(packet)\n',
  '        self.pubalg = packet[0]\n        del packet[0]\n\n        self.halg = packet[0]\n\n        self.subpackets.parse(packet)\n', 'C08.a')
M('C08', 'literal-mtime-read-twice', PK, '        self.mtime = packet[:4]\n        del packet[:4]\n',
  '        self.mtime = packet[:4]\n        del packet[:4]\n        self.mtime = packet[:4]\n        del packet[:4]\n', 'C08.c')
T('C08', 'twin-ua-loop-consumed-local', PK, '        plen = len(packet)\n        while self.header.length > (plen - len(packet)):\n            self.subpackets.parse(packet)',
  '        start = len(packet)\n        total = self.header.length\n        while start - len(packet) < total:\n            self.subpackets.parse(packet)')
T('C08', 'twin-hashed-loop-stop-local', FL, "        plen = len(packet)\n        while plen - len(packet) < hl:\n            sp = SignatureSP(packet)\n            self['h_' + sp.__class__.__name__] = sp\n",
  "        stop = len(packet) - hl\n        while len(packet) > stop:\n            sp = SignatureSP(packet)\n            self['h_' + sp.__class__.__name__] = sp\n")
T('C08', 'twin-hashed-loop-while-true', FL, "        plen = len(packet)\n        while plen - len(packet) < hl:\n            sp = SignatureSP(packet)\n            self['h_' + sp.__class__.__name__] = sp\n",
  "        plen = len(packet)\n        while True:\n            if plen - len(packet) >= hl:\n                break\n            sp = SignatureSP(packet)\n            self['h_' + sp.__class__.__name__] = sp\n")
T('C08', 'twin-compressed-loop-truthy', PK, '        while len(cdata) > 0:\n            self.packets.append(Packet(cdata))',
  '        while cdata:\n            pkt = Packet(cdata)\n            self.packets.append(pkt)')
T('C08', 'twin-compressed-writer-join', PK, '        _pb = bytearray()\n        for pkt in self.packets:\n            _pb += pkt.__bytearray__()\n        _bytes += self.calg.compress(bytes(_pb))',
  "        _pb = b''.join(bytes(pkt.__bytearray__()) for pkt in self.packets)\n        _bytes += self.calg.compress(_pb)")
M('C08', 'reason-width-open-slice', SS, '        self.string = packet[:(self.header.length - 2)]\n        del packet[:(self.header.length - 2)]',
  '        self.string = packet[:]\n        del packet[:]', 'C08.d')
M('C08', 'reason-width-end-relative', SS, '        self.string = packet[:(self.header.length - 2)]\n        del packet[:(self.header.length - 2)]',
  '        self.string = packet[:-1]\n        del packet[:-1]', 'C08.d')
# third wave: header length codec under C08.i, hex-text value codecs (C08.f), delegates of families with open readers (C08.d)
M('C08', 'partial-mask-0f', TY, 'return (1 << (fo & 0x1f), 1, True)',
  'return (1 << (fo & 0x0f), 1, True)', 'C08.i')
M('C08', 'two-octet-decode-mask-0f00', TY, 'return (((dlen - (192 << 8)) & 0xFF00) + ((dlen & 0xFF) + 192), 2, False)',
  'return (((dlen - (192 << 8)) & 0x0F00) + ((dlen & 0xFF) + 192), 2, False)', 'C08.i')
M('C08', 'two-octet-encode-mask-0f00', TY, 'elen = ((nl & 0xFF00) + (192 << 8)) + ((nl & 0xFF) - 192)',
  'elen = ((nl & 0x0F00) + (192 << 8)) + ((nl & 0xFF) - 192)', 'C08.i')
M('C08', 'encode-threshold-8383', TY, '            elif 8384 > nl:\n                elen',
  '            elif 8383 > nl:\n                elen', 'C08.i')
M('C08', 'five-octet-decode-short', TY, 'return (self.bytes_to_int(b[offset + 1:offset + 5]), 5, False)',
  'return (self.bytes_to_int(b[offset + 1:offset + 4]), 5, False)', 'C08.i')
M('C08', 'subpacket-typeid-mask-3f', ST, '        self._typeid = val & 0x7f',
  '        self._typeid = val & 0x3f', 'C08.i')
M('C08', 'issuerfpr-int-format-40', SS, "        self.issuer_fingerprint = ''.join('{:02x}'.format(c) for c in val).upper()",
  "        self.issuer_fingerprint = '{:040X}'.format(self.bytes_to_int(val))", 'C08.f')
M('C08', 'recipient-percent-format-40', SS, "        self.intended_recipient = ''.join('{:02x}'.format(c) for c in val).upper()",
  "        self.intended_recipient = '%040X' % self.bytes_to_int(val)", 'C08.f')
M('C08', 'revkey-octets-unpadded', SS, "        self.fingerprint = ''.join('{:02x}'.format(c) for c in val).upper()",
  "        self.fingerprint = ''.join('{:x}'.format(c) for c in val).upper()", 'C08.f')
M('C08', 'issuer-int-format-unpadded', SS, "        self._issuer = binascii.hexlify(val).upper().decode('latin-1')",
  "        self._issuer = '{:X}'.format(self.bytes_to_int(val))", 'C08.f')
M('C08', 'issuerfpr-format-builtin-40', SS, "        self.issuer_fingerprint = ''.join('{:02x}'.format(c) for c in val).upper()",
  "        self.issuer_fingerprint = format(int.from_bytes(val, 'big'), '040X')", 'C08.f')
M('C08', 'issuerfpr-writer-int-20', SS, '        _bytes += self.issuer_fingerprint.__bytes__()',
  '        _bytes += self.int_to_bytes(int(self.issuer_fingerprint, 16), 20)', 'C08.f')
M('C08', 'issuer-writer-int-minimal', SS, '        _bytes += binascii.unhexlify(self._issuer.encode())',
  '        _bytes += self.int_to_bytes(int(self._issuer, 16))', 'C08.f')
T('C08', 'twin-issuer-int-format-16', SS, "        self._issuer = binascii.hexlify(val).upper().decode('latin-1')",
  "        self._issuer = '{:016X}'.format(self.bytes_to_int(val))")
T('C08', 'twin-issuerfpr-hex-method', SS, "        self.issuer_fingerprint = ''.join('{:02x}'.format(c) for c in val).upper()",
  '        self.issuer_fingerprint = val.hex().upper()')
T('C08', 'twin-revkey-int-format-40', SS, "        self.fingerprint = ''.join('{:02x}'.format(c) for c in val).upper()",
  "        self.fingerprint = '{:040X}'.format(self.bytes_to_int(val))")
T('C08', 'twin-issuerfpr-percent-octets', SS, "        self.issuer_fingerprint = ''.join('{:02x}'.format(c) for c in val).upper()",
  "        self.issuer_fingerprint = ''.join(format(octet, '02X') for octet in val)")
M('C08', 'pubkey-public-arm-in-place', PK, '        # bound keymaterial to the remaining length of the packet\n        pend = self.header.length - 6\n        self.keymaterial.parse(packet[:pend])\n        del packet[:pend]\n',
  '        if self.public:\n            self.keymaterial.parse(packet)\n\n        else:\n            pend = self.header.length - 6\n            self.keymaterial.parse(packet[:pend])\n            del packet[:pend]\n', 'C08.d')
M('C08', 'pubkey-keymaterial-in-place', PK, '        # bound keymaterial to the remaining length of the packet\n        pend = self.header.length - 6\n        self.keymaterial.parse(packet[:pend])\n        del packet[:pend]\n',
  '        self.keymaterial.parse(packet)\n', 'C08.d')
M('C08', 'pubkey-bound-only-when-long', PK, '        # bound keymaterial to the remaining length of the packet\n        pend = self.header.length - 6\n        self.keymaterial.parse(packet[:pend])\n        del packet[:pend]\n',
  '        pend = self.header.length - 6\n        if pend > 0:\n            self.keymaterial.parse(packet[:pend])\n            del packet[:pend]\n\n        else:\n            self.keymaterial.parse(packet)\n', 'C08.d')
M('C08', 'pubkey-slice-not-consumed', PK, '        # bound keymaterial to the remaining length of the packet\n        pend = self.header.length - 6\n        self.keymaterial.parse(packet[:pend])\n        del packet[:pend]\n',
  '        pend = self.header.length - 6\n        self.keymaterial.parse(packet[:pend])\n', 'C08.a')
M('C08', 'pubkey-open-slice', PK, '        # bound keymaterial to the remaining length of the packet\n        pend = self.header.length - 6\n        self.keymaterial.parse(packet[:pend])\n        del packet[:pend]\n',
  '        self.keymaterial.parse(packet[:])\n        del packet[:]\n', 'C08.d')
M('C08', 'pkesk-opaque-ct-in-place', PK, '        ct = _c.get(self._pkalg, None)\n',
  '        ct = _c.get(self._pkalg, OpaqueSignature)\n', 'C08.d')
T('C08', 'twin-pubkey-cut-local', PK, '        # bound keymaterial to the remaining length of the packet\n        pend = self.header.length - 6\n        self.keymaterial.parse(packet[:pend])\n        del packet[:pend]\n',
  '        rest = self.header.length - 6\n        body = packet[:rest]\n        del packet[:rest]\n        self.keymaterial.parse(body)\n')
# offset form with one del (twin C05-ref10): reads at integer-linear offsets tile the consumed range; length pairing
T('C08', 'twin-notation-one-del', SS, '        self.flags = packet[:1]\n        del packet[:4]\n        nlen = self.bytes_to_int(packet[:2])\n        del packet[:2]\n        vlen = self.bytes_to_int(packet[:2])\n        del packet[:2]\n        self.name = packet[:nlen]\n        del packet[:nlen]\n        self.value = packet[:vlen]\n        del packet[:vlen]\n',
  '        self.flags = packet[:1]\n        nlen = self.bytes_to_int(packet[4:6])\n        vlen = self.bytes_to_int(packet[6:8])\n        name_end = 8 + nlen\n        value_end = name_end + vlen\n        self.name = packet[8:name_end]\n        self.value = packet[name_end:value_end]\n        del packet[:value_end]\n')
T('C08', 'twin-notation-one-del-inline', SS, '        self.flags = packet[:1]\n        del packet[:4]\n        nlen = self.bytes_to_int(packet[:2])\n        del packet[:2]\n        vlen = self.bytes_to_int(packet[:2])\n        del packet[:2]\n        self.name = packet[:nlen]\n        del packet[:nlen]\n        self.value = packet[:vlen]\n        del packet[:vlen]\n',
  '        self.flags = packet[:1]\n        nlen = self.bytes_to_int(packet[4:6])\n        vlen = self.bytes_to_int(packet[6:8])\n        self.name = packet[8:8 + nlen]\n        self.value = packet[8 + nlen:8 + nlen + vlen]\n        del packet[:vlen + nlen + 8]\n')
M('C08', 'notation-one-del-gap', SS, '        self.flags = packet[:1]\n        del packet[:4]\n        nlen = self.bytes_to_int(packet[:2])\n        del packet[:2]\n        vlen = self.bytes_to_int(packet[:2])\n        del packet[:2]\n        self.name = packet[:nlen]\n        del packet[:nlen]\n        self.value = packet[:vlen]\n        del packet[:vlen]\n',
  '        self.flags = packet[:1]\n        nlen = self.bytes_to_int(packet[4:6])\n        vlen = self.bytes_to_int(packet[6:8])\n        name_end = 8 + nlen\n        value_end = name_end + vlen\n        self.name = packet[8:name_end]\n        self.value = packet[name_end + 1:value_end + 1]\n        del packet[:value_end]\n', 'C08.a')
M('C08', 'notation-one-del-overlap', SS, '        self.flags = packet[:1]\n        del packet[:4]\n        nlen = self.bytes_to_int(packet[:2])\n        del packet[:2]\n        vlen = self.bytes_to_int(packet[:2])\n        del packet[:2]\n        self.name = packet[:nlen]\n        del packet[:nlen]\n        self.value = packet[:vlen]\n        del packet[:vlen]\n',
  '        self.flags = packet[:1]\n        nlen = self.bytes_to_int(packet[4:6])\n        vlen = self.bytes_to_int(packet[6:8])\n        name_end = 8 + nlen\n        value_end = name_end + vlen\n        self.name = packet[8:name_end]\n        self.value = packet[name_end - 1:value_end]\n        del packet[:value_end]\n', 'C08.a')
M('C08', 'notation-one-del-short', SS, '        self.flags = packet[:1]\n        del packet[:4]\n        nlen = self.bytes_to_int(packet[:2])\n        del packet[:2]\n        vlen = self.bytes_to_int(packet[:2])\n        del packet[:2]\n        self.name = packet[:nlen]\n        del packet[:nlen]\n        self.value = packet[:vlen]\n        del packet[:vlen]\n',
  '        self.flags = packet[:1]\n        nlen = self.bytes_to_int(packet[4:6])\n        vlen = self.bytes_to_int(packet[6:8])\n        name_end = 8 + nlen\n        value_end = name_end + vlen\n        self.name = packet[8:name_end]\n        self.value = packet[name_end:value_end]\n        del packet[:name_end]\n', 'C08.a')
M('C08', 'notation-one-del-long', SS, '        self.flags = packet[:1]\n        del packet[:4]\n        nlen = self.bytes_to_int(packet[:2])\n        del packet[:2]\n        vlen = self.bytes_to_int(packet[:2])\n        del packet[:2]\n        self.name = packet[:nlen]\n        del packet[:nlen]\n        self.value = packet[:vlen]\n        del packet[:vlen]\n',
  '        self.flags = packet[:1]\n        nlen = self.bytes_to_int(packet[4:6])\n        vlen = self.bytes_to_int(packet[6:8])\n        name_end = 8 + nlen\n        value_end = name_end + vlen\n        self.name = packet[8:name_end]\n        self.value = packet[name_end:value_end]\n        del packet[:value_end + nlen]\n', 'C08.a')
M('C08', 'notation-one-del-value-from-6', SS, '        self.flags = packet[:1]\n        del packet[:4]\n        nlen = self.bytes_to_int(packet[:2])\n        del packet[:2]\n        vlen = self.bytes_to_int(packet[:2])\n        del packet[:2]\n        self.name = packet[:nlen]\n        del packet[:nlen]\n        self.value = packet[:vlen]\n        del packet[:vlen]\n',
  '        self.flags = packet[:1]\n        nlen = self.bytes_to_int(packet[4:6])\n        vlen = self.bytes_to_int(packet[6:8])\n        name_end = 8 + nlen\n        value_end = name_end + vlen\n        self.name = packet[6:6 + nlen]\n        self.value = packet[6 + nlen:6 + nlen + vlen]\n        del packet[:value_end]\n', 'C08.a')
M('C08', 'notation-one-del-swapped', SS, '        self.flags = packet[:1]\n        del packet[:4]\n        nlen = self.bytes_to_int(packet[:2])\n        del packet[:2]\n        vlen = self.bytes_to_int(packet[:2])\n        del packet[:2]\n        self.name = packet[:nlen]\n        del packet[:nlen]\n        self.value = packet[:vlen]\n        del packet[:vlen]\n',
  '        self.flags = packet[:1]\n        nlen = self.bytes_to_int(packet[4:6])\n        vlen = self.bytes_to_int(packet[6:8])\n        name_end = 8 + nlen\n        value_end = name_end + vlen\n        self.value = packet[8:8 + vlen]\n        self.name = packet[8 + vlen:value_end]\n        del packet[:value_end]\n', 'C08.c')
M('C08', 'notation-one-del-lengths-swapped', SS, '        self.flags = packet[:1]\n        del packet[:4]\n        nlen = self.bytes_to_int(packet[:2])\n        del packet[:2]\n        vlen = self.bytes_to_int(packet[:2])\n        del packet[:2]\n        self.name = packet[:nlen]\n        del packet[:nlen]\n        self.value = packet[:vlen]\n        del packet[:vlen]\n',
  '        self.flags = packet[:1]\n        vlen = self.bytes_to_int(packet[4:6])\n        nlen = self.bytes_to_int(packet[6:8])\n        name_end = 8 + nlen\n        value_end = name_end + vlen\n        self.name = packet[8:name_end]\n        self.value = packet[name_end:value_end]\n        del packet[:value_end]\n', 'C08.c')
M('C08', 'notation-one-del-hole-consumed', SS, '        self.flags = packet[:1]\n        del packet[:4]\n        nlen = self.bytes_to_int(packet[:2])\n        del packet[:2]\n        vlen = self.bytes_to_int(packet[:2])\n        del packet[:2]\n        self.name = packet[:nlen]\n        del packet[:nlen]\n        self.value = packet[:vlen]\n        del packet[:vlen]\n',
  '        self.flags = packet[:1]\n        nlen = self.bytes_to_int(packet[4:6])\n        vlen = self.bytes_to_int(packet[6:8])\n        name_end = 8 + nlen\n        value_end = name_end + vlen\n        self.name = packet[8:name_end]\n        self.value = packet[name_end + 1:value_end + 1]\n        del packet[:value_end + 1]\n', 'C08.a')
# wave 5: key material dispatch (C08.g), flag subpacket widths (C08.e), EC point widths (C08.c), measured remainder (C08.d), one read / several fields
M('C08', 'material-priv-entry-public-class', PK, '            (False, PubKeyAlgorithm.FormerlyElGamalEncryptOrSign): ElGPriv,',
  '            (False, PubKeyAlgorithm.FormerlyElGamalEncryptOrSign): ElGPub,', 'C08.g')
M('C08', 'material-ecdh-priv-entry-public', PK, '            (False, PubKeyAlgorithm.ECDH): ECDHPriv,',
  '            (False, PubKeyAlgorithm.ECDH): ECDHPub,', 'C08.g')
M('C08', 'material-pub-entry-private-class', PK, '            (True, PubKeyAlgorithm.DSA): DSAPub,',
  '            (True, PubKeyAlgorithm.DSA): DSAPriv,', 'C08.g')
M('C08', 'material-priv-entry-other-algorithm', PK, '            (False, PubKeyAlgorithm.ElGamal): ElGPriv,',
  '            (False, PubKeyAlgorithm.ElGamal): DSAPriv,', 'C08.g')
M('C08', 'material-fallback-always-public', PK, '(km or (OpaquePubKey if self.public else OpaquePrivKey))()',
  '(km or OpaquePubKey)()', 'C08.g')
M('C08', 'flags-pad-to-header-length', SS, "        if len(_bytes) < len(self):\n            _bytes += b'\\x00' * (len(self) - len(_bytes))\n        return _bytes\n",
  "        if len(_bytes) < self.header.length:\n            _bytes += b'\\x00' * (self.header.length - len(_bytes))\n        return _bytes\n", 'C08.e')
M('C08', 'flags-no-padding', SS, "        if len(_bytes) < len(self):\n            _bytes += b'\\x00' * (len(self) - len(_bytes))\n        return _bytes\n",
  '        return _bytes\n', 'C08.e')
M('C08', 'flags-pad-one-short', SS, "        if len(_bytes) < len(self):\n            _bytes += b'\\x00' * (len(self) - len(_bytes))\n        return _bytes\n",
  "        if len(_bytes) < len(self) - 1:\n            _bytes += b'\\x00' * (len(self) - 1 - len(_bytes))\n        return _bytes\n", 'C08.e')
M('C08', 'flags-value-wide-as-length', SS, '        _bytes += self.int_to_bytes(sum(self.flags))\n        # null-pad',
  '        _bytes += self.int_to_bytes(sum(self.flags), self.header.length)\n        # null-pad', 'C08.e')
M('C08', 'ecpoint-width-floor', FL, '        ct.bytelen = (bitlen + 7) // 8',
  '        ct.bytelen = bitlen // 8', 'C08.c')
M('C08', 'ecpoint-width-plus-8', FL, '        ct.bytelen = (bitlen + 7) // 8',
  '        ct.bytelen = (bitlen + 8) // 8', 'C08.c')
M('C08', 'ecpoint-writer-minimal-width', FL, '            b += MPIs.int_to_bytes(self.x, self.bytelen)\n            b += MPIs.int_to_bytes(self.y, self.bytelen)',
  '            b += MPIs.int_to_bytes(self.x, self.bytelen)\n            b += MPIs.int_to_bytes(self.y)', 'C08.c')
T('C08', 'twin-flags-ljust', SS, "        if len(_bytes) < len(self):\n            _bytes += b'\\x00' * (len(self) - len(_bytes))\n        return _bytes\n",
  "        return _bytes.ljust(len(self), b'\\x00')\n")
T('C08', 'twin-ecpoint-width-ceil-div', FL, '        ct.bytelen = (bitlen + 7) // 8',
  '        ct.bytelen = -(-bitlen // 8)')
T('C08', 'twin-ecdsa-oid-one-concat', FL, "        oidlen = packet[0]\n        del packet[0]\n        _oid = bytearray(b'\\x06')\n        _oid.append(oidlen)\n        _oid += bytearray(packet[:oidlen])\n        oid, _  = decoder.decode(bytes(_oid))\n        self.oid = EllipticCurveOID(oid)\n        del packet[:oidlen]\n\n        self.p = ECPoint(packet)\n        if self.p.format != ECPointFormat.Standard:",
  "        oidlen = packet[0]\n        del packet[0]\n        oid, _ = decoder.decode(b'\\x06' + bytes([oidlen]) + bytes(packet[:oidlen]))\n        curve = EllipticCurveOID(oid)\n        del packet[:oidlen]\n        self.oid = curve\n\n        self.p = ECPoint(packet)\n        if self.p.format != ECPointFormat.Standard:")
M('C08', 'ecdsa-oid-not-consumed', FL, "        oidlen = packet[0]\n        del packet[0]\n        _oid = bytearray(b'\\x06')\n        _oid.append(oidlen)\n        _oid += bytearray(packet[:oidlen])\n        oid, _  = decoder.decode(bytes(_oid))\n        self.oid = EllipticCurveOID(oid)\n        del packet[:oidlen]\n\n        self.p = ECPoint(packet)\n        if self.p.format != ECPointFormat.Standard:",
  "        oidlen = packet[0]\n        del packet[0]\n        oid, _ = decoder.decode(b'\\x06' + bytes([oidlen]) + bytes(packet[:oidlen]))\n        self.oid = EllipticCurveOID(oid)\n\n        self.p = ECPoint(packet)\n        if self.p.format != ECPointFormat.Standard:", 'C08.a')
M('C08', 'ecdsa-oid-consumed-short', FL, "        oidlen = packet[0]\n        del packet[0]\n        _oid = bytearray(b'\\x06')\n        _oid.append(oidlen)\n        _oid += bytearray(packet[:oidlen])\n        oid, _  = decoder.decode(bytes(_oid))\n        self.oid = EllipticCurveOID(oid)\n        del packet[:oidlen]\n\n        self.p = ECPoint(packet)\n        if self.p.format != ECPointFormat.Standard:",
  "        oidlen = packet[0]\n        del packet[0]\n        oid, _ = decoder.decode(b'\\x06' + bytes([oidlen]) + bytes(packet[:oidlen]))\n        self.oid = EllipticCurveOID(oid)\n        del packet[:oidlen - 1]\n\n        self.p = ECPoint(packet)\n        if self.p.format != ECPointFormat.Standard:", 'C08.a')
T('C08', 'twin-image-struct-size', UA, "        with memoryview(packet) as _head:\n            _, self.version, self.iencoding, _, _, _ = struct.unpack_from('<hbbiii', _head[:16].tobytes())\n        del packet[:16]\n\n        self.image = packet[:(self.header.length - 17)]\n        del packet[:(self.header.length - 17)]",
  "        hlen = struct.calcsize('<hbbiii')\n        _, self.version, self.iencoding, _, _, _ = struct.unpack_from('<hbbiii', bytes(packet[:hlen]))\n        del packet[:hlen]\n\n        ilen = self.header.length - (1 + hlen)\n        self.image = packet[:ilen]\n        del packet[:ilen]")
M('C08', 'image-struct-size-remainder-off', UA, "        with memoryview(packet) as _head:\n            _, self.version, self.iencoding, _, _, _ = struct.unpack_from('<hbbiii', _head[:16].tobytes())\n        del packet[:16]\n\n        self.image = packet[:(self.header.length - 17)]\n        del packet[:(self.header.length - 17)]",
  "        hlen = struct.calcsize('<hbbiii')\n        _, self.version, self.iencoding, _, _, _ = struct.unpack_from('<hbbiii', bytes(packet[:hlen]))\n        del packet[:hlen]\n\n        ilen = self.header.length - hlen\n        self.image = packet[:ilen]\n        del packet[:ilen]", 'C08.d')
M('C08', 'sig-two-fields-one-octet', PK, '        self.pubalg = packet[0]\n        del packet[0]\n\n        self.halg = packet[0]\n        del packet[0]\n\n        self.subpackets.parse(packet)\n',
  '        self.pubalg = packet[0]\n        self.halg = packet[0]\n        del packet[0]\n\n        self.subpackets.parse(packet)\n', 'C08.c')
T('C08', 'twin-message-new-compression-default-late', PGP, "        compression = kwargs.pop('compression', CompressionAlgorithm.ZIP)\n",
  "        compression = kwargs.pop('compression', None)\n", more=[(PGP, '        if charset:\n            msg.charset = charset\n', '        if charset:\n            msg.charset = charset\n\n        if compression is None:\n            compression = CompressionAlgorithm.ZIP\n\n        if compression is not None:\n            msg._compression = compression\n')])
# SignatureV4.parse after the /repo repair 37c2cf8 (signature material bounded by measurement): re-based cases
M('C08', 'sigv4-tuple-reads-swapped', PK, '        self.sigtype = packet[0]\n        del packet[0]\n\n        self.pubalg = packet[0]\n        del packet[0]\n\n        self.halg = packet[0]\n        del packet[0]\n\n        self.subpackets.parse(packet)\n\n        self.hash2 = packet[:2]\n        del packet[:2]\n',
  '        sigtype, halg, pubalg = packet[0], packet[1], packet[2]\n        del packet[:3]\n        self.sigtype = sigtype\n        self.pubalg = pubalg\n        self.halg = halg\n\n        sp = self.subpackets\n        sp.parse(packet)\n\n        left16 = packet[:2]\n        del packet[:2]\n        self.hash2 = left16\n', 'C08.c')
T('C08', 'twin-sigv4-fixed-part-tuple', PK, '        self.sigtype = packet[0]\n        del packet[0]\n\n        self.pubalg = packet[0]\n        del packet[0]\n\n        self.halg = packet[0]\n        del packet[0]\n\n        self.subpackets.parse(packet)\n\n        self.hash2 = packet[:2]\n        del packet[:2]\n',
  '        sigtype, pubalg, halg = packet[0], packet[1], packet[2]\n        del packet[:3]\n        self.sigtype = sigtype\n        self.pubalg = pubalg\n        self.halg = halg\n\n        sp = self.subpackets\n        sp.parse(packet)\n\n        left16 = packet[:2]\n        del packet[:2]\n        self.hash2 = left16\n')
T('C08', 'twin-sigv4-bound-inline', PK, '        send = self.header.length - 1 - (plen - len(packet))\n        self.signature.parse(packet[:send])\n        del packet[:send]\n',
  '        self.signature.parse(packet[:self.header.length - 1 - (plen - len(packet))])\n        del packet[:self.header.length - 1 - (plen - len(packet))]\n')
T('C08', 'twin-sigv4-bound-respelled', PK, '        plen = len(packet)\n\n        self.sigtype = packet[0]\n        del packet[0]\n',
  '        start = len(packet)\n\n        self.sigtype = packet[0]\n        del packet[0]\n', more=[(PK, '        send = self.header.length - 1 - (plen - len(packet))\n        self.signature.parse(packet[:send])\n        del packet[:send]\n', '        consumed = start - len(packet)\n        rest = self.header.length - consumed - 1\n        self.signature.parse(packet[:rest])\n        del packet[:rest]\n')])
M('C08', 'sigv4-bound-no-version-octet', PK, '        send = self.header.length - 1 - (plen - len(packet))\n',
  '        send = self.header.length - (plen - len(packet))\n', 'C08.d')
M('C08', 'sigv4-bound-minus-2', PK, '        send = self.header.length - 1 - (plen - len(packet))\n',
  '        send = self.header.length - 2 - (plen - len(packet))\n', 'C08.d')
M('C08', 'sigv4-measured-late', PK, '        plen = len(packet)\n\n        self.sigtype = packet[0]\n        del packet[0]\n',
  '        self.sigtype = packet[0]\n        del packet[0]\n        plen = len(packet)\n', 'C08.d')
M('C08', 'sigv4-bound-sign-flipped', PK, '        send = self.header.length - 1 - (plen - len(packet))\n',
  '        send = self.header.length - 1 - (len(packet) - plen)\n', 'C08.d')
M('C08', 'sigv4-bounded-not-consumed', PK, '        send = self.header.length - 1 - (plen - len(packet))\n        self.signature.parse(packet[:send])\n        del packet[:send]\n',
  '        send = self.header.length - 1 - (plen - len(packet))\n        self.signature.parse(packet[:send])\n', 'C08.a')
M('C08', 'sigv4-signature-unbounded-again', PK, '        send = self.header.length - 1 - (plen - len(packet))\n        self.signature.parse(packet[:send])\n        del packet[:send]\n',
  '        self.signature.parse(packet)\n', 'C08.d', more=[(SS, '        self._sig.header.length = self.header.length - 1\n        self._sig.parse(packet)\n', '        self._sig.parse(packet)\n')])
M('C08', 'sigv4-signature-in-place-only', PK, '        send = self.header.length - 1 - (plen - len(packet))\n        self.signature.parse(packet[:send])\n        del packet[:send]\n',
  '        self.signature.parse(packet)\n', 'C08.d')
# wave 6: subpacket header identity (C08.i), integer fields keep their wire range (C08.c), slice-assignment prepend (C08.d)
M('C08', 'subheader-critical-from-masked-typeid', ST, '        v = self.bytes_to_int(val)\n        self.typeid = v\n        self.critical = bool(v & 0x80)\n',
  '        self.typeid = self.bytes_to_int(val)\n        self.critical = bool(self.typeid & 0x80)\n', 'C08.i')
M('C08', 'subheader-critical-bit-6', ST, '        v = self.bytes_to_int(val)\n        self.typeid = v\n        self.critical = bool(v & 0x80)\n',
  '        v = self.bytes_to_int(val)\n        self.typeid = v\n        self.critical = bool(v & 0x40)\n', 'C08.i')
M('C08', 'subheader-critical-dropped', ST, '        v = self.bytes_to_int(val)\n        self.typeid = v\n        self.critical = bool(v & 0x80)\n',
  '        v = self.bytes_to_int(val)\n        self.typeid = v\n', 'C08.i')
M('C08', 'subheader-writer-critical-shift-6', ST, '(int(self.critical) << 7) + self.typeid',
  '(int(self.critical) << 6) + self.typeid', 'C08.i')
T('C08', 'twin-subheader-critical-shift', ST, '        v = self.bytes_to_int(val)\n        self.typeid = v\n        self.critical = bool(v & 0x80)\n',
  '        octet = self.bytes_to_int(val)\n        self.critical = (octet >> 7) == 1\n        self.typeid = octet\n')
M('C08', 'sigv4-halg-unknown-to-invalid', PK, '        except ValueError:  # pragma: no cover\n            self._halg = val\n\n    @property\n    def signature(self):',
  '        except ValueError:  # pragma: no cover\n            self._halg = HashAlgorithm.Invalid\n\n    @property\n    def signature(self):', 'C08.c')
M('C08', 'sigv4-halg-unknown-masked', PK, '        except ValueError:  # pragma: no cover\n            self._halg = val\n\n    @property\n    def signature(self):',
  '        except ValueError:  # pragma: no cover\n            self._halg = val & 0x0f\n\n    @property\n    def signature(self):', 'C08.c')
M('C08', 'trustsig-amount-clamp-120', SS, '        self._amount = max(0, min(val, 255))',
  '        self._amount = max(0, min(val, 120))', 'C08.c')
M('C08', 'trustsig-level-clamp-2', SS, '    def level_int(self, val):\n        self._level = val\n',
  '    def level_int(self, val):\n        self._level = min(val, 2)\n', 'C08.c')
M('C08', 'trustsig-amount-floor-1', SS, '        self._amount = max(0, min(val, 255))',
  '        self._amount = max(1, min(val, 255))', 'C08.c')
T('C08', 'twin-trustsig-amount-clamp-respelled', SS, '        self._amount = max(0, min(val, 255))',
  '        amount = val\n        if amount > 255:\n            amount = 255\n        if amount < 0:\n            amount = 0\n        self._amount = amount')
T('C08', 'twin-skesk-prepend-slice-assign', PK, '        packet.insert(0, 255)\n',
  "        packet[:0] = b'\\xff'\n")
M('C08', 'skesk-prepend-two-octets', PK, '        packet.insert(0, 255)\n',
  "        packet[:0] = b'\\xff\\xff'\n", 'C08.d')
M('C08', 'skesk-prepend-remainder-minus-1', PK, '        packet.insert(0, 255)\n',
  "        packet[:0] = b'\\xff'\n", 'C08.d', more=[(PK, '        ctend = self.header.length - len(self.s2k)\n', '        ctend = self.header.length - len(self.s2k) - 1\n')])
# --- end C08 hardening
M('C09', 'old-tag-shift', PT, "        tag |= (self.tag) if self._lenfmt else ((self.tag << 2) | {1: 0, 2: 1, 4: 2, 0: 3}[self.llen])", "        tag |= (self.tag) if self._lenfmt else ((self.tag << 1) | {1: 0, 2: 1, 4: 2, 0: 3}[self.llen])", 'C09.8')
M('C09', 'tag-mask-1f', PT, "        _tag = (val & 0x3F) if self._lenfmt else ((val & 0x3C) >> 2)", "        _tag = (val & 0x1F) if self._lenfmt else ((val & 0x3C) >> 2)", 'C09.8')
M('C09', 'partial-del-one', TY, "                    del b[total:total + size]", "                    del b[total:total + 1]", 'C09.8')

T('C09', 'twin-tag-expr', PT, "        tag = 0x80 | (self._lenfmt << 6)\n        tag |= (self.tag) if self._lenfmt else ((self.tag << 2) | {1: 0, 2: 1, 4: 2, 0: 3}[self.llen])", "        if self._lenfmt:\n            tag = 0xC0 | self.tag\n        else:\n            tag = 0x80 | (self.tag << 2) | {1: 0, 2: 1, 4: 2, 0: 3}[self.llen]")
M('C02', 'hash-id', CO, "    SHA224 = 0x0B", "    SHA224 = 0x0C", 'C02.1')
M('C02', 'pk-id', CO, "    EdDSA = 0x16  #", "    EdDSA = 0x17  #", 'C02.1')
M('C12', 'ripemd-id', CO, "    RIPEMD160 = 0x03", "    RIPEMD160 = 0x04", 'C12.2')

# =============================================================================================== C18 (hardening: value-based rules; twins from twins/C07-ref1, C16-ref4, C18-ref1..4 and further ones)
_FP_BODY = ("        fp = hashlib.new('sha1')\n\n        plen = self.keymaterial.publen()\n        bcde_len = self.int_to_bytes(6 + plen, 2)\n")
# --- C18.1
T('C18', 'twin-fp-hashlib-sha1', PK, "        fp = hashlib.new('sha1')", "        fp = hashlib.sha1()")
T('C18', 'twin-fp-len-commuted', PK, "        bcde_len = self.int_to_bytes(6 + plen, 2)", "        bcde_len = self.int_to_bytes(plen + 4 + 2, minlen=2)")
T('C18', 'twin-fp-digest-temp', PK, "        return Fingerprint(fp.hexdigest().upper())", "        digest = fp.hexdigest()\n        text = digest.upper()\n        return Fingerprint(text)")
T('C18', 'twin-fp-upper-left-to-class', PK, "        return Fingerprint(fp.hexdigest().upper())", "        return Fingerprint(fp.hexdigest())")
T('C18', 'twin-fp-alg-octet-list', PK, "        fp.update(self.int_to_bytes(self.pkalg))\n        # e)", "        fp.update(bytearray([self.pkalg]))\n        # e)")
T('C18', 'twin-fp-version-number', PK, "        fp.update(b'\\x04')\n", "        fp.update(bytearray([4]))\n")
T('C18', 'twin-fp-time-temporaries', PK, "        fp.update(self.int_to_bytes(calendar.timegm(self.created.utctimetuple()), 4))",
  "        when = self.created\n        tt = when.utctimetuple()\n        seconds = calendar.timegm(tt)\n        fp.update(self.int_to_bytes(seconds, 4))")
T('C18', 'twin-fp-join-renamed', PK,
  "        fp = hashlib.new('sha1')\n\n        plen = self.keymaterial.publen()\n        bcde_len = self.int_to_bytes(6 + plen, 2)\n\n        # a.1) 0x99 (1 octet)\n        # a.2) high-order length octet\n        # a.3) low-order length octet\n        fp.update(b'\\x99' + bcde_len[:1] + bcde_len[-1:])\n        # b) version number = 4 (1 octet);\n        fp.update(b'\\x04')\n        # c) timestamp of key creation (4 octets);\n        fp.update(self.int_to_bytes(calendar.timegm(self.created.utctimetuple()), 4))\n        # d) algorithm (1 octet): 17 = DSA (example);\n        fp.update(self.int_to_bytes(self.pkalg))\n        # e) Algorithm-specific fields.\n        fp.update(self.keymaterial.__bytearray__()[:plen])\n",
  "        digest = hashlib.new('sha1')\n        material = self.keymaterial\n        publen = material.publen()\n        length_octets = self.int_to_bytes(6 + publen, 2)\n        hashed = b''.join([b'\\x99', length_octets[:1], length_octets[-1:], b'\\x04',\n                           self.int_to_bytes(calendar.timegm(self.created.utctimetuple()), 4),\n                           self.int_to_bytes(self.pkalg), material.__bytearray__()[:publen]])\n        digest.update(hashed)\n        fp = digest\n")
M('C18', 'fp-length-octets-swapped', PK, "        fp.update(b'\\x99' + bcde_len[:1] + bcde_len[-1:])", "        fp.update(b'\\x99' + bcde_len[-1:] + bcde_len[:1])", 'C18.1')
M('C18', 'fp-version-3', PK, "        fp.update(b'\\x04')\n", "        fp.update(b'\\x03')\n", 'C18.1')
M('C18', 'fp-publen-whole-material', PK, "        plen = self.keymaterial.publen()", "        plen = len(self.keymaterial)", 'C18.1')
M('C18', 'fp-hashlib-sha256', PK, "        fp = hashlib.new('sha1')", "        fp = hashlib.sha256()", 'C18.1')
M('C18', 'fp-digest-of-other-hasher', PK, "        return Fingerprint(fp.hexdigest().upper())", "        return Fingerprint(hashlib.new('sha1', self.keymaterial.__bytearray__()).hexdigest().upper())", 'C18.1')
M('C18', 'fp-time-temp-drops-offset', PK, "        fp.update(self.int_to_bytes(calendar.timegm(self.created.utctimetuple()), 4))",
  "        tt = self.created.timetuple()\n        fp.update(self.int_to_bytes(calendar.timegm(tt), 4))", 'C18')
M('C18', 'fp-time-of-now', PK, "        fp.update(self.int_to_bytes(calendar.timegm(self.created.utctimetuple()), 4))",
  "        fp.update(self.int_to_bytes(calendar.timegm(datetime.now(timezone.utc).utctimetuple()), 4))", 'C18.1')
# --- C18.2
T('C18', 'twin-export-extend', PK, "        _bytes += self.int_to_bytes(self.pkalg)\n        _bytes += self.keymaterial.__bytearray__()\n        return _bytes\n\n    def __copy__(self):\n        pk = self.__class__()",
  "        _bytes.extend(bytearray([self.pkalg]))\n        body = self.keymaterial.__bytearray__()\n        _bytes += body\n        return _bytes\n\n    def __copy__(self):\n        pk = self.__class__()")
T('C18', 'twin-parse-absolute-offsets', PK, "        self.created = packet[:4]\n        del packet[:4]\n\n        self.pkalg = packet[0]\n        del packet[0]\n\n        # bound keymaterial to the remaining length of the packet\n        pend = self.header.length - 6\n        self.keymaterial.parse(packet[:pend])\n        del packet[:pend]",
  "        self.created = packet[:4]\n        self.pkalg = packet[4]\n        nmaterial = self.header.length - 1 - 4 - 1\n        self.keymaterial.parse(packet[5:5 + nmaterial])\n        del packet[:5 + nmaterial]")
T('C18', 'twin-parse-bound-inline', PK, "        pend = self.header.length - 6\n        self.keymaterial.parse(packet[:pend])\n        del packet[:pend]",
  "        self.keymaterial.parse(packet[0:self.header.length - 6])\n        del packet[:self.header.length - 6]")
T('C18', 'twin-versioned-header-append', PT, "        _bytes += bytearray([self.version])\n        return _bytes", "        _bytes.append(self.version)\n        return _bytes")
M('C18', 'parse-material-bound-5', PK, "        pend = self.header.length - 6\n", "        pend = self.header.length - 5\n", 'C18.2')
M('C18', 'parse-material-unbounded', PK, "        self.keymaterial.parse(packet[:pend])\n        del packet[:pend]", "        self.keymaterial.parse(packet)\n        del packet[:pend]", 'C18.2')
M('C18', 'parse-algorithm-not-consumed', PK, "        self.pkalg = packet[0]\n        del packet[0]\n\n        # bound keymaterial", "        self.pkalg = packet[0]\n\n        # bound keymaterial", 'C18.2')
M('C18', 'export-time-timestamp', PK, "        _bytes += self.int_to_bytes(calendar.timegm(self.created.utctimetuple()), 4)", "        _bytes += self.int_to_bytes(int(self.created.timestamp()), 4)", 'C18')
M('C18', 'versioned-header-tag-octet', PT, "        _bytes += bytearray([self.version])\n        return _bytes", "        _bytes += bytearray([self.tag])\n        return _bytes", 'C18.2')
# --- C18.3
T('C18', 'twin-publen-temporaries-super', FL, "    def publen(self):\n        return super(PrivKey, self).__len__()",
  "    def publen(self) -> int:\n        # the public fields come first\n        public_octets = super().__len__()\n        return public_octets",
  more=[(FL, "    def publen(self):\n        return len(self)", "    def publen(self) -> int:\n        \"\"\"number of leading octets that hold the public fields\"\"\"\n        nbytes = len(self)\n        return nbytes"),
        (FL, "    def publen(self):\n        return ECDHPub.__len__(self)", "    def publen(self) -> int:\n        public_octets = ECDHPub.__len__(self)\n        return public_octets"),
        (FL, "    def __len__(self):\n        return sum(len(getattr(self, i)) for i in self.__pubfields__)", "    def __len__(self) -> int:\n        return sum(len(getattr(self, field)) for field in self.__pubfields__)")])
T('C18', 'twin-publen-dunder-call', FL, "    def publen(self):\n        return len(self)", "    def publen(self):\n        return self.__len__()")
T('C18', 'twin-ecdh-publen-spelt-out', FL, "    def publen(self):\n        return ECDHPub.__len__(self)", "    def publen(self):\n        return len(self.p) + len(self.kdf) + len(encoder.encode(self.oid.value)) - 1")
M('C18', 'publen-off-by-one', FL, "    def publen(self):\n        return super(PrivKey, self).__len__()", "    def publen(self):\n        return super(PrivKey, self).__len__() + 1", 'C18.3')
M('C18', 'ecdh-publen-of-ecdsa-sibling', FL, "    def publen(self):\n        return ECDHPub.__len__(self)", "    def publen(self):\n        return ECDSAPub.__len__(self)", 'C18.3')
M('C18', 'publen-skips-mro', FL, "    def publen(self):\n        return super(PrivKey, self).__len__()", "    def publen(self):\n        return PubKey.__len__(self)", 'C18.3')
# --- C18.4
T('C18', 'twin-keyid-from-length', TY, "        return self[-16:]", "        return self[len(self) - 16:]")
T('C18', 'twin-key-fingerprint-guard-clause', PGP, "        if self._key:\n            return self._key.fingerprint\n", "        pkt = self._key\n        if not pkt:\n            return None\n        return pkt.fingerprint\n")
M('C18', 'shortid-high-bits', TY, "        return self[-8:]", "        return self[:8]", 'C18.4')
M('C18', 'keyid-off-by-one', TY, "        return self[-16:]", "        return self[-16:-1]", 'C18.4')
M('C18', 'key-fingerprint-of-primary', PGP, "        if self._key:\n            return self._key.fingerprint\n", "        if self._key:\n            return (self.parent or self)._key.fingerprint\n", 'C18.4')
# --- C18.6 (shared family with C07.1)
T('C18', 'twin-pubkey-renamed-merged-oid', PK,
  "        pk = PubKeyV4() if not isinstance(self, PrivSubKeyV4) else PubSubKeyV4()\n        pk.created = self.created\n        pk.pkalg = self.pkalg\n\n        # copy over MPIs\n        for pm in self.keymaterial.__pubfields__:\n            setattr(pk.keymaterial, pm, copy.copy(getattr(self.keymaterial, pm)))\n\n        if self.pkalg in {PubKeyAlgorithm.ECDSA, PubKeyAlgorithm.EdDSA}:\n            pk.keymaterial.oid = self.keymaterial.oid\n\n        if self.pkalg == PubKeyAlgorithm.ECDH:\n            pk.keymaterial.oid = self.keymaterial.oid\n            pk.keymaterial.kdf = copy.copy(self.keymaterial.kdf)\n\n        pk.update_hlen()\n        return pk\n",
  "        if isinstance(self, PrivSubKeyV4):\n            pub = PubSubKeyV4()\n        else:\n            pub = PubKeyV4()\n        pub.created = self.created\n        pub.pkalg = self.pkalg\n\n        secret_km = self.keymaterial\n        public_km = pub.keymaterial\n\n        for field in secret_km.__pubfields__:\n            setattr(public_km, field, copy.copy(getattr(secret_km, field)))\n\n        if self.pkalg in {PubKeyAlgorithm.ECDSA, PubKeyAlgorithm.EdDSA, PubKeyAlgorithm.ECDH}:\n            public_km.oid = secret_km.oid\n\n        if self.pkalg == PubKeyAlgorithm.ECDH:\n            public_km.kdf = copy.copy(secret_km.kdf)\n\n        pub.update_hlen()\n        return pub\n")
T('C18', 'twin-pubkey-created-last', PK, "        pk.created = self.created\n        pk.pkalg = self.pkalg\n\n        # copy over MPIs\n        for pm in self.keymaterial.__pubfields__:\n            setattr(pk.keymaterial, pm, copy.copy(getattr(self.keymaterial, pm)))\n",
  "        pk.pkalg = self.pkalg\n\n        # copy over MPIs\n        names = self.keymaterial.__pubfields__\n        for name in names:\n            value = copy.copy(getattr(self.keymaterial, name))\n            setattr(pk.keymaterial, name, value)\n        pk.created = self.created\n")
M('C18', 'pubkey-loop-skips-first-field', PK, "        for pm in self.keymaterial.__pubfields__:\n            setattr(pk.keymaterial, pm, copy.copy(getattr(self.keymaterial, pm)))", "        for pm in self.keymaterial.__pubfields__[1:]:\n            setattr(pk.keymaterial, pm, copy.copy(getattr(self.keymaterial, pm)))", 'C18.6')
M('C18', 'pubkey-loop-over-temp-privfields', PK, "        for pm in self.keymaterial.__pubfields__:\n            setattr(pk.keymaterial, pm, copy.copy(getattr(self.keymaterial, pm)))", "        km = self.keymaterial\n        for pm in km.__pubfields__ + km.__privfields__:\n            setattr(pk.keymaterial, pm, copy.copy(getattr(km, pm)))", 'C18.6')
M('C18', 'pubkey-field-from-fresh-default', PK, "            setattr(pk.keymaterial, pm, copy.copy(getattr(self.keymaterial, pm)))", "            setattr(pk.keymaterial, pm, copy.copy(getattr(pk.keymaterial, pm)))", 'C18.6')
M('C18', 'pubkey-ecdh-curve-not-copied', PK, "        if self.pkalg == PubKeyAlgorithm.ECDH:\n            pk.keymaterial.oid = self.keymaterial.oid\n", "        if self.pkalg == PubKeyAlgorithm.ECDH:\n", 'C18.6')
M('C18', 'pubkey-merged-oid-loses-eddsa', PK, "        if self.pkalg in {PubKeyAlgorithm.ECDSA, PubKeyAlgorithm.EdDSA}:\n            pk.keymaterial.oid = self.keymaterial.oid\n\n        if self.pkalg == PubKeyAlgorithm.ECDH:\n            pk.keymaterial.oid = self.keymaterial.oid\n",
  "        if self.pkalg in {PubKeyAlgorithm.ECDSA, PubKeyAlgorithm.ECDH}:\n            pk.keymaterial.oid = self.keymaterial.oid\n\n        if self.pkalg == PubKeyAlgorithm.ECDH:\n", 'C18.6')
# --- C18.7 (shared family with C16.4)
T('C18', 'twin-ids-temporaries-merged-ifs', PGP,
  "        if prefs.pop('include_issuer_fingerprint', True):\n            if isinstance(self._key, PrivKeyV4):\n                sig._signature.subpackets.addnew('IssuerFingerprint', hashed=True, _version=4, _issuer_fpr=self.fingerprint)\n",
  "        if prefs.pop('include_issuer_fingerprint', True) and isinstance(self._key, PrivKeyV4):\n            issuer_fpr = self.fingerprint\n            sig._signature.subpackets.addnew('IssuerFingerprint', hashed=True, _version=4, _issuer_fpr=issuer_fpr)\n",
  more=[(PGP, "        pkesk.encrypter = bytearray(binascii.unhexlify(self.fingerprint.keyid.encode('latin-1')))", "        recipient_keyid = self.fingerprint.keyid\n        pkesk.encrypter = bytearray(binascii.unhexlify(recipient_keyid.encode('latin-1')))"),
        (PGP, "        sig = PGPSignature()\n\n        if created is None:\n            created = datetime.now(timezone.utc)\n        sigpkt = SignatureV4()", "        if created is None:\n            created = datetime.now(timezone.utc)\n        sigpkt = SignatureV4()"),
        (PGP, "            sigpkt.halg = halg\n\n        sig._signature = sigpkt", "            sigpkt.halg = halg\n\n        sig = PGPSignature()\n        sig._signature = sigpkt")])
T('C18', 'twin-ids-keyword-arguments', PGP, "        sig = PGPSignature.new(SignatureType.DirectlyOnKey, self.key_algorithm, hash_algo, self.fingerprint.keyid, created=prefs.pop('created', None))",
  "        own_id = self.fingerprint.keyid\n        sig = PGPSignature.new(SignatureType.DirectlyOnKey, halg=hash_algo, signer=own_id, pkalg=self.key_algorithm, created=prefs.pop('created', None))",
  more=[(PGP, "addnew('IssuerFingerprint', hashed=True, _version=4, _issuer_fpr=self.fingerprint)", "addnew('IssuerFingerprint', True, _issuer_fpr=self.fingerprint, _version=4)"),
        (PGP, "        _sig = self._key.sign(sigdata, getattr(hashes, sig.hash_algorithm.name)())", "        material = self._key\n        _sig = material.sign(sigdata, getattr(hashes, sig.hash_algorithm.name)())")])
T('C18', 'twin-recipient-id-fromhex', PGP, "        pkesk.encrypter = bytearray(binascii.unhexlify(self.fingerprint.keyid.encode('latin-1')))\n        pkesk.pkalg = self.key_algorithm",
  "        pkesk.pkalg = self.key_algorithm\n        pkesk.encrypter = bytearray(bytes.fromhex(self.fingerprint.keyid))")
T('C18', 'twin-new-signature-packet-renamed', PGP, "        sigpkt.sigtype = sigtype\n        sigpkt.pubalg = pkalg\n\n        if halg is not None:\n            sigpkt.halg = halg\n\n        sig._signature = sigpkt\n        return sig",
  "        sig._signature = sigpkt\n        packet = sig._signature\n        packet.pubalg = pkalg\n        packet.sigtype = sigtype\n\n        if halg is not None:\n            packet.halg = halg\n\n        return sig")
M('C18', 'issuer-id-of-primary-in-bind', PGP, "            raise PGPError\n\n        sig = PGPSignature.new(sig_type, self.key_algorithm, hash_algo, self.fingerprint.keyid, created=prefs.pop('created', None))",
  "            raise PGPError\n\n        signer = (key if key.is_primary else self).fingerprint.keyid\n        sig = PGPSignature.new(sig_type, self.key_algorithm, hash_algo, signer, created=prefs.pop('created', None))", 'C18.7')
M('C18', 'issuer-keyword-other-key', PGP, "        sig = PGPSignature.new(SignatureType.DirectlyOnKey, self.key_algorithm, hash_algo, self.fingerprint.keyid, created=prefs.pop('created', None))",
  "        sig = PGPSignature.new(SignatureType.DirectlyOnKey, self.key_algorithm, hash_algo, signer=revoker.fingerprint.keyid, created=prefs.pop('created', None))", 'C18.7')
M('C18', 'new-issuer-not-recorded', PGP, "        sigpkt.subpackets.addnew('Issuer', _issuer=signer)\n", "", 'C18.7')
M('C18', 'new-algorithm-only-if-hash-given', PGP, "        sigpkt.sigtype = sigtype\n        sigpkt.pubalg = pkalg\n\n        if halg is not None:\n            sigpkt.halg = halg\n", "        sigpkt.sigtype = sigtype\n\n        if halg is not None:\n            sigpkt.pubalg = pkalg\n            sigpkt.halg = halg\n", 'C18.7')
M('C18', 'issuer-fpr-temp-from-parent', PGP, "                sig._signature.subpackets.addnew('IssuerFingerprint', hashed=True, _version=4, _issuer_fpr=self.fingerprint)",
  "                owner = self if self.is_primary else self.parent\n                fpr = owner.fingerprint\n                sig._signature.subpackets.addnew('IssuerFingerprint', hashed=True, _version=4, _issuer_fpr=fpr)", 'C18.7')
M('C18', 'issuer-fpr-version-5', PGP, "addnew('IssuerFingerprint', hashed=True, _version=4, _issuer_fpr=self.fingerprint)", "addnew('IssuerFingerprint', hashed=True, _version=5, _issuer_fpr=self.fingerprint)", 'C18.7')
M('C18', 'sign-with-primary-material', PGP, "        _sig = self._key.sign(sigdata, getattr(hashes, sig.hash_algorithm.name)())", "        signing = (self.parent or self)._key\n        _sig = signing.sign(sigdata, getattr(hashes, sig.hash_algorithm.name)())", 'C18.7')
M('C18', 'recipient-shortid', PGP, "        pkesk.encrypter = bytearray(binascii.unhexlify(self.fingerprint.keyid.encode('latin-1')))", "        pkesk.encrypter = bytearray(binascii.unhexlify(self.fingerprint.shortid.encode('latin-1')))", 'C18.7')
M('C18', 'recipient-raw-ascii-id', PGP, "        pkesk.encrypter = bytearray(binascii.unhexlify(self.fingerprint.keyid.encode('latin-1')))", "        pkesk.encrypter = bytearray(self.fingerprint.keyid.encode('latin-1'))", 'C18.7')
M('C18', 'session-key-to-primary-material', PGP, "        pkesk.encrypt_sk(self._key, cipher_algo, sessionkey)", "        target = self.parent._key if self.parent is not None else self._key\n        pkesk.encrypt_sk(target, cipher_algo, sessionkey)", 'C18.7')
T('C18', 'twin-pubkey-class-via-local', PK, "        pk = PubKeyV4() if not isinstance(self, PrivSubKeyV4) else PubSubKeyV4()\n", "        klass = PubSubKeyV4 if isinstance(self, PrivSubKeyV4) else PubKeyV4\n        pk = klass()\n")
M('C18', 'pubkey-class-via-local-keeps-private-subkey', PK, "        pk = PubKeyV4() if not isinstance(self, PrivSubKeyV4) else PubSubKeyV4()\n", "        klass = PrivSubKeyV4 if isinstance(self, PrivSubKeyV4) else PubKeyV4\n        pk = klass()\n", 'C18.6')
T('C18', 'twin-keyid-of-plain-text', TY, "        return self[-16:]", "        return str(self)[-16:]",
  more=[(PGP, "        if self._key:\n            return self._key.fingerprint\n", "        return self._key.fingerprint if self._key else None\n")])
# =============================================================================================== C14 / C20 hardening (semantic rules)
# ---- C14.1 export grammar and filters: loops with guard clauses / nested ifs / chunk lists are the same term as the comprehension
EXPORT = ("        _bytes = bytearray()\n        # us\n        _bytes += self._key.__bytearray__()\n        # our signatures; ignore embedded signatures\n"
          "        for sig in iter(s for s in self._signatures if not s.embedded and s.exportable):\n            _bytes += sig.__bytearray__()\n"
          "        # one or more User IDs, followed by their signatures\n        for uid in self._uids:\n            _bytes += uid._uid.__bytearray__()\n"
          "            for s in [s for s in uid._signatures if s.exportable]:\n                _bytes += s.__bytearray__()\n"
          "        # subkeys\n        for sk in self._children.values():\n            _bytes += sk.__bytearray__()\n\n        return _bytes\n")
KEYSIGS = "        for sig in iter(s for s in self._signatures if not s.embedded and s.exportable):\n            _bytes += sig.__bytearray__()\n"
UIDSIGS = "            for s in [s for s in uid._signatures if s.exportable]:\n                _bytes += s.__bytearray__()\n"
T('C14', 'twin-export-chunks-joined', PGP, EXPORT,
  "        chunks = []\n        chunks.append(self._key.__bytearray__())\n        for sig in self._signatures:\n            if sig.embedded or not sig.exportable:\n                continue\n"
  "            chunks.append(sig.__bytearray__())\n        for uid in self._uids:\n            chunks.append(uid._uid.__bytearray__())\n"
  "            exportable = [s for s in uid._signatures if s.exportable]\n            chunks.extend(s.__bytearray__() for s in exportable)\n"
  "        chunks.extend(sk.__bytearray__() for sk in self._children.values())\n\n        return bytearray().join(chunks)\n")
T('C14', 'twin-export-guard-clauses', PGP, KEYSIGS,
  "        for keysig in self._signatures:\n            if keysig.embedded:\n                continue\n            if not keysig.exportable:\n                continue\n            _bytes += keysig.__bytearray__()\n")
T('C14', 'twin-export-nested-if', PGP, KEYSIGS,
  "        for keysig in self._signatures:\n            if keysig.exportable:\n                if not keysig.embedded:\n                    _bytes += keysig.__bytearray__()\n")
T('C14', 'twin-export-demorgan', PGP, KEYSIGS,
  "        for keysig in self._signatures:\n            if not (keysig.embedded or not keysig.exportable):\n                _bytes += keysig.__bytearray__()\n")
T('C14', 'twin-export-uidsigs-plain-loop', PGP, UIDSIGS,
  "            for certification in uid._signatures:\n                if not certification.exportable:\n                    continue\n                _bytes += certification.__bytearray__()\n")
T('C14', 'twin-export-subkeys-items', PGP, "        for sk in self._children.values():\n            _bytes += sk.__bytearray__()\n\n        return _bytes",
  "        for _keyid, subkey in self._children.items():\n            _bytes += subkey.__bytearray__()\n\n        return _bytes")
M('C14', 'export-or-filter', PGP, KEYSIGS, "        for sig in iter(s for s in self._signatures if not s.embedded or s.exportable):\n            _bytes += sig.__bytearray__()\n", 'C14.1')
M('C14', 'export-guard-wrong-polarity', PGP, KEYSIGS,
  "        for sig in self._signatures:\n            if sig.embedded or sig.exportable:\n                continue\n            _bytes += sig.__bytearray__()\n", 'C14.1')
M('C14', 'export-guard-exportable-dropped', PGP, KEYSIGS,
  "        for sig in self._signatures:\n            if sig.embedded:\n                continue\n            _bytes += sig.__bytearray__()\n", 'C14.1')
M('C14', 'export-uid-gets-key-sigs', PGP, UIDSIGS, "            for s in [s for s in self._signatures if s.exportable]:\n                _bytes += s.__bytearray__()\n", 'C14.1')
M('C14', 'export-unsigned-uids-dropped', PGP, "        for uid in self._uids:\n            _bytes += uid._uid.__bytearray__()\n            for s in [s",
  "        for uid in self._uids:\n            if not uid._signatures:\n                continue\n            _bytes += uid._uid.__bytearray__()\n            for s in [s", 'C14.1')
M('C14', 'export-uid-sigs-expired-dropped', PGP, UIDSIGS, "            for s in [s for s in uid._signatures if s.exportable and not s.is_expired]:\n                _bytes += s.__bytearray__()\n", 'C14.1')
# ---- C14.2
EXPORTABLE = "        if 'ExportableCertification' in self._signature.subpackets:\n            return bool(next(iter(self._signature.subpackets['ExportableCertification'])))\n\n        return True\n"
T('C14', 'twin-exportable-inverted-guard', PGP, EXPORTABLE,
  "        subpackets = self._signature.subpackets\n        if 'ExportableCertification' not in subpackets:\n            return True\n\n        return bool(next(iter(subpackets['ExportableCertification'])))\n")
T('C14', 'twin-exportable-conditional-expression', PGP, EXPORTABLE,
  "        sp = self._signature.subpackets\n        return bool(next(iter(sp['ExportableCertification']))) if 'ExportableCertification' in sp else True\n")
T('C14', 'twin-exportable-first-element', PGP, EXPORTABLE,
  "        if 'ExportableCertification' in self._signature.subpackets:\n            return self._signature.subpackets['ExportableCertification'][0].bflag\n\n        return True\n")
M('C14', 'exportable-inverted-default-false', PGP, EXPORTABLE,
  "        subpackets = self._signature.subpackets\n        if 'ExportableCertification' not in subpackets:\n            return False\n\n        return bool(next(iter(subpackets['ExportableCertification'])))\n", 'C14.2')
M('C14', 'exportable-flag-negated', PGP, EXPORTABLE,
  "        if 'ExportableCertification' in self._signature.subpackets:\n            return not next(iter(self._signature.subpackets['ExportableCertification']))\n\n        return True\n", 'C14.2')
M('C14', 'exportable-wrong-subpacket', PGP, EXPORTABLE,
  "        if 'ExportableCertification' in self._signature.subpackets:\n            return bool(next(iter(self._signature.subpackets['Revocable'])))\n\n        return True\n", 'C14.2')
T('C14', 'twin-boolean-param-rename', SS, "    def bflag_bytearray(self, val):\n        self.bflag = bool(self.bytes_to_int(val))", "    def bflag_bytearray(self, octets):\n        self.bflag = self.bytes_to_int(octets) != 0")
M('C14', 'boolean-bool-setter-other-attr', SS, "    def bflag_bool(self, val):\n        self._bool = val", "    def bflag_bool(self, val):\n        self._bflag = val", 'C14.2')
# ---- C14.3
GROUPS = "            for group in iter(group for _, group in itertools.groupby(getpkt, key=pktgrouper()) if not _.endswith('Opaque')):\n                pkt = next(group)\n"
ATTACH = "                [ operator.ior(pgpobj, PGPSignature() | sig) for sig in group if not isinstance(sig, Opaque) ]\n"
TRUST = "        getpkt = filter(lambda p: p.header.tag != PacketTag.Trust, iter(functools.partial(_getpkt, data), None))\n"
GROUPER = "                    if pkt.header.tag != PacketTag.Signature:\n                        self.last = '{:02X}_{:s}'.format(id(pkt), pkt.__class__.__name__)\n                    return self.last\n"
FILING = ("                if isinstance(pgpobj, PGPKey):\n                    if pgpobj.is_primary:\n                        keys[(pgpobj.fingerprint.keyid, pgpobj.is_public)] = pgpobj\n\n"
          "                    else:\n                        keys[next(reversed(keys))] |= pgpobj\n\n                elif isinstance(pgpobj, PGPUID):\n"
          "                    # parent is likely the most recently parsed primary key\n                    keys[next(reversed(keys))] |= pgpobj\n\n"
          "                else:  # pragma: no cover\n                    break\n")
T('C14', 'twin-groups-plain-loop', PGP, GROUPS,
  "            for groupname, group in itertools.groupby(getpkt, key=pktgrouper()):\n                if groupname.endswith('Opaque'):\n                    continue\n\n                pkt = next(group)\n")
T('C14', 'twin-attach-plain-loop', PGP, ATTACH,
  "                for sig in group:\n                    if isinstance(sig, Opaque):\n                        continue\n                    pgpobj |= PGPSignature() | sig\n")
T('C14', 'twin-attach-guarded-loop', PGP, ATTACH,
  "                for sigpkt in group:\n                    if not isinstance(sigpkt, Opaque):\n                        pgpobj |= PGPSignature() | sigpkt\n")
T('C14', 'twin-attach-mapped-loop', PGP, ATTACH,
  "                for pgpsig in (PGPSignature() | s for s in group if not isinstance(s, Opaque)):\n                    pgpobj |= pgpsig\n")
T('C14', 'twin-trust-generator-expression', PGP, TRUST,
  "        getpkt = (p for p in iter(functools.partial(_getpkt, data), None) if p.header.tag != PacketTag.Trust)\n")
T('C14', 'twin-trust-not-eq', PGP, TRUST,
  "        packets = iter(functools.partial(_getpkt, data), None)\n        getpkt = filter(lambda pkt: not pkt.header.tag == PacketTag.Trust, packets)\n")
T('C14', 'twin-grouper-early-return', PGP, GROUPER,
  "                    if pkt.header.tag == PacketTag.Signature:\n                        return self.last\n                    self.last = '{:02X}_{:s}'.format(id(pkt), pkt.__class__.__name__)\n                    return self.last\n")
T('C14', 'twin-filing-merged-arms', PGP, FILING,
  "                if isinstance(pgpobj, PGPKey) and pgpobj.is_primary:\n                    keys[(pgpobj.fingerprint.keyid, pgpobj.is_public)] = pgpobj\n\n"
  "                elif isinstance(pgpobj, (PGPKey, PGPUID)):\n                    # parent is likely the most recently parsed primary key\n                    latest = next(reversed(keys))\n                    keys[latest] |= pgpobj\n\n"
  "                else:  # pragma: no cover\n                    break\n")
T('C14', 'twin-head-if-statement', PGP, "                    pgpobj = (self if self._key is None else PGPKey()) | pkt\n",
  "                    if self._key is None:\n                        owner = self\n                    else:\n                        owner = PGPKey()\n                    pgpobj = owner | pkt\n")
M('C14', 'attach-to-self', PGP, ATTACH, "                [ operator.ior(self, PGPSignature() | sig) for sig in group if not isinstance(sig, Opaque) ]\n", 'C14.3')
M('C14', 'attach-loop-stops-at-opaque', PGP, ATTACH,
  "                for sig in group:\n                    if isinstance(sig, Opaque):\n                        break\n                    pgpobj |= PGPSignature() | sig\n", 'C14.3')
M('C14', 'attach-only-certifications', PGP, ATTACH,
  "                for sig in group:\n                    if isinstance(sig, Opaque) or sig.sigtype == SignatureType.Timestamp:\n                        continue\n                    pgpobj |= PGPSignature() | sig\n", 'C14.3')
M('C14', 'user-attribute-groups-skipped', PGP, GROUPS,
  "            for group in iter(group for _, group in itertools.groupby(getpkt, key=pktgrouper()) if not _.endswith(('Opaque', 'UserAttribute'))):\n                pkt = next(group)\n", 'C14.3')
M('C14', 'opaque-groups-kept', PGP, GROUPS,
  "            for group in iter(group for _, group in itertools.groupby(getpkt, key=pktgrouper())):\n                pkt = next(group)\n", 'C14.3')
M('C14', 'trust-filter-marker', PGP, TRUST, "        getpkt = filter(lambda p: p.header.tag != PacketTag.Marker, iter(functools.partial(_getpkt, data), None))\n", 'C14.3')
M('C14', 'trust-filter-also-drops-attributes', PGP, TRUST,
  "        getpkt = filter(lambda p: p.header.tag not in (PacketTag.Trust, PacketTag.UserAttribute), iter(functools.partial(_getpkt, data), None))\n", 'C14.3')
M('C14', 'grouper-class-name-only', PGP, GROUPER,
  "                    if pkt.header.tag != PacketTag.Signature:\n                        self.last = pkt.__class__.__name__\n                    return self.last\n", 'C14.3')
M('C14', 'grouper-splits-on-trust', PGP, GROUPER,
  "                    if pkt.header.tag not in (PacketTag.Signature, PacketTag.UserAttribute):\n                        self.last = '{:02X}_{:s}'.format(id(pkt), pkt.__class__.__name__)\n                    return self.last\n", 'C14.3')
M('C14', 'subkey-to-first-key', PGP, "                    else:\n                        keys[next(reversed(keys))] |= pgpobj\n", "                    else:\n                        keys[next(iter(keys))] |= pgpobj\n", 'C14.3')
M('C14', 'subkey-filed-as-key', PGP, "                    if pgpobj.is_primary:\n                        keys[(pgpobj.fingerprint.keyid, pgpobj.is_public)] = pgpobj\n\n                    else:\n                        keys[next(reversed(keys))] |= pgpobj\n",
  "                    keys[(pgpobj.fingerprint.keyid, pgpobj.is_public)] = pgpobj\n", 'C14.3')
# ---- C14.4
KEYCOPY_SIGS = "        for sig in self._signatures:\n            if sig.embedded:\n                # embedded signatures don't need to be explicitly copied\n                continue\n\n            key |= copy.copy(sig)\n"
T('C14', 'twin-copy-values-and-guard', PGP, "        for id, subkey in self._children.items():\n            key |= copy.copy(subkey)\n\n" + KEYCOPY_SIGS,
  "        for subkey in self._children.values():\n            key |= copy.copy(subkey)\n\n        for sig in self._signatures:\n            if not sig.embedded:\n                key |= copy.copy(sig)\n")
T('C14', 'twin-copy-mapped', PGP, "        for uid in self._uids:\n            key |= copy.copy(uid)\n", "        for uidcopy in [copy.copy(u) for u in self._uids]:\n            key |= uidcopy\n")
T('C14', 'twin-copy-renamed-result', PGP, "        key = super(PGPKey, self).__copy__()\n        key._key = copy.copy(self._key)\n\n        for uid in self._uids:\n            key |= copy.copy(uid)\n\n        for id, subkey in self._children.items():\n            key |= copy.copy(subkey)\n\n" + KEYCOPY_SIGS + "\n        return key\n",
  "        dup = super().__copy__()\n        keypkt = copy.copy(self._key)\n        dup._key = keypkt\n\n        for uid in self._uids:\n            dup |= copy.copy(uid)\n\n        for subkey in self._children.values():\n            dup |= copy.copy(subkey)\n\n"
  "        for sig in (s for s in self._signatures if not s.embedded):\n            dup |= copy.copy(sig)\n\n        return dup\n")
M('C14', 'copy-skips-nonexportable', PGP, KEYCOPY_SIGS, "        for sig in self._signatures:\n            if sig.embedded or not sig.exportable:\n                continue\n\n            key |= copy.copy(sig)\n", 'C14.4')
M('C14', 'copy-shares-signatures', PGP, KEYCOPY_SIGS, "        for sig in self._signatures:\n            if sig.embedded:\n                continue\n\n            key |= sig\n", 'C14.4')
M('C14', 'copy-only-self-certified-uids', PGP, "        for uid in self._uids:\n            key |= copy.copy(uid)\n", "        for uid in self._uids:\n            if uid.selfsig is None:\n                continue\n            key |= copy.copy(uid)\n", 'C14.4')
M('C14', 'uid-copy-shares-packet', PGP, "        uid |= copy.copy(self._uid)\n        for sig in self._signatures:", "        uid |= self._uid\n        for sig in self._signatures:", 'C14.4')
M('C14', 'sig-copy-shares-packet', PGP, "        sig |= copy.copy(self._signature)\n        return sig", "        sig |= self._signature\n        return sig", 'C14.4')
T('C14', 'twin-uid-copy-renamed', PGP, "        uid = PGPUID()\n        uid |= copy.copy(self._uid)\n        for sig in self._signatures:\n            uid |= copy.copy(sig)\n        return uid",
  "        dup = PGPUID()\n        pkt = copy.copy(self._uid)\n        dup |= pkt\n        for certification in self._signatures:\n            dup |= copy.copy(certification)\n        return dup")
# ---- C14.5
EMBED = ("            if other.type == SignatureType.Subkey_Binding:\n                for es in iter(pkb for pkb in other._signature.subpackets['EmbeddedSignature']):\n"
         "                    esig = PGPSignature() | es\n                    esig._parent = other\n                    self._signatures.insort(esig)\n")
T('C14', 'twin-embedded-helper-method', PGP, "            self._signatures.insort(other)\n\n            # if this is a subkey binding signature that has embedded primary key binding signatures, add them to parent\n" + EMBED,
  "            self._signatures.insort(other)\n            self._attach_embedded_signatures(other)\n",
  more=[(PGP, "    def __or__(self, other, from_sib=False):\n        if isinstance(other, Key) and self._key is None:",
         "    def _attach_embedded_signatures(self, binding):\n        if binding.type != SignatureType.Subkey_Binding:\n            return\n\n"
         "        for sigpkt in binding._signature.subpackets['EmbeddedSignature']:\n            embedded = PGPSignature() | sigpkt\n            embedded._parent = binding\n            self._signatures.insort(embedded)\n\n"
         "    def __or__(self, other, from_sib=False):\n        if isinstance(other, Key) and self._key is None:")])
T('C14', 'twin-embedded-plain-loop', PGP, EMBED,
  "            if SignatureType.Subkey_Binding == other.type:\n                for crosssig in other._signature.subpackets['EmbeddedSignature']:\n"
  "                    pkb = PGPSignature() | crosssig\n                    self._signatures.insort(pkb)\n                    pkb._parent = other\n")
T('C14', 'twin-uid-or-merged-arms', PGP, "        if isinstance(other, UserID) and self._uid is None:\n            self._uid = other\n            return self\n\n        if isinstance(other, UserAttribute) and self._uid is None:\n            self._uid = other\n            return self\n",
  "        if isinstance(other, (UserID, UserAttribute)) and self._uid is None:\n            self._uid = other\n            return self\n")
M('C14', 'embedded-parent-is-key', PGP, "                    esig._parent = other\n", "                    esig._parent = self\n", 'C14.5')
M('C14', 'embedded-not-inserted', PGP, "                    esig._parent = other\n                    self._signatures.insort(esig)\n", "                    esig._parent = other\n", 'C14.5')
M('C14', 'embedded-on-key-revocation', PGP, "            if other.type == SignatureType.Subkey_Binding:\n                for es in iter(pkb", "            if other.type == SignatureType.SubkeyRevocation:\n                for es in iter(pkb", 'C14.5')
M('C14', 'embedded-first-only', PGP, "                for es in iter(pkb for pkb in other._signature.subpackets['EmbeddedSignature']):", "                for es in other._signature.subpackets['EmbeddedSignature'][:1]:", 'C14.5')
M('C14', 'subkey-under-parent-keyid', PGP, "            self._children[other.fingerprint.keyid] = other\n", "            self._children[self.fingerprint.keyid] = other\n", 'C14.5')
M('C14', 'uid-not-linked', PGP, "            other._parent = weakref.ref(self)\n            self._uids.insort(other)\n", "            self._uids.insort(other)\n", 'C14.5')
M('C14', 'uid-signature-appended-left', PGP, "        if isinstance(other, PGPSignature):\n            self._signatures.insort(other)\n            if self.parent is not None and self in self.parent._uids:", "        if isinstance(other, PGPSignature):\n            self._signatures.appendleft(other)\n            if self.parent is not None and self in self.parent._uids:", 'C14.5')

# ---- C20
OPSLOOP = ("            for sig in reversed(self._signatures):\n                ops = sig.make_onepass()\n                # only the last one-pass packet, the one directly before the signed data, is flagged\n"
           "                if sig is self._signatures[0]:\n                    ops.nested = True\n                yield ops\n")
T('C20', 'twin-iter-helper-generator', PGP, "    def __iter__(self):\n        if self.type == 'cleartext':\n            for sig in self._signatures:\n                yield sig\n\n        elif self.is_encrypted:\n            for sig in self._signatures:\n                yield sig\n            for pkt in self._sessionkeys:\n                yield pkt\n            yield self.message\n\n        else:\n            ##TODO: is it worth coming up with a way of disabling one-pass signing?\n" + OPSLOOP +
  "\n            yield self._message\n            if self._mdc is not None:  # pragma: no cover\n                yield self._mdc\n\n            for sig in self._signatures:\n                yield sig\n",
  "    def _onepass_headers(self):\n        for sig in reversed(self._signatures):\n            ops = sig.make_onepass()\n            if sig is self._signatures[0]:\n                ops.nested = True\n            yield ops\n\n"
  "    def __iter__(self):\n        if self.type == 'cleartext':\n            for sig in self._signatures:\n                yield sig\n            return\n\n        if self.is_encrypted:\n            for sig in self._signatures:\n                yield sig\n            for pkt in self._sessionkeys:\n                yield pkt\n            yield self.message\n            return\n\n"
  "        for ops in self._onepass_headers():\n            yield ops\n\n        yield self._message\n        if self._mdc is not None:  # pragma: no cover\n            yield self._mdc\n\n        for sig in self._signatures:\n            yield sig\n")
T('C20', 'twin-flag-operands-swapped', PGP, OPSLOOP,
  "            oldest = self._signatures[0]\n            for signature in reversed(self._signatures):\n                header = signature.make_onepass()\n                if oldest is signature:\n                    header.nested = True\n                yield header\n")
T('C20', 'twin-flag-assigned-condition', PGP, OPSLOOP,
  "            for sig in reversed(self._signatures):\n                ops = sig.make_onepass()\n                ops.nested = sig is self._signatures[0]\n                yield ops\n")
T('C20', 'twin-flag-not-last-else', PGP, OPSLOOP,
  "            for sig in reversed(self._signatures):\n                ops = sig.make_onepass()\n                if sig is not self._signatures[0]:\n                    pass\n                else:\n                    ops.nested = True\n                yield ops\n")
M('C20', 'flag-on-creation-time-tie', PGP, OPSLOOP.split('                if sig')[0] + "                if sig.created == self._signatures[0].created:\n                    ops.nested = True\n                yield ops\n" if False else
  "                if sig is self._signatures[0]:\n                    ops.nested = True\n                yield ops", "                if sig.created == self._signatures[0].created:\n                    ops.nested = True\n                yield ops", 'C20.4')
M('C20', 'flag-set-on-other-packet', PGP, "                if sig is self._signatures[0]:\n                    ops.nested = True\n                yield ops", "                if sig is self._signatures[0]:\n                    sig.make_onepass().nested = True\n                yield ops", 'C20.4')
M('C20', 'flag-assigned-negated', PGP, OPSLOOP,
  "            for sig in reversed(self._signatures):\n                ops = sig.make_onepass()\n                ops.nested = sig is not self._signatures[0]\n                yield ops\n", 'C20.4')
M('C20', 'ops-from-first-signature', PGP, "            for sig in reversed(self._signatures):\n                ops = sig.make_onepass()\n", "            for sig in reversed(self._signatures):\n                ops = self._signatures[0].make_onepass()\n", 'C20')
M('C20', 'nested-default-true', PK, "        self._signer = b'\\x00' * 8\n        self.nested = False", "        self._signer = b'\\x00' * 8\n        self.nested = True", 'C20.4')
M('C20', 'onepass-sigtype-constant', PGP, "        onepass.sigtype = self.type\n", "        onepass.sigtype = SignatureType.BinaryDocument\n", 'C20.3')
T('C20', 'twin-onepass-renamed', PGP, "        onepass = OnePassSignatureV3()\n        onepass.sigtype = self.type\n        onepass.halg = self.hash_algorithm\n        onepass.pubalg = self.key_algorithm\n        onepass.signer = self.signer\n        onepass.update_hlen()\n        return onepass",
  "        ops = OnePassSignatureV3()\n        keyid = self.signer\n        ops.signer = keyid\n        ops.pubalg = self.key_algorithm\n        ops.halg = self.hash_algorithm\n        ops.sigtype = self.type\n        ops.update_hlen()\n        return ops")
MSGBYTES = "        _bytes = bytearray()\n        for pkt in self:\n            _bytes += pkt.__bytearray__()\n        return _bytes\n\n    def __str__(self):\n        if self.type == 'cleartext':"
T('C20', 'twin-message-bytes-join', PGP, MSGBYTES, "        return bytearray().join(pkt.__bytearray__() for pkt in self)\n\n    def __str__(self):\n        if self.type == 'cleartext':")
T('C20', 'twin-compressed-bytes-join', PK, "        _pb = bytearray()\n        for pkt in self.packets:\n            _pb += pkt.__bytearray__()\n        _bytes += self.calg.compress(bytes(_pb))",
  "        _pb = b''.join(pkt.__bytearray__() for pkt in self.packets)\n        _bytes += self.calg.compress(_pb)")
T('C20', 'twin-ops-bytes-one-append', PK, "        _bytes += bytearray([self.sigtype])\n        _bytes += bytearray([self.halg])\n        _bytes += bytearray([self.pubalg])\n        _bytes += binascii.unhexlify(self.signer.encode(\"latin-1\"))\n        _bytes += bytearray([int(self.nested)])",
  "        _bytes += bytearray([self.sigtype, self.halg, self.pubalg])\n        _bytes += binascii.unhexlify(self.signer.encode(\"latin-1\")) + bytearray([int(self.nested)])")
T('C20', 'twin-compressed-object-renamed', PGP, "            comp = CompressedData()\n            comp.calg = self._compression\n            comp.packets = [pkt for pkt in self]\n            comp.update_hlen()\n            return comp.__bytearray__()",
  "            container = CompressedData()\n            container.packets = list(self)\n            container.calg = self._compression\n            container.update_hlen()\n            return container.__bytearray__()")
M('C20', 'compressed-hlen-before-packets', PGP, "            comp.packets = [pkt for pkt in self]\n            comp.update_hlen()\n", "            comp.update_hlen()\n            comp.packets = [pkt for pkt in self]\n", 'C20.5')
M('C20', 'message-bytes-skip-mdc', PGP, MSGBYTES, "        return bytearray().join(pkt.__bytearray__() for pkt in self if pkt is not self._mdc)\n\n    def __str__(self):\n        if self.type == 'cleartext':", 'C20.5')
T('C20', 'twin-is-compressed-if-form', PGP, "        return self._compression != CompressionAlgorithm.Uncompressed", "        if self._compression == CompressionAlgorithm.Uncompressed:\n            return False\n        return True")
M('C20', 'is-compressed-zip-only', PGP, "        return self._compression != CompressionAlgorithm.Uncompressed", "        return self._compression == CompressionAlgorithm.ZIP", 'C20.5')
ORCOMP = "            self._compression = other.calg\n            for pkt in other.packets:\n                self |= pkt\n            return self\n"
T('C20', 'twin-or-compressed-renamed', PGP, ORCOMP, "            algorithm = other.calg\n            for inner in other.packets:\n                self |= inner\n            self._compression = algorithm\n            return self\n")
M('C20', 'or-compressed-first-packet-only', PGP, ORCOMP, "            self._compression = other.calg\n            for pkt in other.packets[:1]:\n                self |= pkt\n            return self\n", 'C20.5')
M('C20', 'or-compressed-skips-signatures', PGP, ORCOMP, "            self._compression = other.calg\n            for pkt in other.packets:\n                if isinstance(pkt, Signature):\n                    continue\n                self |= pkt\n            return self\n", 'C20.5')
M('C20', 'compressed-packet-first-only', PK, "        for pkt in self.packets:\n            _pb += pkt.__bytearray__()\n        _bytes += self.calg.compress(bytes(_pb))", "        for pkt in self.packets[:1]:\n            _pb += pkt.__bytearray__()\n        _bytes += self.calg.compress(bytes(_pb))", 'C20.5')
LITTAIL = "        self._contents = packet[:self.header.length - (6 + fnl)]\n        del packet[:self.header.length - (6 + fnl)]\n"
T('C20', 'twin-literal-length-temporary', PK, LITTAIL, "        clen = self.header.length - (6 + fnl)\n        self._contents = packet[:clen]\n        del packet[:clen]\n")
T('C20', 'twin-literal-length-respelled', PK, "        fnl = packet[0]\n        del packet[0]\n\n        self.filename = packet[:fnl].decode()\n        del packet[:fnl]\n\n        self.mtime = packet[:4]\n        del packet[:4]\n\n" + LITTAIL,
  "        namelen = packet[0]\n        del packet[0]\n\n        self.filename = packet[:namelen].decode('utf-8')\n        del packet[:namelen]\n\n        self.mtime = packet[:4]\n        del packet[:4]\n\n"
  "        remaining = self.header.length - namelen - 6\n        self._contents = packet[:remaining]\n        del packet[:remaining]\n")
M('C20', 'literal-contents-len-5', PK, LITTAIL, "        self._contents = packet[:self.header.length - (5 + fnl)]\n        del packet[:self.header.length - (5 + fnl)]\n", 'C20.6')
M('C20', 'literal-reader-latin1', PK, "        self.filename = packet[:fnl].decode()\n", "        self.filename = packet[:fnl].decode('latin-1')\n", 'C20.6')
M('C20', 'literal-time-before-name', PK, "        self.filename = packet[:fnl].decode()\n        del packet[:fnl]\n\n        self.mtime = packet[:4]\n        del packet[:4]\n", "        self.mtime = packet[:4]\n        del packet[:4]\n\n        self.filename = packet[:fnl].decode()\n        del packet[:fnl]\n", 'C20.6')
M('C20', 'ops-reader-pubalg-before-halg', PK, "        self.halg = packet[0]\n        del packet[0]\n\n        self.pubalg = packet[0]\n        del packet[0]\n\n        self.signer = packet[:8]", "        self.pubalg = packet[0]\n        del packet[0]\n\n        self.halg = packet[0]\n        del packet[0]\n\n        self.signer = packet[:8]", 'C20.6')
M('C20', 'ops-reader-flag-inverted', PK, "        self.nested = (packet[0] == 1)\n", "        self.nested = (packet[0] == 0)\n", 'C20.6')
T('C20', 'twin-ops-reader-renamed-buffer', PK, "    def parse(self, packet):\n        super(OnePassSignatureV3, self).parse(packet)\n        self.sigtype = packet[0]\n        del packet[0]\n\n        self.halg = packet[0]\n        del packet[0]\n\n        self.pubalg = packet[0]\n        del packet[0]\n\n        self.signer = packet[:8]\n        del packet[:8]\n\n        self.nested = (packet[0] == 1)\n        del packet[0]\n",
  "    def parse(self, buf):\n        super().parse(buf)\n        self.sigtype = buf[0]\n        del buf[0]\n\n        self.halg = buf[0]\n        del buf[0]\n\n        self.pubalg = buf[0]\n        del buf[0]\n\n        self.signer = buf[:8]\n        del buf[:8]\n\n        self.nested = buf[0] != 0\n        del buf[0]\n")
NEWLIT = ("            lit = LiteralData()\n            lit._contents = bytearray(msg.text_to_bytes(message))\n            lit.filename = '_CONSOLE' if sensitive else os.path.basename(filename)\n"
          "            lit.mtime = mtime\n            lit.format = format\n")
T('C20', 'twin-new-literal-renamed', PGP, NEWLIT + "\n            # if cls.is_ascii(message):\n            #     lit.format = 't'\n\n            lit.update_hlen()\n\n            msg |= lit\n",
  "            body = msg.text_to_bytes(message)\n            if sensitive:\n                litname = '_CONSOLE'\n            else:\n                litname = os.path.basename(filename)\n            literal = LiteralData()\n            literal._contents = bytearray(body)\n"
  "            literal.filename = litname\n            literal.mtime = mtime\n            literal.format = format\n\n            literal.update_hlen()\n\n            msg |= literal\n")
M('C20', 'new-compression-forced-zip', PGP, "            msg |= lit\n            msg._compression = compression\n", "            msg |= lit\n            msg._compression = CompressionAlgorithm.ZIP\n", 'C20.6')
M('C20', 'new-sensitive-inverted', PGP, "            lit.filename = '_CONSOLE' if sensitive else os.path.basename(filename)", "            lit.filename = os.path.basename(filename) if sensitive else '_CONSOLE'", 'C20.6')
M('C20', 'new-no-update-hlen', PGP, "            lit.update_hlen()\n\n            msg |= lit\n", "            msg |= lit\n", 'C20.6')
T('C20', 'twin-trailing-yield-from', PGP, "            for sig in self._signatures:\n                yield sig\n\n    def __or__(self, other):\n        if isinstance(other, Marker):", "            yield from self._signatures\n\n    def __or__(self, other):\n        if isinstance(other, Marker):")
T('C20', 'twin-ops-reversed-copy', PGP, "            for sig in reversed(self._signatures):\n                ops = sig.make_onepass()\n", "            for sig in reversed(list(self._signatures)):\n                ops = sig.make_onepass()\n")
M('C20', 'trailing-sigs-yield-from-reversed', PGP, "            for sig in self._signatures:\n                yield sig\n\n    def __or__(self, other):\n        if isinstance(other, Marker):", "            yield from reversed(self._signatures)\n\n    def __or__(self, other):\n        if isinstance(other, Marker):", 'C20.2')
M('C20', 'flag-dropped', PGP, "                if sig is self._signatures[0]:\n                    ops.nested = True\n                yield ops", "                yield ops", 'C20.4')
T('C14', 'twin-export-extend', PGP, KEYSIGS, "        for sig in iter(s for s in self._signatures if not s.embedded and s.exportable):\n            _bytes.extend(sig.__bytearray__())\n")
T('C14', 'twin-stream-inlined', PGP, TRUST + "\n        def pktgrouper():", "        def pktgrouper():",
  more=[(PGP, "itertools.groupby(getpkt, key=pktgrouper())", "itertools.groupby(filter(lambda p: p.header.tag != PacketTag.Trust, iter(functools.partial(_getpkt, data), None)), key=pktgrouper())")])
T('C14', 'twin-copy-binary-or', PGP, "        for uid in self._uids:\n            key |= copy.copy(uid)\n", "        for uid in self._uids:\n            key = key | copy.copy(uid)\n")
T('C20', 'twin-new-option-bool', PGP, "        sensitive = kwargs.pop('sensitive', False)\n", "        sensitive = bool(kwargs.pop('sensitive', False))\n")
T('C14', 'twin-grouper-closure', PGP, "        def pktgrouper():\n            class PktGrouper(object):\n                def __init__(self):\n                    self.last = None\n\n                def __call__(self, pkt):\n" + GROUPER + "            return PktGrouper()\n",
  "        grouplabel = [None]\n\n        def grouper(pkt):\n            if pkt.header.tag != PacketTag.Signature:\n                grouplabel[0] = '{:02X}_{:s}'.format(id(pkt), pkt.__class__.__name__)\n            return grouplabel[0]\n",
  more=[(PGP, "itertools.groupby(getpkt, key=pktgrouper())", "itertools.groupby(getpkt, key=grouper)")])
M('C14', 'grouper-closure-every-packet', PGP, "        def pktgrouper():\n            class PktGrouper(object):\n                def __init__(self):\n                    self.last = None\n\n                def __call__(self, pkt):\n" + GROUPER + "            return PktGrouper()\n",
  "        grouplabel = [None]\n\n        def grouper(pkt):\n            grouplabel[0] = '{:02X}_{:s}'.format(id(pkt), pkt.__class__.__name__)\n            return grouplabel[0]\n", 'C14.3',
  more=[(PGP, "itertools.groupby(getpkt, key=pktgrouper())", "itertools.groupby(getpkt, key=grouper)")])
T('C14', 'twin-copy-chained', PGP, "        for uid in self._uids:\n            key |= copy.copy(uid)\n\n        for id, subkey in self._children.items():\n            key |= copy.copy(subkey)\n",
  "        for part in itertools.chain(self._uids, self._children.values()):\n            key |= copy.copy(part)\n")
T('C14', 'twin-export-helper-filter', PGP, UIDSIGS, "            for s in self._exportable_only(uid._signatures):\n                _bytes += s.__bytearray__()\n",
  more=[(PGP, "    def __bytearray__(self):\n        _bytes = bytearray()\n        # us\n", "    @staticmethod\n    def _exportable_only(sigs):\n        return [s for s in sigs if s.exportable]\n\n    def __bytearray__(self):\n        _bytes = bytearray()\n        # us\n")])
M('C14', 'copy-chained-without-subkeys', PGP, "        for uid in self._uids:\n            key |= copy.copy(uid)\n\n        for id, subkey in self._children.items():\n            key |= copy.copy(subkey)\n",
  "        for part in itertools.chain(self._uids):\n            key |= copy.copy(part)\n", 'C14.4')
T('C14', 'twin-copy-subkeys-by-keyid', PGP, "        for id, subkey in self._children.items():\n            key |= copy.copy(subkey)\n", "        for keyid in self._children:\n            key |= copy.copy(self._children[keyid])\n")
M('C14', 'copy-subkey-ids-instead-of-subkeys', PGP, "        for id, subkey in self._children.items():\n            key |= copy.copy(subkey)\n", "        for subkey in self._children:\n            key |= copy.copy(subkey)\n", 'C14.4')
T('C14', 'twin-export-subkeys-by-keyid', PGP, "        for sk in self._children.values():\n            _bytes += sk.__bytearray__()\n\n        return _bytes",
  "        for keyid in self._children:\n            _bytes += self._children[keyid].__bytearray__()\n\n        return _bytes")
M('C14', 'export-first-subkey-only', PGP, "        for sk in self._children.values():\n            _bytes += sk.__bytearray__()\n\n        return _bytes",
  "        for sk in list(self._children.values())[:1]:\n            _bytes += sk.__bytearray__()\n\n        return _bytes", 'C14.1')

# ---- held-out wave (C14-ref6, C20-ref5, C20-ref6)
T('C14', 'twin-grouper-class-attribute', PGP, "        def pktgrouper():\n            class PktGrouper(object):\n                def __init__(self):\n                    self.last = None\n\n                def __call__(self, pkt):\n" + GROUPER + "            return PktGrouper()\n", "",
  more=[(PGP, "itertools.groupby(getpkt, key=pktgrouper())", "itertools.groupby(getpkt, key=self._PktGrouper())"),
        (PGP, "    def parse(self, data):\n        unarmored = self.ascii_unarmor(data)\n        data = unarmored['body']\n\n        if unarmored['magic'] is not None and 'KEY' not in unarmored['magic']:",
         "    class _PktGrouper(object):\n        def __init__(self):\n            self.last = None\n\n        def __call__(self, pkt):\n            if pkt.header.tag != PacketTag.Signature:\n                self.last = '{:02X}_{:s}'.format(id(pkt), pkt.__class__.__name__)\n            return self.last\n\n"
         "    def parse(self, data):\n        unarmored = self.ascii_unarmor(data)\n        data = unarmored['body']\n\n        if unarmored['magic'] is not None and 'KEY' not in unarmored['magic']:")])
M('C14', 'grouper-class-attribute-splits-on-all', PGP, "        def pktgrouper():\n            class PktGrouper(object):\n                def __init__(self):\n                    self.last = None\n\n                def __call__(self, pkt):\n" + GROUPER + "            return PktGrouper()\n", "", 'C14.3',
  more=[(PGP, "itertools.groupby(getpkt, key=pktgrouper())", "itertools.groupby(getpkt, key=self._PktGrouper())"),
        (PGP, "    def parse(self, data):\n        unarmored = self.ascii_unarmor(data)\n        data = unarmored['body']\n\n        if unarmored['magic'] is not None and 'KEY' not in unarmored['magic']:",
         "    class _PktGrouper(object):\n        def __init__(self):\n            self.last = None\n\n        def __call__(self, pkt):\n            if pkt.header.tag != PacketTag.Trust:\n                self.last = '{:02X}_{:s}'.format(id(pkt), pkt.__class__.__name__)\n            return self.last\n\n"
         "    def parse(self, data):\n        unarmored = self.ascii_unarmor(data)\n        data = unarmored['body']\n\n        if unarmored['magic'] is not None and 'KEY' not in unarmored['magic']:")])
T('C20', 'twin-all-yield-from', PGP, "            for sig in self._signatures:\n                yield sig\n            for pkt in self._sessionkeys:\n                yield pkt\n            yield self.message\n",
  "            yield from self._signatures\n            yield from self._sessionkeys\n            yield self.message\n")
M('C20', 'yield-from-sessionkeys-after-container', PGP, "            for sig in self._signatures:\n                yield sig\n            for pkt in self._sessionkeys:\n                yield pkt\n            yield self.message\n",
  "            yield from self._signatures\n            yield self.message\n            yield from self._sessionkeys\n", 'C20.1')
T('C20', 'twin-ops-flag-operands-swapped', PK, "        self.nested = (packet[0] == 1)\n", "        self.nested = (1 == packet[0])\n")
M('C20', 'ops-reader-flag-two', PK, "        self.nested = (packet[0] == 1)\n", "        self.nested = (2 == packet[0])\n", 'C20.6')

# ---- second held-out wave of seeded changes (C14-w2mut2/3, C20-w2mut2/3) and further kinds of loss
POPS = "        [ keys.pop((getattr(self, 'fingerprint.keyid', '~'), None), t) for t in (True, False) ]\n"
M('C14', 'result-pops-both-halves', PGP, POPS, "        if self._key is not None:\n            for t in (True, False):\n                keys.pop((self.fingerprint.keyid, t), None)\n", 'C14.3')
M('C14', 'result-pops-most-recent', PGP, POPS, "        if len(keys) > 1:\n            keys.popitem()\n", 'C14.3')
M('C14', 'result-del-public-half', PGP, POPS, "        if (self.fingerprint.keyid, True) in keys and (self.fingerprint.keyid, False) in keys:\n            del keys[(self.fingerprint.keyid, True)]\n", 'C14.3')
T('C14', 'twin-result-pops-own-entry', PGP, POPS, "        if self._key is not None:\n            keys.pop((self.fingerprint.keyid, self.is_public), None)\n")
T('C14', 'twin-result-noop-pop-loop', PGP, POPS, "        for t in (True, False):\n            keys.pop((getattr(self, 'fingerprint.keyid', '~'), None), t)\n")
M('C14', 'result-filtered-to-primaries-with-uids', PGP, "        # return {'keys': keys, 'orphaned': orphaned}\n        return keys\n", "        return collections.OrderedDict((k, v) for k, v in keys.items() if v._uids)\n", 'C14.3')
M('C14', 'filing-skips-known-key', PGP, "                    if pgpobj.is_primary:\n                        keys[(pgpobj.fingerprint.keyid, pgpobj.is_public)] = pgpobj\n",
  "                    if pgpobj.is_primary:\n                        if (pgpobj.fingerprint.keyid, pgpobj.is_public) not in keys:\n                            keys[(pgpobj.fingerprint.keyid, pgpobj.is_public)] = pgpobj\n", 'C14.3')
UACOPY = "        _bytes += self.subpackets.__bytearray__()\n        return _bytes\n\n    def parse(self, packet):\n        super(UserAttribute, self).parse(packet)\n"
M('C14', 'user-attribute-copy-from-image', PK, UACOPY,
  "        _bytes += self.subpackets.__bytearray__()\n        return _bytes\n\n    def __copy__(self):\n        ua = UserAttribute()\n        ua.header = copy.copy(self.header)\n        ua.subpackets['Image'] = copy.copy(self.image)\n        ua.update_hlen()\n        return ua\n\n"
  "    def parse(self, packet):\n        super(UserAttribute, self).parse(packet)\n", 'C14.4')
T('C14', 'twin-user-attribute-copy-complete', PK, UACOPY,
  "        _bytes += self.subpackets.__bytearray__()\n        return _bytes\n\n    def __copy__(self):\n        ua = UserAttribute()\n        ua.header = copy.copy(self.header)\n        ua.subpackets = copy.copy(self.subpackets)\n        return ua\n\n"
  "    def parse(self, packet):\n        super(UserAttribute, self).parse(packet)\n")
M('C14', 'signature-packet-copy-drops-unhashed', PK, "        spkt.subpackets = copy.copy(self.subpackets)\n        spkt.hash2 = copy.copy(self.hash2)",
  "        for sp in self.subpackets._hashed_sp.values():\n            spkt.subpackets['h_' + sp.__class__.__name__] = sp\n        spkt.hash2 = copy.copy(self.hash2)", 'C14.4')
M('C14', 'key-packet-copy-without-material', PK, "        pk.pkalg = self.pkalg\n        pk.keymaterial = copy.copy(self.keymaterial)\n\n        return pk", "        pk.pkalg = self.pkalg\n\n        return pk", 'C14.4')
M('C14', 'uid-copy-from-derived-view', PGP, "        uid |= copy.copy(self._uid)\n        for sig in self._signatures:", "        uid |= UserID.new(self.name, comment=self.comment, email=self.email)\n        for sig in self._signatures:", 'C14.4')
M('C14', 'key-copy-userids-view', PGP, "        for uid in self._uids:\n            key |= copy.copy(uid)\n", "        for uid in self.userids:\n            key |= copy.copy(uid)\n", 'C14.4')
SIGARM = "        elif isinstance(other, PGPSignature):\n            self._signatures.insort(other)\n"
M('C14', 'or-signature-dedup', PGP, SIGARM, "        elif isinstance(other, PGPSignature):\n            if not any(s.created == other.created and s.signer == other.signer and s.type == other.type for s in self._signatures):\n                self._signatures.insort(other)\n", 'C14.5')
M('C14', 'or-signature-expired-refused', PGP, SIGARM, "        elif isinstance(other, PGPSignature) and not other.is_expired:\n            self._signatures.insort(other)\n", 'C14.5')
M('C14', 'or-signature-resorted-by-time', PGP, SIGARM, "        elif isinstance(other, PGPSignature):\n            self._signatures.insort(other)\n            self._signatures = SorteDeque(sorted(self._signatures, key=lambda s: s.created, reverse=True))\n", 'C14.5')
M('C14', 'uid-or-signature-dedup', PGP, "        if isinstance(other, PGPSignature):\n            self._signatures.insort(other)\n            if self.parent is not None and self in self.parent._uids:",
  "        if isinstance(other, PGPSignature):\n            if other not in self._signatures:\n                self._signatures.insort(other)\n            if self.parent is not None and self in self.parent._uids:", 'C14.5')
M('C14', 'export-sorted-by-creation', PGP, KEYSIGS, "        for sig in sorted((s for s in self._signatures if not s.embedded and s.exportable), key=lambda s: s.created):\n            _bytes += sig.__bytearray__()\n", 'C14.1')
M('C20', 'zip-window-13', CO, "            return zlib.decompress(data, -15)", "            return zlib.decompress(data, -13)", 'C20.5')
M('C20', 'zip-decompress-zlib-container', CO, "            return zlib.decompress(data, -15)", "            return zlib.decompress(data)", 'C20.5')
M('C20', 'zlib-compress-raw', CO, "        if self is CompressionAlgorithm.ZLIB:\n            return zlib.compress(data)\n", "        if self is CompressionAlgorithm.ZLIB:\n            return zlib.compress(data)[2:-4]\n", 'C20.5')
T('C20', 'twin-zip-wbits-keyword', CO, "            return zlib.decompress(data, -15)", "            return zlib.decompress(data, wbits=-zlib.MAX_WBITS)")
M('C20', 'literal-time-local-relabelled', PK, "        self.mtime = datetime.fromtimestamp(val, timezone.utc)\n\n    @mtime.register(bytes)", "        self.mtime = datetime.fromtimestamp(val).replace(tzinfo=timezone.utc)\n\n    @mtime.register(bytes)", 'C20.6')
M('C20', 'literal-time-local-naive', PK, "        self.mtime = datetime.fromtimestamp(val, timezone.utc)\n\n    @mtime.register(bytes)", "        self.mtime = datetime.fromtimestamp(val)\n\n    @mtime.register(bytes)", 'C20.6')
T('C20', 'twin-literal-time-utcfromtimestamp', PK, "        self.mtime = datetime.fromtimestamp(val, timezone.utc)\n\n    @mtime.register(bytes)", "        self.mtime = datetime.utcfromtimestamp(val).replace(tzinfo=timezone.utc)\n\n    @mtime.register(bytes)")
T('C20', 'twin-literal-time-tz-keyword', PK, "        self.mtime = datetime.fromtimestamp(val, timezone.utc)\n\n    @mtime.register(bytes)", "        seconds = val\n        self.mtime = datetime.fromtimestamp(seconds, tz=timezone.utc)\n\n    @mtime.register(bytes)")
MSGSIG = "        if isinstance(other, PGPSignature):\n            self._signatures.insort(other)\n            return self\n\n        if isinstance(other, (PKESessionKey, SKESessionKey)):\n            self._sessionkeys.append(other)\n            return self\n"
M('C20', 'or-signature-dedup-on-import', PGP, MSGSIG, MSGSIG.replace("            self._signatures.insort(other)\n", "            if not any(s.signer == other.signer and s.created == other.created for s in self._signatures):\n                self._signatures.insort(other)\n"), 'C20.5')
M('C20', 'or-signatures-resorted', PGP, MSGSIG, MSGSIG.replace("            self._signatures.insort(other)\n", "            self._signatures.insort(other)\n            self._signatures = SorteDeque(sorted(self._signatures, reverse=True))\n"), 'C20.5')
M('C20', 'or-sessionkey-one-per-recipient', PGP, MSGSIG, MSGSIG.replace("            self._sessionkeys.append(other)\n", "            if all(getattr(sk, 'encrypter', None) != getattr(other, 'encrypter', object()) for sk in self._sessionkeys):\n                self._sessionkeys.append(other)\n"), 'C20.5')
M('C20', 'or-skesk-refused', PGP, MSGSIG, MSGSIG.replace("(PKESessionKey, SKESessionKey)", "PKESessionKey"), 'C20.5')
M('C20', 'trailing-sigs-sorted-by-time', PGP, "            for sig in self._signatures:\n                yield sig\n\n    def __or__(self, other):\n        if isinstance(other, Marker):", "            for sig in sorted(self._signatures, key=lambda s: s.created):\n                yield sig\n\n    def __or__(self, other):\n        if isinstance(other, Marker):", 'C20.2')
# =============================================================================================== C18.8 / C18.9 (wave-2 seeded shapes) and further kinds
TYP = 'pgpy/packet/types.py'
_SUBKEY = "            npk = PrivSubKeyV4()\n            npk.pkalg = key._key.pkalg\n            npk.created = key._key.created\n            npk.keymaterial = key._key.keymaterial\n            key._key = npk\n"
T('C18', 'twin-subkey-conversion-source-temp', PGP, _SUBKEY,
  "            primary_packet = key._key\n            sub_packet = PrivSubKeyV4()\n            sub_packet.created = primary_packet.created\n            sub_packet.keymaterial = primary_packet.keymaterial\n            sub_packet.pkalg = primary_packet.pkalg\n            key._key = sub_packet\n")
T('C18', 'twin-packet-copy-renamed-reordered', PK, "        pk = self.__class__()\n        pk.header = copy.copy(self.header)\n        pk.created = self.created\n        pk.pkalg = self.pkalg\n        pk.keymaterial = copy.copy(self.keymaterial)\n\n        return pk",
  "        source = self\n        dup = source.__class__()\n        dup.pkalg = source.pkalg\n        material = copy.copy(source.keymaterial)\n        dup.keymaterial = material\n        dup.created = source.created\n        dup.header = copy.copy(source.header)\n        return dup")
M('C18', 'subkey-created-from-new-parent', PGP, "            npk.created = key._key.created\n", "            npk.created = self._key.created\n", 'C18.8')
M('C18', 'subkey-created-left-at-now', PGP, "            npk.created = key._key.created\n", "", 'C18.8')
M('C18', 'subkey-material-from-temp-of-parent', PGP, _SUBKEY,
  "            old = key._key\n            mine = self._key\n            npk = PrivSubKeyV4()\n            npk.pkalg = old.pkalg\n            npk.created = old.created\n            npk.keymaterial = mine.keymaterial\n            key._key = npk\n", 'C18.8')
M('C18', 'packet-copy-created-normalised', PK, "        pk.created = self.created\n        pk.pkalg = self.pkalg\n        pk.keymaterial = copy.copy(self.keymaterial)", "        pk.created = self.created.replace(tzinfo=None)\n        pk.pkalg = self.pkalg\n        pk.keymaterial = copy.copy(self.keymaterial)", 'C18.8')
M('C18', 'packet-copy-keeps-default-material', PK, "        pk.pkalg = self.pkalg\n        pk.keymaterial = copy.copy(self.keymaterial)\n\n        return pk", "        pk.pkalg = self.pkalg\n        pk.keymaterial = copy.copy(pk.keymaterial)\n\n        return pk", 'C18.8')
M('C18', 'pubkey-created-of-now-via-temp', PK, "        pk.created = self.created\n        pk.pkalg = self.pkalg\n\n        # copy over MPIs", "        stamp = datetime.now(timezone.utc)\n        pk.created = stamp\n        pk.pkalg = self.pkalg\n\n        # copy over MPIs", 'C18')
_ECP = "        pk = self.__class__()\n        pk.bytelen = self.bytelen\n        pk.format = self.format\n        pk.x = copy.copy(self.x)\n        pk.y = copy.copy(self.y)\n        return pk"
T('C18', 'twin-ecpoint-copy-renamed-reordered', FL, _ECP, "        src = self\n        point = src.__class__()\n        point.x = copy.copy(src.x)\n        point.y = copy.copy(src.y)\n        width = src.bytelen\n        point.format = src.format\n        point.bytelen = width\n        return point")
T('C18', 'twin-ecdh-copy-temporaries', FL, "        pkt = super(ECDHPub, self).__copy__()\n        pkt.oid = self.oid\n        pkt.kdf = copy.copy(self.kdf)\n        return pkt", "        dup = super().__copy__()\n        kdf = copy.copy(self.kdf)\n        dup.kdf = kdf\n        dup.oid = self.oid\n        return dup")
M('C18', 'ecpoint-copy-via-from-values-width-from-value', FL, _ECP,
  "        if self.format == ECPointFormat.Standard:\n            bitlen = max(self.x.bit_length(), self.y.bit_length())\n        else:\n            bitlen = 8 * len(self.x)\n        return self.from_values(bitlen, self.format, copy.copy(self.x), copy.copy(self.y))", 'C18.9')
M('C18', 'ecpoint-copy-width-recomputed', FL, "        pk.bytelen = self.bytelen\n        pk.format = self.format", "        pk.bytelen = max(self.x.byte_length(), self.y.byte_length()) if self.y is not None else 0\n        pk.format = self.format", 'C18.9')
M('C18', 'ecpoint-copy-format-normalised', FL, "        pk.bytelen = self.bytelen\n        pk.format = self.format", "        pk.bytelen = self.bytelen\n        pk.format = ECPointFormat.Standard", 'C18.9')
M('C18', 'ecpoint-copy-y-dropped', FL, "        pk.x = copy.copy(self.x)\n        pk.y = copy.copy(self.y)\n        return pk", "        pk.x = copy.copy(self.x)\n        pk.y = None\n        return pk", 'C18.9')
M('C18', 'ecdh-copy-kdf-default', FL, "        pkt.oid = self.oid\n        pkt.kdf = copy.copy(self.kdf)\n        return pkt", "        pkt.oid = self.oid\n        return pkt", 'C18.9')
M('C18', 'ecdsa-copy-oid-from-copy-itself', FL, "        pkt = super(ECDSAPub, self).__copy__()\n        pkt.oid = self.oid", "        pkt = super(ECDSAPub, self).__copy__()\n        pkt.oid = pkt.oid", 'C18.9')
M('C18', 'material-copy-skips-first-integer', TYP, "        for m in self.__mpis__:\n            setattr(pk, m, copy.copy(getattr(self, m)))", "        for m in list(self.__mpis__)[1:]:\n            setattr(pk, m, copy.copy(getattr(self, m)))", 'C18.9')
M('C18', 'material-copy-normalises-integers', TYP, "            setattr(pk, m, copy.copy(getattr(self, m)))", "            setattr(pk, m, MPI(abs(int(getattr(self, m)))))", 'C18.9')
M('C18', 'pubfields-not-among-copied-integers', FL, "        for i in self.__pubfields__:\n            yield i", "        for i in self.__pubfields__[1:]:\n            yield i", 'C18.9')
# reverse of fix 1e3bd89: the opaque containers lose `data` on copy again (C18.9 over the fallback key material, C14.6 over both)
_OPQ_PUB_COPY = "    def __copy__(self):\n        pk = super(OpaquePubKey, self).__copy__()\n        pk.data = copy.copy(self.data)\n        return pk\n"
_OPQ_SIG_COPY = "    def __copy__(self):\n        sig = super(OpaqueSignature, self).__copy__()\n        sig.data = copy.copy(self.data)\n        return sig\n"
# reverse of the OpaquePubKey.__len__ fix and neighbours (C18.3 fallback instance)
M('C18', 'opaque-keymaterial-length-removed', FL, "    def __len__(self):\n        return len(self.data)\n\n    def __bytearray__(self):\n        return self.data\n", "    def __bytearray__(self):\n        return self.data\n", 'C18.3')
M('C18', 'opaque-keymaterial-publen-zero', FL, "    def __len__(self):\n        return len(self.data)\n\n    def __bytearray__(self):\n        return self.data\n", "    def __len__(self):\n        return len(self.data)\n\n    def publen(self):\n        return 0\n\n    def __bytearray__(self):\n        return self.data\n", 'C18.3')
T('C18', 'twin-opaque-keymaterial-length-via-bytearray', FL, "    def __len__(self):\n        return len(self.data)\n\n    def __bytearray__(self):\n        return self.data\n", "    def __len__(self):\n        return len(self.__bytearray__())\n\n    def __bytearray__(self):\n        return self.data\n")
M('C18', 'opaque-keymaterial-copy-removed', FL, _OPQ_PUB_COPY, "", 'C18.9')
M('C18', 'opaque-keymaterial-copy-empty-data', FL, "        pk.data = copy.copy(self.data)\n        return pk", "        pk.data = bytearray()\n        return pk", 'C18.9')
M('C14', 'opaque-keymaterial-copy-removed', FL, _OPQ_PUB_COPY, "", 'C14.6')
M('C14', 'opaque-signature-copy-removed', FL, _OPQ_SIG_COPY, "", 'C14.6')
M('C14', 'opaque-signature-copy-from-itself', FL, "        sig.data = copy.copy(self.data)\n        return sig", "        sig.data = copy.copy(sig.data)\n        return sig", 'C14.6')
M('C14', 'ecdh-copy-kdf-default', FL, "        pkt.oid = self.oid\n        pkt.kdf = copy.copy(self.kdf)\n        return pkt", "        pkt.oid = self.oid\n        return pkt", 'C14.6')
M('C14', 'signature-material-copy-skips-first-integer', TYP, "        for m in self.__mpis__:\n            setattr(pk, m, copy.copy(getattr(self, m)))", "        for m in list(self.__mpis__)[1:]:\n            setattr(pk, m, copy.copy(getattr(self, m)))", 'C14.6')
T('C14', 'twin-opaque-signature-copy-bytearray', FL, "        sig.data = copy.copy(self.data)\n        return sig", "        sig.data = bytearray(self.data)\n        return sig")
# reverse of the UserID.__copy__ fix: the codec flag is dropped / defaulted on copy again (C14.6 over the packets of a key export)
M('C14', 'userid-copy-drops-codec-flag', PK, "        uid.uid = self.uid\n        uid._encoding_fallback = self._encoding_fallback\n        return uid", "        uid.uid = self.uid\n        return uid", 'C14.6')
M('C14', 'userid-copy-codec-flag-constant', PK, "        uid._encoding_fallback = self._encoding_fallback\n", "        uid._encoding_fallback = False\n", 'C14.6')
M('C14', 'sigv4-copy-shares-nothing-of-hash2', PK, "        spkt.hash2 = copy.copy(self.hash2)\n", "        spkt.hash2 = bytearray(2)\n", 'C14.6')
T('C14', 'twin-userid-copy-flag-first', PK, "        uid.uid = self.uid\n        uid._encoding_fallback = self._encoding_fallback\n        return uid", "        uid._encoding_fallback = self._encoding_fallback\n        uid.uid = self.uid\n        return uid")
# --- other kinds
M('C18', 'fingerprint-cached-never-invalidated', PK, "        fp = hashlib.new('sha1')\n\n        plen = self.keymaterial.publen()", "        if getattr(self, '_fpr_cache', None) is not None:\n            return self._fpr_cache\n        fp = hashlib.new('sha1')\n\n        plen = self.keymaterial.publen()",
  'C18.1', more=[(PK, "        return Fingerprint(fp.hexdigest().upper())", "        self._fpr_cache = Fingerprint(fp.hexdigest().upper())\n        return self._fpr_cache")])
M('C18', 'key-fingerprint-cached-on-key-object', PGP, "        if self._key:\n            return self._key.fingerprint\n", "        if self._key:\n            if getattr(self, '_fp', None) is None:\n                self._fp = self._key.fingerprint\n            return self._fp\n", 'C18.4')
M('C18', 'keyid-first-16-digits', TY, "        return self[-16:]", "        return self[:16]", 'C18.4')
M('C18', 'subkey-index-by-first-16-digits', PGP, "        self._children[key.fingerprint.keyid] = key\n        key._parent = self", "        self._children[key.fingerprint[:16]] = key\n        key._parent = self", 'C18.4')
M('C18', 'signer-id-first-16-digits-via-temp', PGP, "        sig = PGPSignature.new(SignatureType.DirectlyOnKey, self.key_algorithm, hash_algo, self.fingerprint.keyid, created=prefs.pop('created', None))",
  "        fpr = self.fingerprint\n        sig = PGPSignature.new(SignatureType.DirectlyOnKey, self.key_algorithm, hash_algo, fpr[:16], created=prefs.pop('created', None))", 'C18')

# =============================================================================================== C02 / C05: independent stress patches
# selftest/patches/G2-*.diff: 38 behaviour-preserving refactorings (three sub-agents that never saw the rules; each verified against the
# test-suite and a differential probe) and 24 property-breaking mutants (each with a witness input).  Every twin must stay silent under
# BOTH checks; R2-twin03/05/08/10 use constructs outside the byte-term model and answer exit 2 (twin-unseen), never a violation.
_G2_TWINS = [('C02-twin%02d' % k, w) for k, w in enumerate((
    'sign-aliases-ifexp-merged-ifs', 'hashdata-keyframe-helper-trailer-literal', 'sign-revoke-revoker-ifexp-guards', 'certify-bound-addnew-module-frozenset',
    'bind-new-hashdata-helpers', 'pubalg-if-chain-writer-plus-chain-field-loop', 'priv-sign-temporaries-prehash-helper', 'subpackets-area-helper-join',
    'signature-fields-join-method-divmod-zip', 'can-sign-or-chain-hasher-keyword', 'subpacket-writers-loops-single-expressions',
    'sign-helpers-new-keywords-class-table-keyerror'), 1)]
_G2_TWINS += [('C05-twin%02d' % k, w) for k, w in enumerate((
    'parse-renames-format-key', 'parse-area-helper', 'area-bytes-helper-is-none-swapped', 'setitem-renames-if-else', 'copy-slice-addnew-continue-init-tuple',
    'sigv4-parse-setattr-loop', 'setters-class-table-single-store', 'canonical-bytes-field-loop-copy-setattr-loop', 'hashdata-trailer-bytearray-literal',
    'pgpsig-copy-or-properties-locals', 'bytearray-one-expression-join-generator', 'parse-stop-form-type-name-trailer-extend'), 1)]
_G2_TWINS += [('R2-twin%02d' % k, w) for k, w in enumerate((
    'subpackets-container-methods', 'parse-generator-int-from-bytes-explicit-setitem', 'serialisers-inlined-to-bytes-while-pop', 'subpacket-writers-piece-lists',
    'signature-fields-reduce-closures-shift', 'priv-sign-star-call-keywords', 'setters-for-else-suppress', 'writer-generator-slice-insert',
    'copy-plan-del-slice-tuple-assign', 'properties-attrgetter-new-table-driven', 'hashdata-piece-list-class-frozensets', 'sign-walrus-generator-unpack',
    'sign-ladder-certify-closures', 'revoke-closure-dicts-bind-table'), 1)]
for _n, _what in _G2_TWINS:
    for _p in ('C02', 'C05'):
        _TD(_p, 'stress-G2-%s-%s' % (_n, _what), 'G2-%s.diff' % _n)
for _n, _what, _r in (
        ('C02-mut01', 'canon-replace-lf', 'C02.1'), ('C02-mut02', 'trailer-length-variable-width', 'C02.1'), ('C02-mut03', 'fingerprint-subpacket-after-hash2', 'C02.2'),
        ('C02-mut04', 'eddsa-sig-mpi-width', 'C02.4'), ('C02-mut05', 'uid-hashdata-reencoded', 'C02.1b'), ('C02-mut06', 'canonical-bytes-length-early', 'C02.5'),
        ('C02-mut07', 'sigtype-ids-transposed', 'C02.1'), ('C02-mut08', 'revocable-hashed-by-value', 'C02.3'), ('C02-mut09', 'area-count-from-header-length', 'C02.5'),
        ('C02-mut10', 'notation-value-length-in-characters', 'C02.6'), ('C02-mut11', 'key-hashdata-secret-header-length', 'C02.1b'),
        ('C02-mut12', 'revoker-class-octet-without-0x80', 'C02.3'),
        ('C05-mut01', 'capture-stored-before-hashed-loop', 'C05.1'), ('C05-mut02', 'reset-hoisted-out-of-hashed-branch', 'C05.3'),
        ('C05-mut03', 'replay-alias-extended-in-place', 'C05.2'), ('C05-mut04', 'copy-refiles-hashed-after-capture', 'C05.3'),
        ('C05-mut05', 'sigv4-copy-inlines-dict-copies', 'C05.3'), ('C05-mut06', 'unknown-halg-stored-as-invalid', 'C05.5'),
        ('C05-mut07', 'rsa-ids-normalised', 'C05.5'), ('C05-mut08', 'trailer-length-from-parsed-subpackets', 'C05.4'),
        ('C05-mut09', 'canonical-bytes-fresh-subpackets', 'C05.4'), ('C05-mut10', 'capture-kept-only-if-length-differs', 'C05.1'),
        ('C05-mut11', 'update-hlen-drops-capture', 'C05.3')):      # C05-mut12 (sigtype & 0x7f) is the corpus entry 'sigtype-masked'
    _MD(_n[:3], 'stress-G2-%s-%s' % (_n, _what), 'G2-%s.diff' % _n, _r)


# =============================================================================================== C02 / C05: load path, caches, cooperating sites, degenerate slices
_SPP = "        self.subpackets.parse(packet)\n\n        self.hash2 = packet[:2]\n"
M('C05', 'load-synthesises-hashed-issuer', PK, _SPP, "        self.subpackets.parse(packet)\n\n        if 'Issuer' not in self.subpackets:\n            hfprs = [sp for sp in self.subpackets['h_IssuerFingerprint'] if sp.version == 4]\n            fprs = [sp for sp in self.subpackets['IssuerFingerprint'] if sp.version == 4]\n            if fprs:\n                self.subpackets.addnew('Issuer', hashed=bool(hfprs), _issuer=str((hfprs or fprs)[-1].issuer_fingerprint.keyid))\n\n        self.hash2 = packet[:2]\n", 'C05.1')
M('C05', 'load-helper-refiles-first-hashed', PK, _SPP, "        self.subpackets.parse(packet)\n        self._dedupe_creation_time()\n\n        self.hash2 = packet[:2]\n", 'C05.1',
  more=[(PK, "    def update_hlen(self):\n        self.subpackets.update_hlen()\n        super(SignatureV4, self).update_hlen()", "    def _dedupe_creation_time(self):\n        times = self.subpackets['h_CreationTime']\n        if len(times) > 1:\n            self.subpackets['h_CreationTime'] = times[-1]\n\n    def update_hlen(self):\n        self.subpackets.update_hlen()\n        super(SignatureV4, self).update_hlen()")])
M('C05', 'load-composition-adds-features', PGP, "        if isinstance(other, Signature):\n            if self._signature is None:\n                self._signature = other\n                return self\n",
  "        if isinstance(other, Signature):\n            if self._signature is None:\n                self._signature = other\n                if not other.subpackets['h_Features']:\n                    other.subpackets.addnew('Features', hashed=True, flags=Features.pgpy_features)\n                return self\n", 'C05.1')
M('C05', 'load-drops-capture-for-v4-only', PK, _SPP, "        self.subpackets.parse(packet)\n        if self.header.version != 4:\n            self.subpackets._hashed_raw = None\n\n        self.hash2 = packet[:2]\n", 'C05.1')
M('C05', 'load-normalises-deprecated-rsa-id', PK, "        self.pubalg = packet[0]\n        del packet[0]\n\n        self.halg = packet[0]\n        del packet[0]\n", "        self.pubalg = packet[0]\n        del packet[0]\n        if self.pubalg == PubKeyAlgorithm.RSASign:\n            self.pubalg = PubKeyAlgorithm.RSAEncryptOrSign\n\n        self.halg = packet[0]\n        del packet[0]\n", 'C05.5')
T('C05', 'twin-load-subpackets-alias-and-unhashed-literal-read', PK, _SPP, "        area = self.subpackets\n        area.parse(packet)\n        _issuers = area['Issuer']\n\n        self.hash2 = packet[:2]\n")
_REPLAY = "        if self._hashed_raw is not None:\n            # signatures are computed over the octets that were received, not over a re-encoding of them\n            return bytearray(self._hashed_raw)\n\n        _bytes = bytearray()\n        _bytes += self.int_to_bytes(sum(len(sp) for sp in self._hashed_sp.values()), 2)"
M('C05', 'replay-cache-survives-reparse', FL, _REPLAY, "        if getattr(self, '_hashed_cache', None) is not None:\n            return bytearray(self._hashed_cache)\n        if self._hashed_raw is not None:\n            self._hashed_cache = bytearray(self._hashed_raw)\n            return bytearray(self._hashed_raw)\n\n        _bytes = bytearray()\n        _bytes += self.int_to_bytes(sum(len(sp) for sp in self._hashed_sp.values()), 2)", 'C05.2')
M('C05', 'replay-cache-attribute-first', FL, _REPLAY, "        if self._hashed_cache is not None:\n            return bytearray(self._hashed_cache)\n        if self._hashed_raw is not None:\n            self._hashed_cache = self._hashed_raw\n            return bytearray(self._hashed_raw)\n\n        _bytes = bytearray()\n        _bytes += self.int_to_bytes(sum(len(sp) for sp in self._hashed_sp.values()), 2)", 'C05.2',
  more=[(FL, "        self._hashed_raw = None\n\n    def __bytearray__(self):", "        self._hashed_raw = None\n        self._hashed_cache = None\n\n    def __bytearray__(self):")])
M('C05', 'replay-dirty-flag-two-sites', FL, "        if self._hashed_raw is not None:\n            # signatures", "        if self._hashed_raw is not None and not getattr(self, '_lengths_dirty', False):\n            # signatures", 'C05.2',
  more=[(FL, "    def update_hlen(self):\n        for sp in self:\n            sp.update_hlen()\n\n    def parse(self, packet):\n        hl =", "    def update_hlen(self):\n        for sp in self:\n            sp.update_hlen()\n        self._lengths_dirty = True\n\n    def parse(self, packet):\n        hl =")])
M('C05', 'trailer-length-from-parsed-subpackets', PGP, "        hlen = len(hcontext)\n", "        hlen = 4 + 2 + sum(len(sp) for sp in self._signature.subpackets._hashed_sp.values())\n", 'C05.4')
M('C02', 'trailer-length-from-parsed-subpackets', PGP, "        hlen = len(hcontext)\n", "        hlen = 4 + 2 + sum(len(sp) for sp in self._signature.subpackets._hashed_sp.values())\n", 'C02.1')
M('C05', 'capture-all-but-tail-degenerates', FL, "        hashed_raw = packet[:2 + hl]", "        hashed_raw = packet[:-(len(packet) - 2 - hl)]", 'C05.1')
M('C05', 'replay-negative-slice-degenerates', FL, "            return bytearray(self._hashed_raw)\n", "            return bytearray(self._hashed_raw[-(len(self._hashed_raw) - 0):] if False else self._hashed_raw[:2] + self._hashed_raw[-(len(self._hashed_raw) - 2):])\n", 'C05.2')
M('C02', 'rsa-sig-negative-slice-degenerates', FL, "        return self.md_mod_n.to_mpibytes()[2:]", "        mpi = self.md_mod_n.to_mpibytes()\n        return mpi[-(len(mpi) - 2):]", 'C02.4')
M('C02', 'hash2-negative-slice-degenerates', PGP, "        sig._signature.hash2 = bytearray(h2.digest()[:2])", "        digest = h2.digest()\n        sig._signature.hash2 = bytearray(digest[:-(len(digest) - 2)])", 'C02.2')
M('C02', 'key-hashdata-negative-slice-degenerates', PGP, "        return self._uid.__bytearray__()[len(self._uid.header):]", "        body = self._uid.__bytearray__()\n        return body[-(len(body) - len(self._uid.header)):]", 'C02.1b')
T('C05', 'twin-parse-split-into-two-helpers', FL, "    def parse(self, packet):\n        hl = self.bytes_to_int(packet[:2])\n        hashed_raw = packet[:2 + hl]", "    def parse(self, packet):\n        self._parse_hashed(packet)\n        self._parse_unhashed(packet)\n\n    def _parse_hashed(self, packet):\n        hl = self.bytes_to_int(packet[:2])\n        hashed_raw = packet[:2 + hl]",
  more=[(FL, "        self._hashed_raw = hashed_raw\n\n        uhl = self.bytes_to_int(packet[:2])", "        self._hashed_raw = hashed_raw\n\n    def _parse_unhashed(self, packet):\n        uhl = self.bytes_to_int(packet[:2])")])

# =============================================================================================== C18.10 (wave-3 seeded shapes) and further kinds
T('C18', 'twin-ecpoint-width-negated-floor', FL, "        ct.bytelen = (bitlen + 7) // 8", "        ct.bytelen = -(-bitlen // 8)")
T('C18', 'twin-mpi-width-shift', TYP, "        return ((self.bit_length() + 7) // 8)", "        nbits = self.bit_length()\n        return (nbits + 7) >> 3")
T('C18', 'twin-ecpoint-writer-temporaries', FL, "            b += MPIs.int_to_bytes(self.x, self.bytelen)\n            b += MPIs.int_to_bytes(self.y, self.bytelen)", "            width = self.bytelen\n            for coordinate in (self.x, self.y):\n                b += MPIs.int_to_bytes(coordinate, width)")
T('C18', 'twin-own-point-curve-temp-keyword', FL, "        self.p = ECPoint.from_values(self.oid.key_size, ECPointFormat.Standard, MPI(pubn.x), MPI(pubn.y))", "        curve = self.oid\n        point = ECPoint.from_values(bitlen=curve.key_size, pform=ECPointFormat.Standard, x=MPI(pubn.x), y=MPI(pubn.y))\n        self.p = point")
M('C18', 'ecpoint-width-floor', FL, "        ct.bytelen = (bitlen + 7) // 8", "        ct.bytelen = bitlen // 8", 'C18.10')
M('C18', 'ecpoint-width-floor-plus-one', FL, "        ct.bytelen = (bitlen + 7) // 8", "        ct.bytelen = bitlen // 8 + 1", 'C18.10')
M('C18', 'mpi-width-floor-plus-one', TYP, "        return ((self.bit_length() + 7) // 8)", "        return (self.bit_length() // 8) + 1", 'C18.10')
M('C18', 'ecpoint-length-off-by-one', FL, "            return 2 * self.bytelen + 3", "            return 2 * self.bytelen + 2", 'C18.10')
M('C18', 'ecpoint-native-length-off-by-one', FL, "            return len(self.x) + 3", "            return len(self.x) + 2", 'C18.10')
M('C18', 'ecpoint-writer-minimal-width', FL, "            b += MPIs.int_to_bytes(self.x, self.bytelen)\n", "            b += MPIs.int_to_bytes(self.x)\n", 'C18.10')
M('C18', 'ecpoint-reader-splits-unevenly', FL, "            self.x = MPI(MPIs.bytes_to_int(xy[:self.bytelen]))\n            self.y = MPI(MPIs.bytes_to_int(xy[self.bytelen:]))", "            self.x = MPI(MPIs.bytes_to_int(xy[:self.bytelen - 1]))\n            self.y = MPI(MPIs.bytes_to_int(xy[self.bytelen - 1:]))", 'C18.10')
M('C18', 'own-point-width-of-p256', FL, "        self.p = ECPoint.from_values(self.oid.key_size, ECPointFormat.Standard, MPI(pubn.x), MPI(pubn.y))", "        self.p = ECPoint.from_values(EllipticCurveOID.NIST_P256.key_size, ECPointFormat.Standard, MPI(pubn.x), MPI(pubn.y))", 'C18.10')
M('C18', 'own-point-width-from-coordinate', FL, "        self.p = ECPoint.from_values(self.oid.key_size, ECPointFormat.Standard, MPI(pubn.x), MPI(pubn.y))", "        self.p = ECPoint.from_values(pubn.x.bit_length(), ECPointFormat.Standard, MPI(pubn.x), MPI(pubn.y))", 'C18.10')
M('C18', 'packet-copy-created-relabelled-utc', PK, "        pk.created = self.created\n        pk.pkalg = self.pkalg\n        pk.keymaterial = copy.copy(self.keymaterial)", "        pk.created = self.created.replace(tzinfo=timezone.utc)\n        pk.pkalg = self.pkalg\n        pk.keymaterial = copy.copy(self.keymaterial)", 'C18.8')
M('C18', 'revoke-issuer-id-of-target-owner', PGP, "            raise TypeError\n\n        sig = PGPSignature.new(sig_type, self.key_algorithm, hash_algo, self.fingerprint.keyid, created=prefs.pop('created', None))",
  "            raise TypeError\n\n        owner = self\n        if isinstance(target, PGPKey):\n            owner = target if target.is_primary else target.parent\n\n        sig = PGPSignature.new(sig_type, self.key_algorithm, hash_algo, owner.fingerprint.keyid, created=prefs.pop('created', None))", 'C18.7')
M('C18', 'certify-issuer-algorithm-of-subject', PGP, "        sig = PGPSignature.new(sig_type, self.key_algorithm, hash_algo, self.fingerprint.keyid, created=prefs.pop('created', None))\n\n        # signature options that only make sense in certifications",
  "        signer_alg = subject.key_algorithm if isinstance(subject, PGPKey) else self.key_algorithm\n        sig = PGPSignature.new(sig_type, signer_alg, hash_algo, self.fingerprint.keyid, created=prefs.pop('created', None))\n\n        # signature options that only make sense in certifications", 'C18.7')
# ---- third held-out wave (C14-w3mut1, C20-w3mut1/2/3) and further kinds
RESORT = "            self._signatures.insort(other)\n            if self.parent is not None and self in self.parent._uids:\n                self.parent._uids.resort(self)\n"
M('C14', 'resort-only-for-certifications', PGP, RESORT, "            self._signatures.insort(other)\n            if self.parent is not None and other.signer == self.parent.fingerprint.keyid \\\n                    and other.type in {SignatureType.Generic_Cert, SignatureType.Persona_Cert, SignatureType.Casual_Cert, SignatureType.Positive_Cert} \\\n                    and self in self.parent._uids:\n                self.parent._uids.resort(self)\n", 'C14.5')
M('C14', 'resort-skipped-for-revocations', PGP, RESORT, "            self._signatures.insort(other)\n            if self.parent is not None and self in self.parent._uids and other.type != SignatureType.CertRevocation:\n                self.parent._uids.resort(self)\n", 'C14.5')
M('C14', 'resort-only-when-newer', PGP, RESORT, "            newest = self.selfsig\n            self._signatures.insort(other)\n            if self.parent is not None and self in self.parent._uids and (newest is None or other.created > newest.created):\n                self.parent._uids.resort(self)\n", 'C14.5')
M('C14', 'resort-dropped', PGP, RESORT, "            self._signatures.insort(other)\n", 'C14.5')
M('C14', 'resort-before-insert', PGP, RESORT, "            if self.parent is not None and self in self.parent._uids:\n                self.parent._uids.resort(self)\n            self._signatures.insort(other)\n", 'C14.5')
M('C14', 'resort-only-primary-uid', PGP, RESORT, "            self._signatures.insort(other)\n            if self.parent is not None and self in self.parent._uids and other.signer == self.parent.fingerprint.keyid and 'PrimaryUserID' in other._signature.subpackets:\n                self.parent._uids.resort(self)\n", 'C14.5')
T('C14', 'twin-resort-guard-clauses', PGP, RESORT, "            self._signatures.insort(other)\n            key = self.parent\n            if key is None:\n                return self\n            if self in key._uids:\n                key._uids.resort(self)\n")
T('C14', 'twin-resort-own-key-only', PGP, RESORT, "            self._signatures.insort(other)\n            if self.parent is not None and self in self.parent._uids:\n                if other.signer_fingerprint == self.parent.fingerprint or other.signer == self.parent.fingerprint.keyid:\n                    self.parent._uids.resort(self)\n                else:\n                    self.parent._uids.resort(self)\n")
DEC_ZIP = "            return zlib.decompress(data, -15)"
M('C20', 'decompress-capped-silently', CO, DEC_ZIP, "            return zlib.decompressobj(-15).decompress(data, 1 << 24)", 'C20.5')
M('C20', 'decompress-result-sliced', CO, DEC_ZIP, "            return zlib.decompress(data, -15)[:1 << 24]", 'C20.5')
M('C20', 'bz2-decompress-capped-silently', CO, "            return bz2.decompress(data)", "            return bz2.BZ2Decompressor().decompress(data, 16777216)", 'C20.5')
M('C20', 'decompressobj-small-window', CO, DEC_ZIP, "            return zlib.decompressobj(-12).decompress(data)", 'C20.5')
M('C20', 'zlib-decompressobj-capped', CO, "        if self is CompressionAlgorithm.ZLIB:\n            return zlib.decompress(data)\n", "        if self is CompressionAlgorithm.ZLIB:\n            d = zlib.decompressobj()\n            out = d.decompress(data, 1 << 26)\n            return out\n", 'C20.5')
T('C20', 'twin-decompressobj-unbounded', CO, DEC_ZIP, "            return zlib.decompressobj(-15).decompress(data)")
T('C20', 'twin-decompressobj-cap-checked', CO, DEC_ZIP, "            d = zlib.decompressobj(-15)\n            out = d.decompress(data, 1 << 30)\n            if d.unconsumed_tail:\n                raise ValueError('compressed data expands beyond the supported size')\n            return out")
M('C20', 'onepass-halg-constant', PGP, "        onepass.halg = self.hash_algorithm\n", "        onepass.halg = HashAlgorithm.SHA256\n", 'C20.3')
M('C20', 'onepass-pubalg-constant', PGP, "        onepass.pubalg = self.key_algorithm\n", "        onepass.pubalg = PubKeyAlgorithm.RSAEncryptOrSign\n", 'C20.3')
M('C20', 'onepass-signer-from-parent', PGP, "        onepass.signer = self.signer\n        onepass.update_hlen()", "        onepass.signer = self.parent.fingerprint.keyid if self.parent is not None else self.signer\n        onepass.update_hlen()", 'C20.3')
M('C20', 'ops-writer-type-constant', PK, "        _bytes += bytearray([self.sigtype])\n        _bytes += bytearray([self.halg])", "        _bytes += bytearray([0])\n        _bytes += bytearray([self.halg])", 'C20.6')
M('C20', 'continuation-two-octet-offset-dropped', TY, "                    dlen = self.bytes_to_int(b[offset:offset + 2])\n                    return (((dlen - (192 << 8)) & 0xFF00) + ((dlen & 0xFF) + 192), 2, False)",
  "                    return (((fo - 192) << 8) + a[1] + 192, 2, False)", 'C20.7')
M('C20', 'continuation-five-octet-offset-dropped', TY, "                    return (self.bytes_to_int(b[offset + 1:offset + 5]), 5, False)", "                    return (self.bytes_to_int(b[1:5]), 5, False)", 'C20.7')
M('C20', 'continuation-one-octet-offset-dropped', TY, "                    return (self.bytes_to_int(a[offset:offset + 1]), 1, False)", "                    return (self.bytes_to_int(a[:1]), 1, False)", 'C20.7')
M('C20', 'continuation-field-left-in-body', TY, "                    part_len, size, partial = _parse_len(b, total)\n                    del b[total:total + size]\n", "                    part_len, size, partial = _parse_len(b, total)\n                    del b[total:total + 1]\n", 'C20.7')
M('C20', 'partial-chunk-size-mask', TY, "                    return (1 << (fo & 0x1f), 1, True)", "                    return (1 << (fo & 0x0f), 1, True)", 'C20.7')
M('C20', 'two-octet-length-threshold', TY, "                elif 224 > fo:  # >= 192 is implied\n                    dlen", "                elif 223 > fo:  # >= 192 is implied\n                    dlen", 'C20.7')

# =============================================================================================== C02: copies, caller aliasing, cleartext canonicalisation (third wave)
_SD = "            return re.subn(r'[ \\t]+(?=\\r?$)', '', self.message, flags=re.MULTILINE)[0]"
M('C02', 'copy-hash2-from-new-object', PK, "        spkt.hash2 = copy.copy(self.hash2)\n", "        spkt.hash2 = copy.copy(spkt.hash2)\n", 'C02.5')
M('C02', 'copy-signature-from-new-object', PK, "        spkt.signature = copy.copy(self.signature)\n", "        spkt.signature = copy.copy(spkt.signature)\n", 'C02.5')
M('C02', 'copy-halg-defaulted', PK, "        spkt._pubalg = self._pubalg\n        spkt._halg = self._halg\n", "        spkt._pubalg = self._pubalg\n", 'C02.5')
M('C02', 'copy-hash2-defaulted', PK, "        spkt.hash2 = copy.copy(self.hash2)\n", "", 'C02.5')
M('C02', 'copy-sigtype-from-pubalg', PK, "        spkt._sigtype = self._sigtype\n", "        spkt._sigtype = self._pubalg\n", 'C02.5')
M('C02', 'copy-header-fresh', PK, "        spkt = SignatureV4()\n        spkt.header = copy.copy(self.header)\n", "        spkt = SignatureV4()\n        spkt.header = copy.copy(spkt.header)\n", 'C02.5')
T('C02', 'twin-copy-renamed-and-slice-copy', PK, "        spkt.hash2 = copy.copy(self.hash2)\n", "        left16 = self.hash2\n        spkt.hash2 = left16[:]\n")
M('C02', 'flaglist-setter-aliases-caller-list', SS, "    def flags_list(self, val):\n        self._flags = list(val)", "    def flags_list(self, val):\n        self._flags = val", 'C02.2')
M('C02', 'flaglist-setter-aliases-on-fast-path', SS, "    def flags_list(self, val):\n        self._flags = list(val)", "    def flags_list(self, val):\n        if self.__flags__ is not None and not all(isinstance(v, self.__flags__) for v in val):\n            val = [self.__flags__(v) for v in val]\n        self._flags = val", 'C02.2')
M('C02', 'flaglist-setter-aliases-lists-only', SS, "    def flags_list(self, val):\n        self._flags = list(val)", "    def flags_list(self, val):\n        self._flags = val if isinstance(val, list) else list(val)", 'C02.2')
M('C02', 'byteflag-setter-aliases-caller-set', SS, "    def flags_seq(self, val):\n        self._flags = set(val)", "    def flags_seq(self, val):\n        self._flags = val if isinstance(val, set) else set(val)", 'C02.2')
T('C02', 'twin-flaglist-setter-comprehension-copy', SS, "    def flags_list(self, val):\n        self._flags = list(val)", "    def flags_list(self, val):\n        members = [v for v in val]\n        self._flags = members")
T('C02', 'twin-flaglist-setter-slice-copy', SS, "    def flags_list(self, val):\n        self._flags = list(val)", "    def flags_list(self, val):\n        self._flags = list(val)[:]")
M('C02', 'signed-view-anchored-on-newline', PGP, _SD, "            return re.subn(r'[ \\t]+(?=\\r?\\n)', '', self.message)[0]", 'C02.7')
M('C02', 'signed-view-blank-before-newline-consumed', PGP, _SD, "            return re.subn(r'[ \\t]+\\n', '\\n', self.message)[0]", 'C02.7')
M('C02', 'signed-view-end-of-text-only', PGP, _SD, "            return re.subn(r'[ \\t]+(?=\\r?$)', '', self.message)[0]", 'C02.7')
M('C02', 'signed-view-spaces-only', PGP, _SD, "            return re.subn(r' +(?=\\r?$)', '', self.message, flags=re.MULTILINE)[0]", 'C02.7')
M('C02', 'sign-cleartext-over-raw-message', PGP, "            subject = subject._signed_data\n\n        sig = PGPSignature.new(sig_type", "            subject = subject.message\n\n        sig = PGPSignature.new(sig_type", 'C02.7')
T('C02', 'twin-signed-view-compiled-flags-inline', PGP, _SD, "            return re.sub(r'(?m)[ \\t]+(?=\\r?$)', '', self.message)")
# C05: the same kinds (a field taken from the new object / defaulted on copy, aliasing of the received buffer)
M('C05', 'copy-capture-from-new-object', FL, "        sp._hashed_raw = copy.copy(self._hashed_raw)\n", "        sp._hashed_raw = copy.copy(sp._hashed_raw)\n", 'C05.3')
M('C05', 'copy-capture-only-when-unhashed-present', FL, "        sp._hashed_raw = copy.copy(self._hashed_raw)\n", "        if self._unhashed_sp:\n            sp._hashed_raw = copy.copy(self._hashed_raw)\n", 'C05.3')
M('C05', 'sigv4-copy-subpackets-from-new-object', PK, "        spkt.subpackets = copy.copy(self.subpackets)\n", "        spkt.subpackets = copy.copy(spkt.subpackets)\n", 'C05.3')
M('C05', 'sigv4-copy-subpackets-defaulted', PK, "        spkt.subpackets = copy.copy(self.subpackets)\n", "", 'C05.3')
M('C05', 'pgpsig-copy-packet-fresh', PGP, "        sig |= copy.copy(self._signature)\n        return sig", "        sig |= copy.copy(sig._signature) if sig._signature is not None else self._signature\n        return sig", 'C05.3')
M('C05', 'capture-is-view-of-consumed-buffer', FL, "        hashed_raw = packet[:2 + hl]\n        del packet[:2]", "        hashed_raw = packet\n        del packet[:2]", 'C05.1')
M('C05', 'replay-aliases-then-copies-on-second-call', FL, "            return bytearray(self._hashed_raw)\n", "            raw, self._hashed_raw = self._hashed_raw, bytearray(self._hashed_raw)\n            return raw\n", 'C05.2')
# caller aliasing at full strength: binary notation values (the pre-fix form of repo commit 2e22ec2) and other mutable buffers
M('C02', 'notation-binary-value-aliases-caller-bytearray', SS, "        else:  # pragma: no cover\n            self._value = bytearray(val)\n", "        else:  # pragma: no cover\n            self._value = val\n", 'C02.2')
M('C02', 'notation-binary-value-aliases-unless-bytes', SS, "        else:  # pragma: no cover\n            self._value = bytearray(val)\n", "        else:  # pragma: no cover\n            self._value = val if isinstance(val, bytearray) else bytearray(val)\n", 'C02.2')
T('C02', 'twin-notation-binary-value-slice-copy', SS, "        else:  # pragma: no cover\n            self._value = bytearray(val)\n", "        else:  # pragma: no cover\n            own = val[:]\n            self._value = own\n")
T('C02', 'twin-notation-binary-value-copy-module', SS, "        else:  # pragma: no cover\n            self._value = bytearray(val)\n", "        else:  # pragma: no cover\n            self._value = bytearray(bytes(val))\n")

# ---- wave-3 twins (C05-ref10, C14-ref9, C14-ref10)
BFLAG = "    def bflag_bytearray(self, val):\n        self.bflag = bool(self.bytes_to_int(val))"
T('C14', 'twin-boolean-any-octet', SS, BFLAG, "    def bflag_bytearray(self, val):\n        self.bflag = any(val)")
T('C14', 'twin-boolean-int-from-bytes', SS, BFLAG, "    def bflag_bytearray(self, val):\n        self.bflag = int.from_bytes(val, 'big') != 0")
M('C14', 'boolean-any-after-first-octet', SS, BFLAG, "    def bflag_bytearray(self, val):\n        self.bflag = any(val[1:])", 'C14.2')
M('C14', 'boolean-equals-one', SS, BFLAG, "    def bflag_bytearray(self, val):\n        self.bflag = self.bytes_to_int(val) == 1", 'C14.2')
M('C14', 'boolean-low-bit-only', SS, BFLAG, "    def bflag_bytearray(self, val):\n        self.bflag = bool(val[-1] & 1)", 'C14.2')
T('C14', 'twin-exportable-single-lookup', PGP, EXPORTABLE,
  "        marks = self._signature.subpackets['ExportableCertification']\n        if not marks:\n            return True\n\n        return bool(marks[0])\n")
M('C14', 'exportable-last-subpacket-decides', PGP, EXPORTABLE,
  "        marks = self._signature.subpackets['ExportableCertification']\n        if not marks:\n            return True\n\n        return bool(marks[-1])\n", 'C14.2')
M('C14', 'exportable-single-lookup-default-false', PGP, EXPORTABLE,
  "        marks = self._signature.subpackets['ExportableCertification']\n        if not marks:\n            return False\n\n        return bool(marks[0])\n", 'C14.2')
M('C14', 'exportable-hashed-area-only', PGP, EXPORTABLE,
  "        marks = self._signature.subpackets['h_ExportableCertification']\n        if not marks:\n            return True\n\n        return bool(marks[0])\n", 'C14.2')
KEYCOPY_ALL = "        for uid in self._uids:\n            key |= copy.copy(uid)\n\n        for id, subkey in self._children.items():\n            key |= copy.copy(subkey)\n\n" + KEYCOPY_SIGS
T('C14', 'twin-copy-one-chained-loop', PGP, KEYCOPY_ALL,
  "        own_sigs = (sig for sig in self._signatures if not sig.embedded)\n\n        for component in itertools.chain(self._uids, self._children.values(), own_sigs):\n            key |= copy.copy(component)\n")
M('C14', 'copy-chain-omits-subkeys', PGP, KEYCOPY_ALL,
  "        own_sigs = (sig for sig in self._signatures if not sig.embedded)\n\n        for component in itertools.chain(self._uids, own_sigs):\n            key |= copy.copy(component)\n", 'C14.4')
M('C14', 'copy-chain-filters-revocations', PGP, KEYCOPY_ALL,
  "        own_sigs = (sig for sig in self._signatures if not sig.embedded and sig.type != SignatureType.KeyRevocation)\n\n        for component in itertools.chain(self._uids, self._children.values(), own_sigs):\n            key |= copy.copy(component)\n", 'C14.4')
M('C14', 'copy-chain-filters-uids', PGP, KEYCOPY_ALL,
  "        own_sigs = (sig for sig in self._signatures if not sig.embedded)\n        ids = (u for u in self._uids if u.is_uid)\n\n        for component in itertools.chain(ids, self._children.values(), own_sigs):\n            key |= copy.copy(component)\n", 'C14.4')
# trailer length: any integer-linear spelling of the length of the covered run (held-out twin C05-ref9); one item left out / counted twice is not
_TRL = ("        hcontext = bytearray()\n        hcontext.append(self._signature.header.version if not self.embedded else self._signature._sig.header.version)\n        hcontext.append(self.type)\n        hcontext.append(self.key_algorithm)\n        hcontext.append(self.hash_algorithm)\n"
        "        hcontext += self._signature.subpackets.__hashbytearray__()\n        hlen = len(hcontext)\n        _data += hcontext\n        _data += b'\\x04\\xff'\n        _data += self.int_to_bytes(hlen, 4)\n")
_TRL_NEW = ("        sigpkt = self._signature._sig if self.embedded else self._signature\n        fixed = bytearray((sigpkt.header.version, self.type, self.key_algorithm, self.hash_algorithm))\n        hashed = self._signature.subpackets.__hashbytearray__()\n"
            "        _data += fixed\n        _data += hashed\n        _data += b'\\x04\\xff' + self.int_to_bytes(%s, 4)\n")
for _p in ('C01', 'C02', 'C05', 'C11'):
    T(_p, 'twin-trailer-length-sum-of-subruns', PGP, _TRL, _TRL_NEW % 'len(hashed) + len(fixed)')
    T(_p, 'twin-trailer-length-fixed-first-plus-constant-split', PGP, _TRL, _TRL_NEW % '2 + len(hashed) + 2')
for _p, _r in (('C02', 'C02.1'), ('C05', 'C05.4')):
    M(_p, 'trailer-length-sum-leaves-one-octet-out', PGP, _TRL, _TRL_NEW % 'len(hashed) + len(fixed[:3])', _r)
    M(_p, 'trailer-length-sum-counts-fixed-twice', PGP, _TRL, _TRL_NEW % 'len(fixed) + len(hashed) + len(fixed)', _r)
    M(_p, 'trailer-length-sum-omits-hashed-area', PGP, _TRL, _TRL_NEW % 'len(fixed) + 2', _r)

# ---- new attributes in __init__ are classified by analysis (no frozen table, no exit 2)
SIGINIT = "        super(PGPSignature, self).__init__()\n        self._signature = None\n\n    def __bytearray__(self):\n        return self._signature.__bytearray__()\n"
KEYINIT = "        self._self_verified = None\n        self._require_usage_flags = True\n\n    def __bytearray__(self):\n        _bytes = bytearray()\n"
SIGCOPY = "        sig |= copy.copy(self._signature)\n        return sig"
T('C14', 'twin-init-cache-attribute', PGP, SIGINIT,
  "        super(PGPSignature, self).__init__()\n        self._signature = None\n        self._bytes_memo = None\n\n    def __bytearray__(self):\n        if self._bytes_memo is None:\n            self._bytes_memo = self._signature.__bytearray__()\n        return bytearray(self._bytes_memo)\n")
T('C14', 'twin-init-logger-attribute', PGP, KEYINIT,
  "        self._self_verified = None\n        self._require_usage_flags = True\n        self._log = warnings\n        self._export_count = 0\n\n    def __bytearray__(self):\n        _bytes = bytearray()\n")
T('C14', 'twin-init-onepass-cache', PGP, SIGINIT, "        super(PGPSignature, self).__init__()\n        self._signature = None\n        self._onepass = None\n\n    def __bytearray__(self):\n        return self._signature.__bytearray__()\n")
T('C14', 'twin-init-state-attribute-carried', PGP, SIGINIT,
  "        super(PGPSignature, self).__init__()\n        self._signature = None\n        self._trailer = b''\n\n    def set_trailer(self, octets):\n        self._trailer = bytes(octets)\n\n    def __bytearray__(self):\n        return self._signature.__bytearray__() + self._trailer\n",
  more=[(PGP, SIGCOPY, "        sig |= copy.copy(self._signature)\n        sig._trailer = self._trailer\n        return sig")])
M('C14', 'init-state-attribute-not-copied', PGP, SIGINIT,
  "        super(PGPSignature, self).__init__()\n        self._signature = None\n        self._trailer = b''\n\n    def set_trailer(self, octets):\n        self._trailer = bytes(octets)\n\n    def __bytearray__(self):\n        return self._signature.__bytearray__() + self._trailer\n", 'C14.4')
M('C14', 'key-init-state-attribute-not-copied', PGP, KEYINIT,
  "        self._self_verified = None\n        self._require_usage_flags = True\n        self._extra_packets = []\n\n    def add_packet(self, pkt):\n        self._extra_packets = self._extra_packets + [pkt]\n\n    def __bytearray__(self):\n        _bytes = bytearray()\n",
  'C14.4', more=[(PGP, "        # subkeys\n        for sk in self._children.values():\n            _bytes += sk.__bytearray__()\n\n        return _bytes", "        # subkeys\n        for sk in self._children.values():\n            _bytes += sk.__bytearray__()\n        for pkt in self._extra_packets:\n            _bytes += pkt.__bytearray__()\n\n        return _bytes")])
M('C14', 'uid-init-rank-attribute-not-copied', PGP, "        super(PGPUID, self).__init__()\n        self._uid = None\n        self._signatures = SorteDeque()\n",
  "        super(PGPUID, self).__init__()\n        self._uid = None\n        self._signatures = SorteDeque()\n        self._pinned = False\n", 'C14.4',
  more=[(PGP, "    def __lt__(self, other):  # pragma: no cover\n        if self.is_uid == other.is_uid:", "    def pin(self, value=True):\n        self._pinned = bool(value)\n\n    def __lt__(self, other):  # pragma: no cover\n        if self._pinned != other._pinned:\n            return self._pinned\n        if self.is_uid == other.is_uid:")])

# ---- additive diagnostics around the Boolean decoder (C05-ref13)
T('C14', 'twin-boolean-logged-odd-octet', SS, BFLAG, "    def bflag_bytearray(self, val):\n        octet = self.bytes_to_int(val)\n        if octet > 1:\n            self._log.debug('%s: boolean octet 0x%02x is neither 0 nor 1; treating it as true', self.__class__.__name__, octet)\n        self.bflag = bool(octet)",
  more=[(SS, "class Boolean(Signature):\n", "class Boolean(Signature):\n    _log = logging.getLogger('pgpy.packet.subpackets')\n\n"), (SS, "import binascii\n", "import binascii\nimport logging\n")])
T('C14', 'twin-boolean-asserted-and-warned', SS, BFLAG, "    def bflag_bytearray(self, val):\n        assert len(val) >= 1\n        octet = self.bytes_to_int(val)\n        if octet not in (0, 1):\n            warnings.warn('boolean subpacket octet is neither 0 nor 1')\n        self.bflag = bool(octet)",
  more=[(SS, "import binascii\n", "import binascii\nimport warnings\n")])
M('C14', 'boolean-logged-odd-octet-treated-false', SS, BFLAG, "    def bflag_bytearray(self, val):\n        octet = self.bytes_to_int(val)\n        if octet > 1:\n            self._log.debug('boolean octet 0x%02x is neither 0 nor 1; ignoring it', octet)\n            octet = 0\n        self.bflag = bool(octet)",
  'C14.2', more=[(SS, "class Boolean(Signature):\n", "class Boolean(Signature):\n    _log = logging.getLogger('pgpy.packet.subpackets')\n\n"), (SS, "import binascii\n", "import binascii\nimport logging\n")])
# CANON(DOC) on a path that decided "no LF in DOC" is DOC itself (held-out twin C02-ref13); nothing weaker than that guard
_CAN = "            _data += re.subn(br'\\r?\\n', b'\\r\\n', subject)[0]\n"
_FAST = "            if %s:\n                _data += subject\n\n            else:\n                _data += re.subn(br'\\r?\\n', b'\\r\\n', subject)[0]\n"
for _p in ('C01', 'C02', 'C05', 'C11'):
    T(_p, 'twin-canon-fast-path-no-lf', PGP, _CAN, _FAST % "isinstance(subject, (bytes, bytearray)) and b'\\n' not in subject")
    T(_p, 'twin-canon-fast-path-lf-present-first', PGP, _CAN, "            if b'\\n' in subject:\n                _data += re.subn(br'\\r?\\n', b'\\r\\n', subject)[0]\n            else:\n                _data += subject\n")
for _p, _r in (('C01', 'C01.1'), ('C02', 'C02.1'), ('C11', 'C11.4')):
    M(_p, 'canon-fast-path-guard-cr-only', PGP, _CAN, _FAST % "isinstance(subject, (bytes, bytearray)) and b'\\r' not in subject", _r)
    M(_p, 'canon-fast-path-guard-length', PGP, _CAN, _FAST % "len(subject) < 64", _r)
    M(_p, 'canon-fast-path-guard-type-alone', PGP, _CAN, _FAST % "isinstance(subject, bytearray)", _r)
    M(_p, 'canon-fast-path-guard-lf-in-prefix-only', PGP, _CAN, _FAST % "b'\\n' not in subject[:64]", _r)
    M(_p, 'canon-fast-path-guard-inverted', PGP, _CAN, _FAST % "b'\\n' in subject", _r)
    M(_p, 'canon-fast-path-guard-or-type', PGP, _CAN, _FAST % "isinstance(subject, bytearray) or b'\\n' not in subject", _r)
# wave 5: body helper on Packet, class-level ASN.1 layout, area selection helper with identity test, header fields on the load path
PTY = 'pgpy/packet/types.py'
_UPD = "    def update_hlen(self):\n        self.header.length = len(self.__bytearray__()) - len(self.header)\n\n    @abc.abstractmethod"
_KHD = "        return pub.__bytearray__()[len(pub.header):]"
for _p in ('C01', 'C02'):
    T(_p, 'twin-key-hashdata-packet-body-helper', PGP, _KHD, "        return pub.__bodybytearray__()",
      more=[(PTY, _UPD, "    def __bodybytearray__(self):\n        return self.__bytearray__()[len(self.header):]\n\n" + _UPD)])
    M(_p, 'key-hashdata-packet-body-helper-keeps-header', PGP, _KHD, "        return pub.__bodybytearray__()", _p + '.1b',
      more=[(PTY, _UPD, "    def __bodybytearray__(self):\n        return self.__bytearray__()[len(self.header) - 1:]\n\n" + _UPD)])
_DSA = "        seq = Sequence(componentType=NamedTypes(*[NamedType(n, Integer()) for n in self.__mpis__]))\n"
T('C02', 'twin-dsa-sig-class-level-layout', FL, _DSA, "        seq = Sequence(componentType=self._der_components)\n",
  more=[(FL, "class DSASignature(Signature):\n    __mpis__ = ('r', 's')\n", "class DSASignature(Signature):\n    __mpis__ = ('r', 's')\n    _der_components = NamedTypes(*[NamedType(n, Integer()) for n in __mpis__])\n")])
M('C02', 'dsa-sig-class-level-layout-reversed', FL, _DSA, "        seq = Sequence(componentType=self._der_components)\n", 'C02.4',
  more=[(FL, "class DSASignature(Signature):\n    __mpis__ = ('r', 's')\n", "class DSASignature(Signature):\n    __mpis__ = ('r', 's')\n    _der_components = NamedTypes(*[NamedType(n, Integer()) for n in reversed(__mpis__)])\n")])
_SET = "        d = self._unhashed_sp\n        if key.startswith('h_'):\n            d, key = self._hashed_sp, key[2:]\n            self._hashed_raw = None\n"
_AREA = "        area, key = self._area_for(key)\n        if area is %s:\n            self._hashed_raw = None\n        d = area\n"
_AREA_HELPER = ("    def _area_for(self, key):\n        if key.startswith('h_'):\n            return self._hashed_sp, key[2:]\n        return self._unhashed_sp, key\n\n"
                "    def __getitem__(self, key):\n        if isinstance(key, tuple):  # pragma: no cover\n            return self._hashed_sp.get")
_GET = "    def __getitem__(self, key):\n        if isinstance(key, tuple):  # pragma: no cover\n            return self._hashed_sp.get"
T('C05', 'twin-setitem-area-helper-identity-test', FL, _SET, _AREA % 'self._hashed_sp', more=[(FL, _GET, _AREA_HELPER)])
M('C05', 'setitem-area-helper-identity-test-wrong-area', FL, _SET, _AREA % 'self._unhashed_sp', 'C05.3', more=[(FL, _GET, _AREA_HELPER)])
M('C05', 'setitem-area-helper-identity-test-negated', FL, _SET, _AREA % 'not self._hashed_sp', 'C05.3', more=[(FL, _GET, _AREA_HELPER)])
_LOADP = "            else:\n                self._signature = pkt\n        else:\n            raise ValueError('Expected: Signature. Got: {:s}'.format(pkt.__class__.__name__))"
M('C05', 'load-rewrites-timestamp-type', PGP, _LOADP, "            else:\n                self._signature = pkt\n                if pkt.sigtype == SignatureType.Timestamp and len(pkt.subpackets._hashed_sp) > 1:\n                    pkt.sigtype = SignatureType.Standalone\n        else:\n            raise ValueError('Expected: Signature. Got: {:s}'.format(pkt.__class__.__name__))", 'C05.1')
M('C05', 'load-upgrades-hash-algorithm-field', PGP, _LOADP, "            else:\n                self._signature = pkt\n                if self._signature.halg == HashAlgorithm.MD5:\n                    self._signature._halg = HashAlgorithm.SHA1\n        else:\n            raise ValueError('Expected: Signature. Got: {:s}'.format(pkt.__class__.__name__))", 'C05.1')
M('C05', 'load-composition-normalises-version', PGP, "        if isinstance(other, Signature):\n            if self._signature is None:\n                self._signature = other\n                return self\n",
  "        if isinstance(other, Signature):\n            if self._signature is None:\n                self._signature = other\n                other.header.version = 4\n                return self\n", 'C05.1')
M('C05', 'load-setattr-pubalg', PGP, _LOADP, "            else:\n                self._signature = pkt\n                if pkt.pubalg in (PubKeyAlgorithm.RSAEncrypt, PubKeyAlgorithm.RSASign):\n                    setattr(pkt, 'pubalg', PubKeyAlgorithm.RSAEncryptOrSign)\n        else:\n            raise ValueError('Expected: Signature. Got: {:s}'.format(pkt.__class__.__name__))", 'C05.1')
T('C05', 'twin-load-reads-header-fields-only', PGP, _LOADP, "            else:\n                sigtype, halg = pkt.sigtype, pkt.halg\n                self._signature = pkt\n        else:\n            raise ValueError('Expected: Signature. Got: {:s}'.format(pkt.__class__.__name__))")

# ---- wave 5: generator helpers, table-driven codecs, streaming compressors, text codec, widths
T('C14', 'twin-stream-generator-helper', PGP, "        def _getpkt(d):\n            return Packet(d) if d else None\n        # some packets are filtered out\n" + TRUST, "        getpkt = self._iter_packets(data, skip=(PacketTag.Trust,))\n",
  more=[(PGP, "    def parse(self, data):\n        unarmored = self.ascii_unarmor(data)\n        data = unarmored['body']\n\n        if unarmored['magic'] is not None and 'KEY' not in unarmored['magic']:",
         "    @staticmethod\n    def _iter_packets(data, skip=(PacketTag.Trust,)):\n        while data:\n            pkt = Packet(data)\n            if pkt.header.tag not in skip:\n                yield pkt\n\n"
         "    def parse(self, data):\n        unarmored = self.ascii_unarmor(data)\n        data = unarmored['body']\n\n        if unarmored['magic'] is not None and 'KEY' not in unarmored['magic']:")])
M('C14', 'stream-generator-skips-nothing', PGP, "        def _getpkt(d):\n            return Packet(d) if d else None\n        # some packets are filtered out\n" + TRUST, "        getpkt = self._iter_packets(data, skip=())\n", 'C14.3',
  more=[(PGP, "    def parse(self, data):\n        unarmored = self.ascii_unarmor(data)\n        data = unarmored['body']\n\n        if unarmored['magic'] is not None and 'KEY' not in unarmored['magic']:",
         "    @staticmethod\n    def _iter_packets(data, skip=(PacketTag.Trust,)):\n        while data:\n            pkt = Packet(data)\n            if pkt.header.tag not in skip:\n                yield pkt\n\n"
         "    def parse(self, data):\n        unarmored = self.ascii_unarmor(data)\n        data = unarmored['body']\n\n        if unarmored['magic'] is not None and 'KEY' not in unarmored['magic']:")])
M('C14', 'stream-generator-also-skips-attributes', PGP, "        def _getpkt(d):\n            return Packet(d) if d else None\n        # some packets are filtered out\n" + TRUST, "        getpkt = self._iter_packets(data, skip=(PacketTag.Trust, PacketTag.UserAttribute))\n", 'C14.3',
  more=[(PGP, "    def parse(self, data):\n        unarmored = self.ascii_unarmor(data)\n        data = unarmored['body']\n\n        if unarmored['magic'] is not None and 'KEY' not in unarmored['magic']:",
         "    @staticmethod\n    def _iter_packets(data, skip=(PacketTag.Trust,)):\n        while data:\n            pkt = Packet(data)\n            if pkt.header.tag not in skip:\n                yield pkt\n\n"
         "    def parse(self, data):\n        unarmored = self.ascii_unarmor(data)\n        data = unarmored['body']\n\n        if unarmored['magic'] is not None and 'KEY' not in unarmored['magic']:")])
GENEXPORT = ("        for component in self._export_sequence():\n            _bytes = component.__bytearray__() if False else _bytes\n")
EXPORT_GEN_NEW = ("        _bytes = bytearray()\n        for component in self._export_sequence():\n            _bytes += component.__bytearray__()\n\n        return _bytes\n\n"
                  "    def _export_sequence(self):\n        yield self._key\n        for sig in self._signatures:\n            if not sig.embedded and sig.exportable:\n                yield sig\n"
                  "        for uid in self._uids:\n            yield uid._uid\n            yield from [s for s in uid._signatures if s.exportable]\n        for subkey in self._children.values():\n            yield subkey\n")
T('C14', 'twin-export-generator-sequence', PGP, EXPORT, EXPORT_GEN_NEW)
M('C14', 'export-generator-uid-sigs-unfiltered', PGP, EXPORT, EXPORT_GEN_NEW.replace("yield from [s for s in uid._signatures if s.exportable]", "yield from uid._signatures"), 'C14.1')
M('C14', 'export-generator-subkeys-first', PGP, EXPORT, EXPORT_GEN_NEW.replace("        for subkey in self._children.values():\n            yield subkey\n", "").replace("        yield self._key\n", "        yield self._key\n        for subkey in self._children.values():\n            yield subkey\n"), 'C14.1')
M('C14', 'ecpoint-width-rounded-down', FL, "(bitlen + 7) // 8", "bitlen // 8", 'C14.7')
M('C20', 'literal-text-utf8-sig', PK, "        if self.format == 'u':\n            return self._contents.decode('utf-8')", "        if self.format == 'u':\n            return self._contents.decode('utf-8-sig')", 'C20.6')
M('C20', 'literal-text-t-as-utf8', PK, "        if self.format == 't':\n            return self._contents.decode('latin-1')", "        if self.format == 't':\n            return self._contents.decode('utf-8', 'replace')", 'C20.6')
T('C20', 'twin-literal-text-default-codec', PK, "        if self.format == 'u':\n            return self._contents.decode('utf-8')", "        if self.format == 'u':\n            return self._contents.decode()")
M('C20', 'encrypt-works-on-message-copy', PGP, "        if message.is_encrypted:  # pragma: no cover\n            _m = message\n", "        if message.is_encrypted:  # pragma: no cover\n            _m = copy.copy(message)\n", 'C20.8')
STREAM = ("        if self is CompressionAlgorithm.ZLIB:\n            return zlib.compress(data)\n\n        if self is CompressionAlgorithm.BZ2:\n            return bz2.compress(data)\n")
M('C20', 'zlib-streamed-tail-from-end', CO, STREAM, "        if self is CompressionAlgorithm.ZLIB:\n            comp = zlib.compressobj()\n            out = bytearray()\n            for i in range(len(data) // 65536):\n                out += comp.compress(data[i * 65536:(i + 1) * 65536])\n            out += comp.compress(data[-(len(data) % 65536):])\n            out += comp.flush()\n            return bytes(out)\n\n        if self is CompressionAlgorithm.BZ2:\n            return bz2.compress(data)\n", 'C20.5')
T('C20', 'twin-zlib-streamed-partition', CO, STREAM, "        if self is CompressionAlgorithm.ZLIB:\n            comp = zlib.compressobj()\n            out = bytearray()\n            nblocks = len(data) // 65536\n            for i in range(nblocks):\n                out += comp.compress(data[i * 65536:(i + 1) * 65536])\n            out += comp.compress(data[nblocks * 65536:])\n            out += comp.flush()\n            return bytes(out)\n\n        if self is CompressionAlgorithm.BZ2:\n            return bz2.compress(data)\n")

# =============================================================================================== C18 wave 5 (w4 seeded shapes, twin C16-ref16)
T('C18', 'twin-new-packet-attached-at-creation', PGP, "        sigpkt = SignatureV4()\n        sigpkt.header.tag = 2", "        sigpkt = sig._signature = SignatureV4()\n        sigpkt.header.tag = 2",
  more=[(PGP, "        sigpkt.subpackets.addnew('Issuer', _issuer=signer)\n", "        sig._name_issuer_keyid(signer)\n"),
        (PGP, "            sigpkt.halg = halg\n\n        sig._signature = sigpkt\n        return sig\n", "            sigpkt.halg = halg\n\n        return sig\n\n    def _name_issuer_keyid(self, keyid):\n        self._signature.subpackets.addnew('Issuer', _issuer=keyid)\n\n    def _name_issuer_fingerprint(self, fingerprint):\n        self._signature.subpackets.addnew('IssuerFingerprint', hashed=True, _version=4, _issuer_fpr=fingerprint)\n"),
        (PGP, "                sig._signature.subpackets.addnew('IssuerFingerprint', hashed=True, _version=4, _issuer_fpr=self.fingerprint)", "                sig._name_issuer_fingerprint(self.fingerprint)")])
M('C18', 'new-issuer-helper-names-wrong-argument', PGP, "        sigpkt = SignatureV4()\n        sigpkt.header.tag = 2", "        sigpkt = sig._signature = SignatureV4()\n        sigpkt.header.tag = 2",
  'C18.7', more=[(PGP, "        sigpkt.subpackets.addnew('Issuer', _issuer=signer)\n", "        sig._name_issuer_keyid(signer[-8:])\n"),
        (PGP, "            sigpkt.halg = halg\n\n        sig._signature = sigpkt\n        return sig\n", "            sigpkt.halg = halg\n\n        return sig\n\n    def _name_issuer_keyid(self, keyid):\n        self._signature.subpackets.addnew('Issuer', _issuer=keyid)\n")])
M('C18', 'pkalg-deprecated-rsa-ids-folded', PK, "        self._pkalg = PubKeyAlgorithm(val)\n\n        _c = {\n            # True means public", "        self._pkalg = PubKeyAlgorithm(val)\n        if self._pkalg in {PubKeyAlgorithm.RSAEncrypt, PubKeyAlgorithm.RSASign}:\n            self._pkalg = PubKeyAlgorithm.RSAEncryptOrSign\n\n        _c = {\n            # True means public", 'C18.11')
M('C18', 'pkalg-setter-renumbers-elgamal-alias', PK, "        self._pkalg = PubKeyAlgorithm(val)\n\n        _c = {\n            # True means public", "        self._pkalg = PubKeyAlgorithm(16 if val == 20 else val)\n\n        _c = {\n            # True means public", 'C18.11')
T('C18', 'twin-intended-recipient-temporaries', PGP, "                sig._signature.subpackets.addnew('IntendedRecipient', hashed=True, version=4,\n                                                 intended_recipient=intended_recipient.fingerprint)",
  "                named = intended_recipient\n                fpr = named.fingerprint\n                sig._signature.subpackets.addnew('IntendedRecipient', True, intended_recipient=fpr, version=4)")
M('C18', 'intended-recipient-resolved-to-encryption-subkey', PGP, "                sig._signature.subpackets.addnew('IntendedRecipient', hashed=True, version=4,\n                                                 intended_recipient=intended_recipient.fingerprint)",
  "                rcpt = next((k for k in intended_recipient.subkeys.values()), intended_recipient)\n                sig._signature.subpackets.addnew('IntendedRecipient', hashed=True, version=4,\n                                                 intended_recipient=rcpt.fingerprint)", 'C18.7')
M('C18', 'intended-recipient-names-signer', PGP, "                sig._signature.subpackets.addnew('IntendedRecipient', hashed=True, version=4,\n                                                 intended_recipient=intended_recipient.fingerprint)",
  "                sig._signature.subpackets.addnew('IntendedRecipient', hashed=True, version=4,\n                                                 intended_recipient=self.fingerprint)", 'C18.7')
M('C18', 'intended-recipient-primary-of-named-subkey', PGP, "                sig._signature.subpackets.addnew('IntendedRecipient', hashed=True, version=4,\n                                                 intended_recipient=intended_recipient.fingerprint)",
  "                sig._signature.subpackets.addnew('IntendedRecipient', hashed=True, version=4,\n                                                 intended_recipient=(intended_recipient.parent or intended_recipient).fingerprint)", 'C18.7')
_IR = "                sig._signature.subpackets.addnew('IntendedRecipient', hashed=True, version=4,\n                                                 intended_recipient=intended_recipient.fingerprint)\n            elif isinstance(intended_recipient, Fingerprint):\n                # FIXME: what if it's not a v4 fingerprint?\n                sig._signature.subpackets.addnew('IntendedRecipient', hashed=True, version=4,\n                                                 intended_recipient=intended_recipient)\n            else:\n                warnings.warn(\"Intended Recipient is not a PGPKey, ignoring\")\n"
T('C18', 'twin-intended-recipient-one-shared-call', PGP, _IR,
  "                recipient_fpr = intended_recipient.fingerprint\n            elif isinstance(intended_recipient, Fingerprint):\n                recipient_fpr = intended_recipient\n            else:\n                warnings.warn(\"Intended Recipient is not a PGPKey, ignoring\")\n                continue\n\n            sig._signature.subpackets.addnew('IntendedRecipient', hashed=True, version=4,\n                                             intended_recipient=recipient_fpr)\n")
M('C18', 'intended-recipient-shared-call-one-arm-derived', PGP, _IR,
  "                recipient_fpr = (intended_recipient.parent or intended_recipient).fingerprint\n            elif isinstance(intended_recipient, Fingerprint):\n                recipient_fpr = intended_recipient\n            else:\n                warnings.warn(\"Intended Recipient is not a PGPKey, ignoring\")\n                continue\n\n            sig._signature.subpackets.addnew('IntendedRecipient', hashed=True, version=4,\n                                             intended_recipient=recipient_fpr)\n", 'C18.7')

# =============================================================================================== C18 wave 6 (w5 seeded shapes, twin C18-ref19)
_PUBKEY_BODY = ("        pk = PubKeyV4() if not isinstance(self, PrivSubKeyV4) else PubSubKeyV4()\n        pk.created = self.created\n        pk.pkalg = self.pkalg\n\n        # copy over MPIs\n        for pm in self.keymaterial.__pubfields__:\n            setattr(pk.keymaterial, pm, copy.copy(getattr(self.keymaterial, pm)))\n\n        if self.pkalg in {PubKeyAlgorithm.ECDSA, PubKeyAlgorithm.EdDSA}:\n            pk.keymaterial.oid = self.keymaterial.oid\n\n        if self.pkalg == PubKeyAlgorithm.ECDH:\n            pk.keymaterial.oid = self.keymaterial.oid\n            pk.keymaterial.kdf = copy.copy(self.keymaterial.kdf)\n\n        pk.update_hlen()\n        return pk\n")
_HELPER = ("\n    def _copy_public_half_to(self, pk):\n        pk.created = %s\n        pk.pkalg = self.pkalg\n        src, dst = self.keymaterial, pk.keymaterial\n        for pm in src.__pubfields__:\n            setattr(dst, pm, copy.copy(getattr(src, pm)))\n        if self.pkalg in {PubKeyAlgorithm.ECDSA, PubKeyAlgorithm.EdDSA, PubKeyAlgorithm.ECDH}:\n            dst.oid = src.oid\n        if self.pkalg == PubKeyAlgorithm.ECDH:\n            dst.kdf = copy.copy(src.kdf)\n        return pk\n")
_NEWBODY = "        twin = PubSubKeyV4 if isinstance(self, PrivSubKeyV4) else PubKeyV4\n        pk = self._copy_public_half_to(twin())\n        pk.update_hlen()\n        return pk\n"
T('C18', 'twin-pubkey-body-in-new-base-method', PK, _PUBKEY_BODY, _NEWBODY + _HELPER % 'self.created')
M('C18', 'pubkey-new-base-method-created-of-target', PK, _PUBKEY_BODY, _NEWBODY + _HELPER % 'pk.created', 'C18')
M('C18', 'table-drops-algorithm-20', PK, "            (True, PubKeyAlgorithm.FormerlyElGamalEncryptOrSign): ElGPub,\n", "", 'C18.3',
  more=[(PK, "            (False, PubKeyAlgorithm.FormerlyElGamalEncryptOrSign): ElGPriv,\n", "")])
M('C18', 'table-drops-private-eddsa-only', PK, "            (False, PubKeyAlgorithm.EdDSA): EdDSAPriv,\n", "", 'C18.3')
T('C18', 'twin-created-readers-temporaries', PK, "        self.created = datetime.fromtimestamp(val, timezone.utc)", "        seconds = val\n        when = datetime.fromtimestamp(seconds, tz=timezone.utc)\n        self.created = when",
  more=[(PK, "    def created_bin(self, val):\n        self.created = self.bytes_to_int(val)", "    def created_bin(self, val):\n        seconds = self.bytes_to_int(val)\n        self.created = seconds")])
M('C18', 'created-future-time-clamped-to-now', PK, "        self.created = datetime.fromtimestamp(val, timezone.utc)",
  "        created = datetime.fromtimestamp(val, timezone.utc)\n        now = datetime.now(timezone.utc)\n        if created > now:\n            created = now\n        self.created = created", 'C18.5')
M('C18', 'created-zero-defaults-to-now', PK, "        self.created = datetime.fromtimestamp(val, timezone.utc)", "        self.created = datetime.fromtimestamp(val, timezone.utc) if val else datetime.now(timezone.utc)", 'C18.5')
M('C18', 'created-read-as-local-time', PK, "        self.created = datetime.fromtimestamp(val, timezone.utc)", "        self.created = datetime.fromtimestamp(val)", 'C18.5')
M('C18', 'created-octets-little-endian', PK, "    def created_bin(self, val):\n        self.created = self.bytes_to_int(val)", "    def created_bin(self, val):\n        self.created = self.bytes_to_int(val, 'little')", 'C18.5')
M('C18', 'created-datetime-truncated-to-day', PK, "            warnings.warn(\"Passing TZ-naive datetime object to PubKeyV4 packet\")\n        self._created = val", "            warnings.warn(\"Passing TZ-naive datetime object to PubKeyV4 packet\")\n        self._created = val.replace(hour=0, minute=0, second=0)", 'C18.5')
M('C18', 'fp-length-from-header-for-public', PK, "        plen = self.keymaterial.publen()\n        bcde_len = self.int_to_bytes(6 + plen, 2)", "        plen = self.keymaterial.publen()\n        bcde_len = self.int_to_bytes(self.header.length if self.public else 6 + plen, 2)", 'C18.1')
# ---- wave 6
M('C14', 'llen-widening-strict', TY, "            while 0 < llen < 4 and self.length >= (1 << (8 * llen)):", "            while 0 < llen < 4 and self.length > (1 << (8 * llen)):", 'C14.8')
M('C14', 'armor-crc-width-dropped', TY, "PGPObject.int_to_bytes(self.crc24(self.__bytes__()), 3)", "PGPObject.int_to_bytes(self.crc24(self.__bytes__()))", 'C14.8')
M('C14', 'userid-fallback-forgotten', PK, "            self.uid = uid_bytes.decode('charmap')\n            self._encoding_fallback = True\n", "            self.uid = uid_bytes.decode('charmap')\n", 'C14.8')
M('C14', 'userid-fallback-latin-replace', PK, "            self.uid = uid_bytes.decode('charmap')\n            self._encoding_fallback = True\n", "            self.uid = uid_bytes.decode('utf-8', 'replace')\n", 'C14.8')
T('C14', 'twin-userid-fallback-flag-first', PK, "            self.uid = uid_bytes.decode('charmap')\n            self._encoding_fallback = True\n", "            self._encoding_fallback = True\n            self.uid = uid_bytes.decode('charmap')\n")
M('C20', 'new-contents-by-reference', PGP, "            lit._contents = bytearray(msg.text_to_bytes(message))\n", "            lit._contents = msg.text_to_bytes(message)\n", 'C20.6')
T('C20', 'twin-new-contents-temporary-copy', PGP, "            lit._contents = bytearray(msg.text_to_bytes(message))\n", "            octets = msg.text_to_bytes(message)\n            lit._contents = bytearray(octets)\n")
M('C20', 'new-contents-charset-hint', PGP, "            lit._contents = bytearray(msg.text_to_bytes(message))\n", "            lit._contents = bytearray(msg.text_to_bytes(message).decode('utf-8').encode(charset or 'utf-8')) if charset else bytearray(msg.text_to_bytes(message))\n", 'C20.6')
# wave 6: literal text codec on the signed-data path, rejection on re-encoded sizes, verdict without own hash
M('C02', 'literal-contents-utf8-sig', PK, "            return self._contents.decode('utf-8')", "            return self._contents.decode('utf-8-sig')", 'C02.8')
M('C02', 'literal-contents-utf8-ignore-errors-latin', PK, "            return self._contents.decode('utf-8')", "            return self._contents.decode('utf-16')", 'C02.8')
T('C02', 'twin-literal-contents-codec-spelling', PK, "            return self._contents.decode('utf-8')", "            raw = self._contents\n            return raw.decode('UTF-8')")
_UHLOOP = "        while plen - len(packet) < uhl:\n            sp = SignatureSP(packet)\n            self[sp.__class__.__name__] = sp\n"
M('C05', 'parse-rejects-on-reencoded-area-size', FL, _UHLOOP, _UHLOOP + "\n        if sum(len(sp) for sp in self._hashed_sp.values()) != hl or sum(len(sp) for sp in self._unhashed_sp.values()) != uhl:\n            raise PGPError(\"Signature subpackets do not add up to the announced length of their area\")\n", 'C05.1')
M('C05', 'parse-rejects-on-reserialised-capture-length', FL, "        self._hashed_raw = hashed_raw\n", "        self._hashed_raw = hashed_raw\n        if sum(len(s.__bytearray__()) for s in self._hashed_sp.values()) != hl:\n            raise PGPError(\"non-canonical hashed subpacket area\")\n", 'C05.1')
T('C05', 'twin-parse-warns-on-reencoded-area-size', FL, _UHLOOP, _UHLOOP + "\n        if sum(len(sp) for sp in self._unhashed_sp.values()) != uhl:\n            warnings.warn(\"non-minimal subpacket length encoding\")\n")
T('C05', 'twin-parse-rejects-on-received-length-only', FL, "        hl = self.bytes_to_int(packet[:2])\n        hashed_raw = packet[:2 + hl]", "        hl = self.bytes_to_int(packet[:2])\n        if hl > len(packet) - 2:\n            raise PGPError(\"hashed subpacket area runs past the end of the packet\")\n        hashed_raw = packet[:2 + hl]")
_VER = "                    sigv.add_sigsubj(sig, self, subj, SecurityIssues.WrongSig if not verified else SecurityIssues.OK)\n"
M('C05', 'verify-verdict-cache-by-signature-value', PGP, "                if issues and issues.causes_signature_verify_to_fail:\n                    sigv.add_sigsubj(sig, self, subj, issues)\n                else:\n",
  "                if issues and issues.causes_signature_verify_to_fail:\n                    sigv.add_sigsubj(sig, self, subj, issues)\n                elif (id(subj), sig.signer, bytes(sig.__sig__)) in self._verdicts:\n                    sigv.add_sigsubj(sig, self, subj, self._verdicts[(id(subj), sig.signer, bytes(sig.__sig__))])\n                else:\n", 'C05.4',
  more=[(PGP, _VER, "                    self._verdicts[(id(subj), sig.signer, bytes(sig.__sig__))] = SecurityIssues.WrongSig if not verified else SecurityIssues.OK\n" + _VER)])
M('C05', 'verify-verdict-ok-without-hash-for-own-key', PGP, "                if issues and issues.causes_signature_verify_to_fail:\n                    sigv.add_sigsubj(sig, self, subj, issues)\n                else:\n",
  "                if issues and issues.causes_signature_verify_to_fail:\n                    sigv.add_sigsubj(sig, self, subj, issues)\n                elif subj is self and sig.signer == self.fingerprint.keyid and self._self_verified:\n                    sigv.add_sigsubj(sig, self, subj, SecurityIssues.OK)\n                else:\n", 'C05.4')
T('C05', 'twin-verify-hashdata-temp', PGP, "                    verified = self._key.verify(sig.hashdata(subj), sig.__sig__, getattr(hashes, sig.hash_algorithm.name)())", "                    tbs = sig.hashdata(subj)\n                    hash_object = getattr(hashes, sig.hash_algorithm.name)()\n                    verified = self._key.verify(tbs, sig.__sig__, hash_object)")

# =============================================================================================== wave 7: twin C17-ref20
# a closure that RETURNS the generator expression is the generator that loops and yields (canon); a verification loop over a
# pair list whose own summary carries a filter keeps the whole collection text (interp _split_filter)
for _p in ('C17', 'C01', 'C02', 'C11'):
    TW(_p, 'twin-C17-ref20', 'C17-ref20')
_FS_LOOP = "            for sig in sigs:\n                if sig.signer in _ids:\n                    yield sig\n"
_FS_RET = "            return (sig for sig in sigs if sig.signer in _ids)\n"
_MSG_LOOP = "                for sig in _filter_sigs(subject.signatures):\n                    sspairs.append((sig, subject._signed_data))\n"
_MSG_INLINE = "                _mine = {self.fingerprint.keyid} | set(self.subkeys)\n                for sig in (s for s in subject.signatures if s.signer in _mine):\n                    sspairs.append((sig, subject.%s))\n"
for _p in ('C17', 'C01', 'C02', 'C11'):
    T(_p, 'twin-verify-message-inline-genexp', PGP, _MSG_LOOP, _MSG_INLINE % '_signed_data')
M('C01', 'filter-returns-genexp-message-raw', PGP, _FS_LOOP, _FS_RET, 'C01.7',
  more=[(PGP, "                    sspairs.append((sig, subject._signed_data))\n", "                    sspairs.append((sig, subject.message))\n")])
M('C02', 'filter-returns-genexp-message-raw', PGP, _FS_LOOP, _FS_RET, 'C02.7',
  more=[(PGP, "                    sspairs.append((sig, subject._signed_data))\n", "                    sspairs.append((sig, subject.message))\n")])
M('C11', 'filter-returns-genexp-message-raw', PGP, _FS_LOOP, _FS_RET, 'C11.4',
  more=[(PGP, "                    sspairs.append((sig, subject._signed_data))\n", "                    sspairs.append((sig, subject.message))\n")])
M('C11', 'verify-message-inline-genexp-raw', PGP, _MSG_LOOP, _MSG_INLINE % 'message', 'C11.4')
M('C02', 'verify-message-inline-genexp-raw', PGP, _MSG_LOOP, _MSG_INLINE % 'message', 'C02.7')
M('C17', 'is-bad-helper-negated', TY, "        yield from (\n            sigsub\n            for sigsub in self._subjects\n            if sigsub.issues and sigsub.issues.causes_signature_verify_to_fail\n        )\n",
  "        yield from (sigsub for sigsub in self._subjects if self._is_bad(sigsub))\n\n    @staticmethod\n    def _is_bad(sigsub):\n        return sigsub.issues and not sigsub.issues.causes_signature_verify_to_fail\n", 'C17.2')


# =============================================================================================== wave 7 (seeded/Cxx-w6mut*, twins/Cxx-ref20..21)
# the six first-contact misses of wave 7 as corpus mutants of the rules written for them, and the twins that were noisy at first contact
_MD('C02', 'held-out-w6mut1-blank-removal-without-cr', '../../seeded/C02-w6mut1/patch.diff', 'C02.7')
_MD('C11', 'held-out-C02-w6mut1-blank-removal-without-cr', '../../seeded/C02-w6mut1/patch.diff', 'C11.4')
_MD('C03', 'held-out-w6mut1-unknown-cipher-keyerror', '../../seeded/C03-w6mut1/patch.diff', 'C03.4')
_MD('C13', 'held-out-C03-w6mut1-unknown-cipher-keyerror', '../../seeded/C03-w6mut1/patch.diff', 'C13.1')
_MD('C10', 'held-out-w6mut2-dash-unescape-none-is-empty', '../../seeded/C10-w6mut2/patch.diff', 'C10.5')
_MD('C16', 'held-out-w6mut1-unlock-iterator-exhausted', '../../seeded/C16-w6mut1/patch.diff', 'C16.7')
_MD('C16', 'held-out-w6mut2-selfsig-memoised', '../../seeded/C16-w6mut2/patch.diff', 'C16.5')
_MD('C20', 'held-out-w6mut2-literal-hlen-counts-characters', '../../seeded/C20-w6mut2/patch.diff', 'C20.7')
M('C09', 'mpi-zero-written-with-one-octet', 'pgpy/packet/types.py', "int(self).to_bytes(self.byte_length(), 'big')", "int(self).to_bytes(max(self.byte_length(), 1), 'big')", 'C09.3')
for _p, _t in (('C13', 'C13-ref21'), ('C02', 'C05-ref21'), ('C09', 'C09-ref21'), ('C01', 'C09-ref21'), ('C10', 'C11-ref21'), ('C11', 'C11-ref21'),
               ('C03', 'C03-ref21'), ('C04', 'C04-ref21'), ('C16', 'C16-ref21'), ('C20', 'C20-ref21')):
    TW(_p, 'twin-w7-%s' % _t, _t)
# ---- wave 7: S2K stream built by private helpers (the unit of the simple form is the bare passphrase: bytes * n is a repetition),
#      public twin class chosen by an overridden new helper (dispatch spelled out per receiver class by the canonicaliser)
def _twin_mut(prop, id, twin, rule, swaps, only=None):
    eds = _twin_edits(twin, only)
    out = []
    for f, o, n in eds:
        for a, b in swaps:
            n = n.replace(a, b)
        out.append((f, o, n))
    assert out != eds, id
    M(prop, id, out[0][0], out[0][1], out[0][2], rule, more=out[1:])


for _p in ('C12', 'C03', 'C04', 'C06'):
    TW(_p, 'twin-C12-ref20', 'C12-ref20')
for _p in ('C07', 'C18', 'C08'):
    TW(_p, 'twin-C07-ref20', 'C07-ref20')
_twin_mut('C12', 'w7-dk-helpers-preload-after-data', 'C12-ref20', 'C12.1', [("            h.update(b'\\x00' * i)\n            h.update(hashdata)\n", "            h.update(hashdata)\n            h.update(b'\\x00' * i)\n")])
_twin_mut('C12', 'w7-dk-helpers-one-copy-too-many', 'C12-ref20', 'C12.1', [("        return (block * hcount) + block[:hleft]\n", "        return (block * (hcount + 1)) + block[:hleft]\n")])
_twin_mut('C12', 'w7-dk-helpers-salt-after-passphrase', 'C12-ref20', 'C12.1', [("            block = bytes(self.salt) + block\n", "            block = block + bytes(self.salt)\n")])
_twin_mut('C12', 'w7-dk-helpers-contexts-floor', 'C12-ref20', 'C12.2', [("        ctx = -(-keylen // hashlen)\n", "        ctx = keylen // hashlen\n")])
_twin_mut('C07', 'w7-pubkey-override-keeps-private-subkey', 'C07-ref20', 'C07.1', [("    def _new_public_packet(self):\n        return PubSubKeyV4()\n", "    def _new_public_packet(self):\n        return PrivSubKeyV4()\n")])
_twin_mut('C18', 'w7-pubkey-override-keeps-private-subkey', 'C07-ref20', 'C18.6', [("    def _new_public_packet(self):\n        return PubSubKeyV4()\n", "    def _new_public_packet(self):\n        return PrivSubKeyV4()\n")])
# ---- wave 7 (w7fix-C): the group key kept in a `nonlocal` variable of a factory closure instead of an instance attribute
_GRP_CLS = "            class PktGrouper(object):\n                def __init__(self):\n                    self.last = None\n\n                def __call__(self, pkt):\n" + GROUPER + "            return PktGrouper()\n"
_GRP_NL = "            last = None\n\n            def grouper(pkt):\n                nonlocal last\n                if %s:\n                    last = %s\n                return last\n            return grouper\n"
_GRP_KEY = "'{:02X}_{:s}'.format(id(pkt), pkt.__class__.__name__)"
T('C14', 'twin-grouper-nonlocal', PGP, _GRP_CLS, _GRP_NL % ("pkt.header.tag != PacketTag.Signature", _GRP_KEY))
M('C14', 'grouper-nonlocal-splits-on-signatures', PGP, _GRP_CLS, _GRP_NL % ("pkt.header.tag != PacketTag.Trust", _GRP_KEY), 'C14.3')
M('C14', 'grouper-nonlocal-key-not-unique', PGP, _GRP_CLS, _GRP_NL % ("pkt.header.tag != PacketTag.Signature", "pkt.__class__.__name__"), 'C14.3')
M('C14', 'grouper-nonlocal-forgotten', PGP, _GRP_CLS, (_GRP_NL % ("pkt.header.tag != PacketTag.Signature", _GRP_KEY)).replace("                nonlocal last\n", "                last = None\n"), 'C14.3')

# ---- wave 7 (w7fix-C): the scan of KeyAction.usage in a private method that returns from inside its loop
_SCAN_OLD = ("        if len(self.flags):\n            for _key in _preiter(key, key.subkeys.values()):\n                if self.flags & set(_key._get_key_flags(user)):\n                    break\n\n"
             "            else:  # pragma: no cover\n                warning = \"Key {keyid:s} does not have the required usage flag {flags:s}\".format(**em)\n"
             "                if key._require_usage_flags:\n                    raise PGPError(warning)\n                else:\n                    logging.warning(warning)\n\n"
             "        else:\n            _key = key\n")
_SCAN_NEW = "        _key = self._select_key(key, user, em)\n"


def _scan_method(noflags="        if not self.flags:\n            return key\n\n", cands="[key] + list(key.subkeys.values())",
                 test="self.flags & set(candidate._get_key_flags(user))", enforce="        if key._require_usage_flags:\n            raise PGPError(warning)\n\n",
                 hit="return candidate", last="return candidate"):
    return ("    def _select_key(self, key, user, em):\n" + noflags + "        candidate = key\n        for candidate in " + cands + ":\n"
            "            if " + test + ":\n                " + hit + "\n\n"
            "        warning = \"Key {keyid:s} does not have the required usage flag {flags:s}\".format(**em)\n" + enforce +
            "        logging.warning(warning)\n        " + last + "\n\n    @contextlib.contextmanager\n    def usage(self, key, user):\n")


_SCAN_AT = "    @contextlib.contextmanager\n    def usage(self, key, user):\n"
T('C16', 'twin-usage-select-method-early-return', DE, _SCAN_OLD, _SCAN_NEW, more=[(DE, _SCAN_AT, _scan_method())])
M('C16', 'select-method-subkeys-only', DE, _SCAN_OLD, _SCAN_NEW, 'C16.3', more=[(DE, _SCAN_AT, _scan_method(cands="list(key.subkeys.values())"))])
M('C16', 'select-method-no-enforcement', DE, _SCAN_OLD, _SCAN_NEW, 'C16.3', more=[(DE, _SCAN_AT, _scan_method(enforce=""))])
M('C16', 'select-method-returns-addressed-key-on-hit', DE, _SCAN_OLD, _SCAN_NEW, 'C16.3', more=[(DE, _SCAN_AT, _scan_method(hit="return key"))])
M('C16', 'select-method-union-instead-of-intersection', DE, _SCAN_OLD, _SCAN_NEW, 'C16.3', more=[(DE, _SCAN_AT, _scan_method(test="self.flags | set(candidate._get_key_flags(user))"))])
M('C16', 'select-method-flagless-falls-into-scan', DE, _SCAN_OLD, _SCAN_NEW, 'C16.3', more=[(DE, _SCAN_AT, _scan_method(noflags="        if not self.flags:\n            return None\n\n"))])
M('C16', 'usage-flagless-yields-nothing', DE, "        else:\n            _key = key\n\n        if _key is not key:", "        else:\n            _key = None\n\n        if _key is not key:", 'C16.3')
