#!/venv/bin/python
"""Source of the sensitivity corpus.  Run to regenerate selftest/Cxx.json.

M(id, file, old, new, rule=...)  : a seeded mutant - must be reported (ideally by `rule`)
T(id, file, old, new)            : a behaviour-preserving twin - must stay silent
Edits are exact text replacements that must match exactly once in the current tree.
"""
import json
import os

HERE = os.path.dirname(os.path.abspath(__file__))
PGP = 'pgpy/pgp.py'
PK = 'pgpy/packet/packets.py'
FL = 'pgpy/packet/fields.py'
TY = 'pgpy/types.py'
CO = 'pgpy/constants.py'
DE = 'pgpy/decorators.py'
SE = 'pgpy/symenc.py'
PT = 'pgpy/packet/types.py'
SS = 'pgpy/packet/subpackets/signature.py'
ST = 'pgpy/packet/subpackets/types.py'
UA = 'pgpy/packet/subpackets/userattribute.py'

C = {}


def M(prop, id, file, old, new, rule=None, more=()):
    edits = [{'file': file, 'old': old, 'new': new}] + [{'file': f, 'old': o, 'new': n} for f, o, n in more]
    C.setdefault(prop, []).append({'id': id, 'expect': 'violation', 'rule': rule, 'edits': edits})


def T(prop, id, file, old, new, more=()):
    edits = [{'file': file, 'old': old, 'new': new}] + [{'file': f, 'old': o, 'new': n} for f, o, n in more]
    C.setdefault(prop, []).append({'id': id, 'expect': 'silent', 'edits': edits})


# =============================================================================================== C01
M('C01', 'drop-b4', PGP, "                _data += b'\\xb4'\n", "                pass\n", 'C01.1')
M('C01', 'swap-b4-d1', PGP, "            if subject.is_uid:\n                _data += b'\\xb4'\n\n            else:\n                _data += b'\\xd1'",
  "            if subject.is_uid:\n                _data += b'\\xd1'\n\n            else:\n                _data += b'\\xb4'", 'C01.1')
M('C01', 'uid-len-2', PGP, "_data += self.int_to_bytes(len(_s), 4) + _s", "_data += self.int_to_bytes(len(_s), 2) + _s", 'C01.1')
M('C01', 'drop-primary-in-0x28', PGP, "                _s = subject.parent.hashdata\n                _data += b'\\x99' + self.int_to_bytes(len(_s), 2) + _s\n",
  "                _s = subject.parent.hashdata\n", 'C01.1')
M('C01', 'drop-halg-octet', PGP, "        hcontext.append(self.hash_algorithm)\n", "", 'C01.1')
M('C01', 'trailer-len-early', PGP, "        hcontext += self._signature.subpackets.__hashbytearray__()\n        hlen = len(hcontext)\n",
  "        hlen = len(hcontext)\n        hcontext += self._signature.subpackets.__hashbytearray__()\n", 'C01.1')
M('C01', 'trailer-04fe', PGP, "_data += b'\\x04\\xff'", "_data += b'\\x04\\xfe'", 'C01.1')
M('C01', 'drop-certrevocation-uid', PGP,
  "SignatureType.Positive_Cert, SignatureType.Attestation, SignatureType.CertRevocation}:\n            \"\"\"\n            A certification signature",
  "SignatureType.Positive_Cert, SignatureType.Attestation}:\n            \"\"\"\n            A certification signature", 'C01.1')
M('C01', 'drop-attestation', PGP, "SignatureType.Positive_Cert, SignatureType.Attestation, SignatureType.CertRevocation,\n                         SignatureType.Subkey_Binding",
  "SignatureType.Positive_Cert, SignatureType.CertRevocation,\n                         SignatureType.Subkey_Binding", 'C01.1')
M('C01', 'keyhash-from-private', PGP, "        pub = self._key if self.is_public else self._key.pubkey()\n", "        pub = self._key\n", 'C01.1b')
M('C01', 'uid-hashdata-with-header', PGP, "            return self._uid.__bytearray__()[len(self._uid.header):]", "            return self._uid.__bytearray__()", 'C01.1b')
M('C01', 'invalid-sig-true', FL, "            self.__pubkey__().verify(sigbytes, subj, ec.ECDSA(hash_alg))\n        except InvalidSignature:\n            return False",
  "            self.__pubkey__().verify(sigbytes, subj, ec.ECDSA(hash_alg))\n        except InvalidSignature:\n            return True", 'C01.3')
M('C01', 'return-true-early', FL, "    def verify(self, subj, sigbytes, hash_alg):\n        try:\n            self.__pubkey__().verify(sigbytes, subj, hash_alg)",
  "    def verify(self, subj, sigbytes, hash_alg):\n        if not sigbytes:\n            return True\n        try:\n            self.__pubkey__().verify(sigbytes, subj, hash_alg)", 'C01.3')
M('C01', 'broad-except', FL, "            self.__pubkey__().verify(sigbytes, subj, padding.PKCS1v15(), hash_alg)\n        except InvalidSignature:\n            return False",
  "            self.__pubkey__().verify(sigbytes, subj, padding.PKCS1v15(), hash_alg)\n        except InvalidSignature:\n            return False\n        except Exception:\n            pass", 'C01.3')
M('C01', 'eddsa-verify-raw-subject', FL, "        digest.update(subj)\n        subj = digest.finalize()\n        try:\n            self.__pubkey__().verify(sigbytes, subj)",
  "        digest.update(subj)\n        try:\n            self.__pubkey__().verify(sigbytes, subj)", 'C01.3')
M('C01', 'wrongsig-polarity', PGP, "SecurityIssues.WrongSig if not verified else SecurityIssues.OK", "SecurityIssues.WrongSig if verified else SecurityIssues.OK", 'C01.2')
M('C01', 'verify-outer-subject', PGP, "verified = self._key.verify(sig.hashdata(subj), sig.__sig__,", "verified = self._key.verify(sig.hashdata(subject), sig.__sig__,", 'C01.2')
M('C01', 'verify-other-sig-bytes', PGP, "verified = self._key.verify(sig.hashdata(subj), sig.__sig__,", "verified = self._key.verify(sig.hashdata(subj), sspairs[0][0].__sig__,", 'C01.2')
M('C01', 'default-ok', TY, "            issues = SecurityIssues(0xFF)", "            issues = SecurityIssues(0)", 'C01.4')
M('C01', 'wrongsig-not-failing', CO, "            SecurityIssues.WrongSig\n            | SecurityIssues.Expired", "            SecurityIssues.Expired", 'C01.4')
M('C01', 'delegate-wrong-order', PGP, "sigv &= self.subkeys[sig.signer].verify(subj, sig)", "sigv &= self.subkeys[sig.signer].verify(subject, sig)", 'C01.2')
M('C01', 'pubkey-verify-swapped', PK, "        return self.keymaterial.verify(subj, sigbytes, hash_alg)", "        return self.keymaterial.verify(sigbytes, subj, hash_alg)", 'C01.2')
M('C01', 'sigtype-id', CO, "    CertRevocation = 0x30", "    CertRevocation = 0x31", 'C01.1')
T('C01', 'twin-rename-local', PGP, "        hcontext = bytearray()\n        hcontext.append(self._signature.header.version if not self.embedded else self._signature._sig.header.version)\n        hcontext.append(self.type)\n        hcontext.append(self.key_algorithm)\n        hcontext.append(self.hash_algorithm)\n        hcontext += self._signature.subpackets.__hashbytearray__()\n        hlen = len(hcontext)\n        _data += hcontext",
  "        ctx = bytearray()\n        ctx.append(self._signature.header.version if not self.embedded else self._signature._sig.header.version)\n        ctx.append(self.type)\n        ctx.append(self.key_algorithm)\n        ctx.append(self.hash_algorithm)\n        ctx += self._signature.subpackets.__hashbytearray__()\n        hlen = len(ctx)\n        _data += ctx")
T('C01', 'twin-split-const', PGP, "_data += b'\\x04\\xff'", "_data += b'\\x04'\n        _data += b'\\xff'")
T('C01', 'twin-join', PGP, "_data += b'\\x99' + self.int_to_bytes(len(_s), 2) + _s\n\n        if self.type in {SignatureType.KeyRevocation",
  "_data += b''.join([b'\\x99', self.int_to_bytes(len(_s), 2), _s])\n\n        if self.type in {SignatureType.KeyRevocation")
T('C01', 'twin-temp-hoist', PGP, "                    verified = self._key.verify(sig.hashdata(subj), sig.__sig__, getattr(hashes, sig.hash_algorithm.name)())",
  "                    hd = sig.hashdata(subj)\n                    verified = self._key.verify(hd, sig.__sig__, getattr(hashes, sig.hash_algorithm.name)())")
T('C01', 'twin-if-else-form', FL, "            self.__pubkey__().verify(sigbytes, subj, hash_alg)\n        except InvalidSignature:\n            return False\n        return True",
  "            self.__pubkey__().verify(sigbytes, subj, hash_alg)\n        except InvalidSignature:\n            return False\n        else:\n            return True")
T('C01', 'twin-logging', PGP, "        sigv = SignatureVerification()\n        for sig, subj in sspairs:", "        sigv = SignatureVerification()\n        warnings.warn('verifying') if False else None\n        for sig, subj in sspairs:")

# =============================================================================================== C17
M('C17', 'back-to-membership', CO, "        return bool(self & (\n            SecurityIssues.WrongSig\n            | SecurityIssues.Expired\n            | SecurityIssues.Disabled\n            | SecurityIssues.Invalid\n            | SecurityIssues.NoSelfSignature\n        ))",
  "        return self in {SecurityIssues.WrongSig, SecurityIssues.Expired, SecurityIssues.Disabled, SecurityIssues.Invalid, SecurityIssues.NoSelfSignature}", 'C17.1')
M('C17', 'eq-mask', CO, "        return bool(self & (\n            SecurityIssues.WrongSig", "        return self == (\n            SecurityIssues.WrongSig", 'C17.1',
  more=[(CO, "            | SecurityIssues.NoSelfSignature\n        ))", "            | SecurityIssues.NoSelfSignature\n        )")])
M('C17', 'drop-expired', CO, "            | SecurityIssues.Expired\n", "", 'C17.1')
M('C17', 'add-advisory', CO, "            | SecurityIssues.NoSelfSignature\n", "            | SecurityIssues.NoSelfSignature\n            | SecurityIssues.InsecureCurve\n", 'C17.1')
M('C17', 'bad-without-fail', TY, "            if sigsub.issues and sigsub.issues.causes_signature_verify_to_fail\n        )", "            if sigsub.issues\n        )", 'C17.2')
M('C17', 'good-ignores-fail', TY, "            if not sigsub.issues\n            or (sigsub.issues and not sigsub.issues.causes_signature_verify_to_fail)",
  "            if not sigsub.issues\n            or sigsub.issues", 'C17.2')
M('C17', 'bool-any', TY, "        return all(\n            sigsub.issues is SecurityIssues.OK", "        return any(\n            sigsub.issues is SecurityIssues.OK", 'C17.2')
M('C17', 'and-drops-other', TY, "        self._subjects += other._subjects\n        return self", "        return self", 'C17.2')
M('C17', 'two-records', PGP, "                    sigv.add_sigsubj(sig, self, subj, issues)\n", "                    sigv.add_sigsubj(sig, self, subj, issues)\n                    sigv.add_sigsubj(sig, self, subj, issues)\n", 'C17.3')
M('C17', 'no-record-on-delegation', PGP, "                sigv &= self.subkeys[sig.signer].verify(subj, sig)\n", "                self.subkeys[sig.signer].verify(subj, sig)\n", 'C17.3')
M('C17', 'disqualified-records-ok', PGP, "                    sigv.add_sigsubj(sig, self, subj, issues)\n", "                    sigv.add_sigsubj(sig, self, subj, SecurityIssues.OK)\n", 'C17.4')
M('C17', 'issues-and', PGP, "                issues = signature_issues | subkey_issues", "                issues = signature_issues & subkey_issues", 'C17.5')
M('C17', 'expired-not-added', PGP, "            res |= SecurityIssues.Expired\n", "            pass\n", 'C17.5')
M('C17', 'branch-inverted', PGP, "                if issues and issues.causes_signature_verify_to_fail:", "                if issues and not issues.causes_signature_verify_to_fail:", 'C17.4')
M('C17', 'default-ok', TY, "            issues = SecurityIssues(0xFF)", "            issues = SecurityIssues.OK", 'C17.4')
T('C17', 'twin-mask-local', CO, "        return bool(self & (\n            SecurityIssues.WrongSig\n            | SecurityIssues.Expired\n            | SecurityIssues.Disabled\n            | SecurityIssues.Invalid\n            | SecurityIssues.NoSelfSignature\n        ))",
  "        mask = SecurityIssues.WrongSig | SecurityIssues.Expired | SecurityIssues.Disabled | SecurityIssues.Invalid | SecurityIssues.NoSelfSignature\n        return (self & mask) != 0")
T('C17', 'twin-any-form', CO, "        return bool(self & (\n            SecurityIssues.WrongSig\n            | SecurityIssues.Expired\n            | SecurityIssues.Disabled\n            | SecurityIssues.Invalid\n            | SecurityIssues.NoSelfSignature\n        ))",
  "        return any(f in self for f in (SecurityIssues.WrongSig, SecurityIssues.Expired, SecurityIssues.Disabled, SecurityIssues.Invalid, SecurityIssues.NoSelfSignature))")
T('C17', 'twin-good-demorgan', TY, "            if not sigsub.issues\n            or (sigsub.issues and not sigsub.issues.causes_signature_verify_to_fail)",
  "            if not (sigsub.issues and sigsub.issues.causes_signature_verify_to_fail)")


def main():
    import importlib.util
    extra = os.path.join(HERE, 'gen_more.py')
    if os.path.exists(extra):
        spec = importlib.util.spec_from_file_location('gen_more', extra)
        mod = importlib.util.module_from_spec(spec)
        mod.M, mod.T = M, T
        for k in ('PGP', 'PK', 'FL', 'TY', 'CO', 'DE', 'SE', 'PT', 'SS', 'ST', 'UA'):
            setattr(mod, k, globals()[k])
        spec.loader.exec_module(mod)
    for prop, cases in sorted(C.items()):
        with open(os.path.join(HERE, '%s.json' % prop), 'w') as fh:
            json.dump(cases, fh, indent=1)
        print(prop, len(cases), 'cases')


if __name__ == '__main__':
    main()
